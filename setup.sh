#!/bin/bash
# Build the harness once, offline, from files on disk only.
set -e
ROOT="$(cd "$(dirname "${BASH_SOURCE[0]}")" && pwd)"
export CARGO_NET_OFFLINE=true CARGO_TARGET_DIR="$ROOT/target" RUSTFLAGS="--cfg simple_dns_verif"
mkdir -p "$ROOT/evidence" "$ROOT/replays"
cp /repo/Cargo.lock "$ROOT/mc/Cargo.lock"
cd "$ROOT/mc" && cargo build --release --offline && cargo build --profile nda --offline
