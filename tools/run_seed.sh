#!/bin/bash
# run_seed.sh <patch.diff> <check ids...> : apply the patch to /repo, run the quick checks, undo it.
set -u
PATCH="$1"; shift
cd /repo && git diff --quiet || { echo "/repo has uncommitted changes, refusing"; exit 2; }
git -C /repo apply "$PATCH" || { echo "patch does not apply"; exit 2; }
trap 'git -C /repo checkout -- . ' EXIT
for id in "$@"; do
  OUT=$(cd /verif && ./check "$id" quick 2>&1); RC=$?
  NV=$(echo "$OUT" | grep -c "^VIOLATION")
  SIG=$(echo "$OUT" | grep -m2 "signature:" | sed 's/^ *signature: //' | paste -sd';')
  echo "$id exit=$RC violation_lines=$NV first_signatures=[$SIG]"
done
