#!/bin/bash
# eval_seed_all.sh <seed-name> <patch.diff> : apply to /repo, rebuild once, run every quick check, undo.
# Appends one JSON line to /tmp/seed_eval.jsonl: {"seed":..., "caught_by": {"Cxx": [signatures...]}, "exit": {...}}
set -u
NAME="$1"; PATCH="$2"
cd /repo && git diff --quiet || { echo "/repo dirty"; exit 2; }
git -C /repo apply "$PATCH" || { echo "patch does not apply"; exit 2; }
trap 'git -C /repo checkout -- .' EXIT
cd /verif
python3 - "$NAME" <<'PY'
import subprocess, json, sys, re
name=sys.argv[1]
res={"seed":name,"caught_by":{},"exit":{}}
first=True
for i in range(1,21):
    pid=f"C{i:02d}"
    cmd=["./check",pid,"quick"] if first else ["./target/release/mc",pid,"quick"]
    first=False
    p=subprocess.run(cmd,capture_output=True,text=True,env=dict(__import__('os').environ,VERIF_ROOT="/verif"))
    res["exit"][pid]=p.returncode
    sigs=re.findall(r"^\s+signature: (.*)$",p.stdout,re.M)
    if p.returncode==1: res["caught_by"][pid]=sigs[:4]
    elif p.returncode!=0: res["caught_by"][pid]=["MACHINERY exit %d"%p.returncode]
open("/tmp/seed_eval.jsonl","a").write(json.dumps(res)+"\n")
print(name, "caught by", sorted(res["caught_by"].keys()))
PY
