#!/usr/bin/env python3
"""Builds seeded/<name>/meta.json and seeded/INDEX.md from the agents' notes, the confirmation
runs (tools/confirm_seed.sh) and the evaluation runs (tools/eval_seed_all.sh)."""
import json, os, glob
ROOT = os.path.dirname(os.path.dirname(os.path.abspath(__file__)))
S = os.path.join(ROOT, 'seeded')
# what the first run of the checks (before strengthening) did with the seed, recorded by hand
FIRST = {
 'C04a': ('missed', 'no NSEC value with an empty window bitmap in the packet space; added to the Windows domain (C02/C04/C11/C16)'),
 'C08a': ('missed', 'only freshly built packets were edited; added the parse-edit-serialise space'),
 'C11a': ('missed', 'all names were lower case; added the letter-case sharing family (C03/C07) and case variants to the layout packets'),
 'C13a': ('missed', 'no address record below an SRV target in the menu; added two SRV records (target with records below it, self-targeting)'),
 'C14a': ('missed', 'no multi-byte character near byte 63 of a rendered instance name; added the alignment label family (C12/C14)'),
 'C16a': ('missed', 'no pair of values differing only in letter case; added case-variant owners, equality judged modulo ASCII case'),
 'C17a': ('missed', 'boundary-length names were never written with trailing/leading/double dots; added dotted variants'),
 'C03b': ('missed by C03 (caught by C06)', 'no name near 255 bytes and no deep chain in the compression spaces; added the long-name family'),
 'C08b': ('missed by C08 (caught by C09)', 'no header followed by an OPT record in C08; added the parse-with-OPT space'),
 'C11b': ('missed', 'no input with two OPT records; added two-OPT packets at every position'),
 'C15b': ('missed', 'no IPv4-mapped IPv6 address in the address alphabet; added'),
 'C16b': ('missed', 'attribute-less TXT built from parts was excluded as not wire-representable; added constructible-but-never-parsed values'),
 # round 3: these were judged to be misses from the change summaries and the checks were strengthened before the first run
 'C01c': ('anticipated miss by C01 (C11 had the input class)', 'no message with two OPT records among the C01 seed messages; added at every position'),
 'C05c': ('anticipated miss', 'every message had the same header flags; framing is now swept under TC / query / other-opcode headers and every proper prefix must be rejected'),
 'C06c': ('anticipated miss', 'no length byte 0x40..=0xbf followed by that many bytes behind a pointer (needs >= 66 bytes); added in place, via label+pointer, via bare pointer and embedded in opaque RDATA'),
 'C10c': ('anticipated miss by C10 (C03/C07 had it)', 'C10 built only the uncompressed form; the compressed build is now decoded by the reference decoder as well'),
 'C11c': ('anticipated miss by C11 (C03/C07 had it)', 'no parsed input above 16 KiB; straddle, long-name and large packets added to the C11 inputs'),
 'C13c': ('anticipated miss', 'no two records differing only in class; added a class twin to the menu'),
 'C14c': ('anticipated miss', 'no query producing a reply above 9000 bytes and no watchdog around the handlers; added many-question datagrams, a 20 s handler watchdog and the global hang monitor'),
 'C15c': ('anticipated miss', 'announcements never carried foreign records in the additional section next to a genuine instance; added that event'),
 'C19c': ('anticipated miss', 'no two keys differing only in letter case; added'),
}
def load_jsonl(pattern):
    out = {}
    for f in sorted(glob.glob(os.path.join(S, '_results', pattern))):
        for l in open(f):
            l = l.strip()
            if l.startswith('{'):
                d = json.loads(l); out[d['seed']] = d
    return out
conf = load_jsonl('confirm_*.jsonl'); ev = load_jsonl('eval_*.jsonl')
rows = []
for d in sorted(os.listdir(S)):
    p = os.path.join(S, d)
    if not os.path.isdir(p) or d.startswith('_'): continue
    notes = json.load(open(os.path.join(p, 'agent_notes.json')))
    c = conf.get(d, {}); e = ev.get(d, {})
    demo = [f for f in os.listdir(p) if f.endswith('.rs')]
    meta = {
        'seed': d, 'property': notes.get('property', d[:3]),
        'summary': notes.get('summary'), 'needs_to_manifest': notes.get('needs'),
        'files': {'patch': 'patch.diff', 'demonstration': demo, 'agent_notes': 'agent_notes.json'},
        'confirmed_by_me': {
            'how': 'tools/confirm_seed.sh in a fresh scratch worktree of /repo HEAD: apply patch, run the repository suite (cargo test --workspace), install the demonstration, run it (must fail), reverse the patch, run it again (must pass)',
            'suite_with_patch_exit': c.get('suite_with_patch_exit'), 'suite_tests_passed_incl_doctests': c.get('suite_tests_passed'),
            'demo_with_patch_exit': c.get('demo_with_patch_exit'), 'demo_without_patch_exit': c.get('demo_without_patch_exit'),
        },
        'checks_run': 'tools/eval_seed_all.sh: git -C /repo apply patch.diff; every quick check; git -C /repo checkout -- .',
        'caught_by': e.get('caught_by'), 'exit_codes': e.get('exit'),
        'first_encounter': {'result': FIRST.get(d, ('caught', ''))[0], 'what_was_strengthened': FIRST.get(d, ('caught', ''))[1]},
    }
    json.dump(meta, open(os.path.join(p, 'meta.json'), 'w'), indent=1)
    rows.append(meta)
with open(os.path.join(S, 'INDEX.md'), 'w') as f:
    f.write('| seed | property | change (agent summary, shortened) | caught by (quick tier) | first encounter |\n|---|---|---|---|---|\n')
    for m in rows:
        cb = ', '.join(sorted((m['caught_by'] or {}).keys())) or 'n/a (not evaluated yet)'
        s = (m['summary'] or '').replace('|', '/')
        s = s[:170] + ('…' if len(s) > 170 else '')
        f.write(f"| {m['seed']} | {m['property']} | {s} | {cb} | {m['first_encounter']['result']} |\n")
print(len(rows), 'seeds indexed')
