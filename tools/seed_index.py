#!/usr/bin/env python3
"""Builds seeded/<name>/meta.json and seeded/INDEX.md from the agents' notes, the confirmation
runs (tools/confirm_seed.sh) and the evaluation runs (tools/eval_seed_all.sh)."""
import json, os, glob
ROOT = os.path.dirname(os.path.dirname(os.path.abspath(__file__)))
S = os.path.join(ROOT, 'seeded')
# what the first run of the checks (before strengthening) did with the seed, recorded by hand
FIRST = {
 'C04a': ('missed', 'no NSEC value with an empty window bitmap in the packet space; added to the Windows domain (C02/C04/C11/C16)'),
 'C08a': ('missed', 'only freshly built packets were edited; added the parse-edit-serialise space'),
 'C11a': ('missed', 'all names were lower case; added the letter-case sharing family (C03/C07) and case variants to the layout packets'),
 'C13a': ('missed', 'no address record below an SRV target in the menu; added two SRV records (target with records below it, self-targeting)'),
 'C14a': ('missed', 'no multi-byte character near byte 63 of a rendered instance name; added the alignment label family (C12/C14)'),
 'C16a': ('missed', 'no pair of values differing only in letter case; added case-variant owners, equality judged modulo ASCII case'),
 'C17a': ('missed', 'boundary-length names were never written with trailing/leading/double dots; added dotted variants'),
 'C03b': ('missed by C03 (caught by C06)', 'no name near 255 bytes and no deep chain in the compression spaces; added the long-name family'),
 'C08b': ('missed by C08 (caught by C09)', 'no header followed by an OPT record in C08; added the parse-with-OPT space'),
 'C11b': ('missed', 'no input with two OPT records; added two-OPT packets at every position'),
 'C15b': ('missed', 'no IPv4-mapped IPv6 address in the address alphabet; added'),
 'C16b': ('missed', 'attribute-less TXT built from parts was excluded as not wire-representable; added constructible-but-never-parsed values'),
 # round 3: these were judged to be misses from the change summaries and the checks were strengthened before the first run
 'C01c': ('anticipated miss by C01 (C11 had the input class)', 'no message with two OPT records among the C01 seed messages; added at every position'),
 'C05c': ('anticipated miss', 'every message had the same header flags; framing is now swept under TC / query / other-opcode headers and every proper prefix must be rejected'),
 'C06c': ('anticipated miss', 'no length byte 0x40..=0xbf followed by that many bytes behind a pointer (needs >= 66 bytes); added in place, via label+pointer, via bare pointer and embedded in opaque RDATA'),
 'C10c': ('anticipated miss by C10 (C03/C07 had it)', 'C10 built only the uncompressed form; the compressed build is now decoded by the reference decoder as well'),
 'C11c': ('anticipated miss by C11 (C03/C07 had it)', 'no parsed input above 16 KiB; straddle, long-name and large packets added to the C11 inputs'),
 'C13c': ('anticipated miss', 'no two records differing only in class; added a class twin to the menu'),
 'C14c': ('anticipated miss', 'no query producing a reply above 9000 bytes and no watchdog around the handlers; added many-question datagrams, a 20 s handler watchdog and the global hang monitor'),
 'C15c': ('anticipated miss', 'announcements never carried foreign records in the additional section next to a genuine instance; added that event'),
 'C19c': ('anticipated miss', 'no two keys differing only in letter case; added'),
 # round 4: changes built to need something outside a small scope
 'C01d': ('missed', 'no EDNS option with code 12 and an all-zero payload; every option code 0..=65535 x 6 payloads x 3 placements added (R5), every TYPE code x classes x generic bodies (R6)'),
 'C02d': ('missed', 'no name with 64 or more labels; full size sweep added (every label count 1..=127, label length, name length, string and tail length, list size)'),
 'C04d': ('missed by C04 (caught by C19)', 'TXT was only built string by string; constructor family added (TXT::try_from(&str) at every length 0..=1400, from maps, from string lists)'),
 'C05d': ('missed by C05 (caught by C03, C06)', 'no owner name needing more than 128 decoding steps; many-step name messages added to C05 with acceptance required when the walker succeeds'),
 'C06d': ('missed', 'pointer chains stopped at a few hops; chains of every length 1..=2100 (8100 thorough) added, through the hook and inside messages, with every RDATA name compared'),
 'C07d': ('missed', 'no message with more than 256 distinct name suffixes; packets with 2..400 distinct names each used twice added'),
 'C08d': ('missed by C08 (caught by C04)', 'C08 serialised into vectors only; writers taking 1..13 bytes per call and fixed buffers of 0..11 bytes added'),
 'C11d': ('missed by C11 (caught by C04)', 'C11 re-serialised through the vector-returning calls only; every accepted input is now also re-emitted into a fixed datagram buffer and a recycled vector'),
 'C13d': ('missed', 'no owner label of 256 or more bytes; odd-world stores added (over-long, binary and dotted labels, the root, SRV at 1- and 2-label owners) and stores of 10..300 hosts'),
 'C14d': ('missed by C14 (C13 odd world caught it once added)', 'no query for _services._dns-sd._udp.local against a store with a two-label SRV owner; odd and 120-record store kinds and queries for every name of those worlds added'),
 'C15d': ('missed', 'escape/unescape ran over {a, ., \\} only; every Unicode scalar value added'),
 'C16d': ('missed', 'instance names were plain; all ordered pairs over ~300 InstanceInformation values (escapes, case, dots, spaces, non-ASCII, ports, addresses, attributes) added'),
 'C17d': ('missed', 'no name whose first label ends with a length byte plus the bytes of the parent label; wire-suffix family for every label length added'),
 'C18d': ('missed', 'parsed records used the canonical RDATA of each type in class IN/CH; every TYPE code x 7 CLASS fields x ~20 RDATA bodies now parsed and the reported type/class compared with the wire'),
 'C19d': ('missed', 'at most 3 attribute strings; lists of 5..300 strings with duplicate and bare keys added (in memory, over the wire, long_attributes)'),
 # round 5 (first encounter measured against the checks of commit 88baa5d, seeded/_results/first_encounter_round5.txt)
 'C01e': ('missed', 'no message combining a long label-free pointer chain with thousands of names pointing at its head; chain fan-in family added under the 2 s limit'),
 'C02e': ('missed', 'packets were only assembled by successful calls; call sequences with rejected add_string / set_param calls and repeated setters added'),
 'C04e': ('missed', 'no SVCB whose key was set twice; svcb-replace family (every setter x every pair of value sizes) and failed-mutator family added'),
 'C06e': ('missed', 'name layouts covered NS/MX/SOA/SRV/NSEC only; every valid compression layout of every name-bearing type (incl. IPSECKEY gateways) added, every field after an embedded name compared'),
 'C08e': ('missed', 'headers were parsed alone or with consistent content; every flag word x count tuples followed by entries cut after the question section / one byte short / after the first record added'),
 'C09e': ('missed', 'no parsed-then-edited packet with EDNS data; parse-edit-serialise over every ordered pair of named response codes added'),
 'C10e': ('missed', 'SVCB was built through set_param once per key; every sequence of typed setters incl. repeats added and compared with the RFC 9460 encoding'),
 'C11e': ('harness did not build (exit 2, no verdict)', 'bind.rs matched a public enum exhaustively; mappings now fall back to the number the library writes for unknown variants, and every 12-bit response code (extended byte x header nibble) is swept'),
 'C12e': ('missed', 'name alphabets had no labels with a conventional meaning; dictionary names (arpa, in-addr, ip6, local, _tcp, ... up to 3 labels) added to C01/C11/C12/C17'),
 'C13e': ('missed', 'queries never listed known answers; known-answer queries added in every BFS state'),
 'C14e': ('missed', 'no store whose records refer to each other in a cycle, and a stack overflow would have killed the checker; reference-cycle world run in child processes and an abort handler added'),
 'C15e': ('missed', 'events were plain announcements; cache-flush announcements and goodbyes before / after plain announcements added'),
 'C16e': ('missed', 'each equal value was built once; 48 independently built copies per shape incl. attribute keys that collide when case is folded added'),
 'C17e': ('missed', 'label lengths were swept with one character class; every length x (first, interior, last) class added'),
 'C18e': ('missed', 'Unknown(x) records were only matched against Unknown(x) questions; questions for other unnamed codes added'),
 'C19e': ('missed', 'string content came from {a ; = and two non-ASCII letters}; content sweeps over every byte and quote/backslash shapes added'),
 'C20e': ('missed by C20 (C16 had it)', 'C20 drove add_cached_resource directly; the real network path (parse + add_response_to_resources, sync and async) added'),
 # round 6 (first encounter measured against the checks of commit d7d6ae2, seeded/_results/first_encounter_round6.txt)
 'C01f': ('missed', 'many-record messages existed for A records only; per type, as many records as fit in 6 000 / 65 535 bytes under the heap meter added'),
 'C02f': ('missed', 'SvcParam values were sorted lists; unsorted mandatory / hint lists, dictionary strings and magic values added to the generators'),
 'C03f': ('missed', 'values were always in RFC order in memory; NSEC windows held out of order (under .local and elsewhere) added to C03'),
 'C04f': ('missed', 'IPv6 gateways were 1..16; IPv4-mapped and other magic IPv6 / IPv4 addresses added to gateway and address fields'),
 'C07f': ('missed', 'every record was class IN; every name-bearing type under every class (and with the cache-flush bit) added'),
 'C08f': ('missed', 'C08 built through build_bytes_vec only and never after a failed build; compressed vector build and failed-build provocation on the worker threads added'),
 'C10f': ('missed', 'character-strings were sized byte patterns; dictionary strings (CAA tags, ALPN ids, NAPTR flags, DNS-SD keys in several letter cases) added to every string field'),
 'C12f': ('missed', 'returned errors were dropped; Display / Debug of every error a failed conversion or a rejected parse returns added'),
 'C13f': ('missed', 'no owner name with 1024 records; bucket world (31..1100 network-learned records next to a registered one) and churn phases added'),
 'C14f': ('missed', 'the resolver stage asked for addresses only; address-and-port lookups against six reply shapes (SRV without address, IPv6 only, other target, silence) added'),
 'C15f': ('missed', 'the real ServiceDiscovery constructor was never run against a peer; end-to-end stage with real watcher / peer pairs and mixed-case service names added'),
 'C16f': ('missed', 'only clone() was exercised; clone_from into destinations holding EDNS data / records / nothing added'),
 'C18f': ('missed', 'a grown mnemonic was accepted when it round-tripped; its Debug name must now be the IANA mnemonic of its number (registry embedded)'),
 'C19f': ('missed', 'map keys were short synthetic words; keys with a conventional meaning in several letter cases added'),
 'C20f': ('missed', 'nothing ran the real ServiceDiscovery under the real clock; socket expiry stage (raw announcement with TTL 1 / cache-flush, then gone) added'),
 # round 7, realistic slips (first encounter measured against the checks of commit 8c510f7, seeded/_results/first_encounter_round7.txt)
 'C03g': ('missed by C03 (C04, C07 had it)', 'C03 compared the two vector-returning calls only; write_compressed_to into a cursor behind a 2- and a 300-byte prefix added'),
 'C05g': ('missed by C05 (C02 had it)', 'a rejected mis-sized record is allowed, so a zero-length record that derails the next entry went unnoticed; metamorphic oracle added: a message accepted when it ends in a record must be accepted when well-formed records follow'),
 'C10g': ('missed by C10 (C09 had it)', 'C10 left OPT to C09; the EDNS option lists (empty options in every position) now also run under C10'),
 'C12g': ('missed', 'hostile text had no = or quote characters; every string of length <= 4 over {a, =, quote, ;, backslash} and the dictionary strings added at every string position'),
 'C15g': ('missed', 'the peer always started while the watcher was still announcing; late-joiner cases (peer starts 1.4 s later and learns from the reply to its own query) added for all three mode pairs'),
 'C18g': ('missed', 'opaque records were only built under codes without a type; RData::NULL(code, ..) for every code 0..=65535 must report and match the type the code denotes'),
 'C20d': ('missed', 'at most a handful of records per name; stores of 1..500 records in one bucket with the authoritative record first / middle / last added'),
 # round 8, adversarial again (first encounter measured against the checks of commit b33433a, seeded/_results/first_encounter_round8.txt)
 'C01h': ('missed', 'a debug_assert that fails for header RCODE nibble 11..15 together with an OPT whose extended-RCODE byte is 0xff: the harness was built without debug assertions and never varied the two fields together; debug assertions switched on, every flags word x every OPT TTL byte added (R9)'),
 'C02h': ('missed', 'class and cache-flush bit dropped for TYPE codes 249/250 only; every 16-bit TYPE code x 5 classes x cache-flush bit added'),
 'C03h': ('missed', 'RDLENGTH back-patch through a signed 16-bit seek offset: only RDATA of 32768..65535 bytes shows it; a record with RDATA of exactly 255..65535 bytes (19 lengths) added to the shared size families'),
 'C06h': ('missed', 'cursor one byte short after exactly 254 in-place label bytes closed by a pointer to a bare root byte; every amount 0..=257 of in-place label bytes x {pointer to a root byte, pointer to a name, root} added'),
 'C08h': ('missed', 'compressed writer announced fewer additional records than it wrote when the packet has an OPT and a hand-placed OPT record; counts-with-EDNS family judged by an independent walker added'),
 'C09h': ('missed', 'more than 1024 options in one OPT record rejected; option lists with 50..5000 distinct codes added'),
 'C10h': ('missed', 'an NSEC value with 256 windows held out of order was written with no windows at all; in-memory window orders (permutations of <= 4, 36..256 windows reversed / rotated / swapped / interleaved) added to C10'),
 'C12h': ('missed', 'Display with the alternate flag ({:#}) returned Err on non-UTF-8 text; every Display / Debug implementation is now also driven with format specifications'),
 'C13h': ('missed', 'running responders read queries into a 4096-byte buffer; query datagrams of 600..9000 bytes with one answerable question first or last added to the responder stage'),
 'C14h': ('missed', 'recursive read lock inside a log::debug! argument deadlocks announce() against the receive loop: needs a logger at debug level and an application thread racing the receive loop; second pass under a TRACE-level logger and an application-thread phase (stall = wedge; free-running, not exhaustive) added'),
 'C15h': ('missed', 'a log::trace! argument drained the record iterator, so get_known_services was empty whenever trace logging was on; every simple-mdns property now runs a second pass under a TRACE-level logger that formats every record'),
 'C16h': ('missed', 'hash partitioned the sets by iteration order once they had more than 16 members; independently built equal values with 16..300 members per set added'),
 'C17h': ('missed', 'Name::new looked at the first 127 labels only; every label count 1..=300 of short labels (and a long / over-long label after them) added'),
 'C18h': ('missed', 'class 255 aliased onto NONE for UPDATE messages with TTL 0 and empty RDATA; every 16-bit CLASS field x every opcode x 5 record shapes added'),
 'C19h': ('missed', 'TXT::try_from(&str) refused texts whose RDATA would exceed 65535 bytes; split / join of long texts (around 2^12..2^16 and up to 2^20 bytes) added'),
 'C20h': ('missed', 'sync receive loop parsed the whole reused buffer, so a runt datagram re-ingested the previous announcement; after the real-clock expiry, datagrams that carry no fresh record (bare headers, truncated copies, the announcement as a query) must not bring the peer back'),
 # round 9, adversarial, told everything incl. the round-8 additions (first encounter: commit 12e3bcf, first build profile only; seeded/_results/first_encounter_round9.txt)
 'C01i': ('missed', 'CERT parser panics when the certificate-type field is 6 and the first certificate byte equals the certificate length: two fields of one RDATA; byte-pair family added (every pair of positions in RDLENGTH + RDATA x relational value set, on each type\'s base record and on its all-integers-zero twin)'),
 'C03i': ('missed', 'the seek back to the end of the record moved into a debug_assert_eq!: every compressed message is corrupt in builds without debug assertions only; every check now also runs under a second binary built with the defaults of --release'),
 'C04i': ('missed', 'MessageWriter::flush no longer forwarded: with a buffering writer the tail of a compressed message stays in the buffer after Ok; std BufWriter (4 capacities, growable and too-small sinks) added to the writer set'),
 'C05i': ('missed', 'sections parsed in one pass bounded by a saturating u16 total: records beyond 65535 in all dropped; messages whose sections together hold 65536..196605 records added'),
 'C06i': ('missed', 'offset of a name\'s first pointer kept in a u16: names with a pointer beyond offset 65535 resume at the wrong place; reference encodings beyond 64 KiB with compressed names behind large records added to C05 / C06 / C01 / C11'),
 'C07i': ('missed', 'pointer-target offset cast to u16 before the 14-bit test: names first written beyond 65535 become bogus pointers; names first written behind 64 / 128 / 192 KiB of records and then repeated added to the large-record family'),
 'C09i': ('missed', 'off-by-one guard refuses the OPT record as the 65535th additional entry; C09 now runs the EDNS ceiling cases'),
 'C10i': ('missed', 'SVCB::set_port / set_no_default_alpn insert inside a debug_assert!: no-ops in release builds; second build profile'),
 'C11i': ('missed', 'off-by-one guard refuses a full additional section (65535) on re-serialisation; messages with sections at the last value of their counters added to C11'),
 'C12i': ('missed', 'Debug of a name decodes xn-- labels with unchecked arithmetic: xn--99999999 panics; decodable-label family (encoding prefixes + runs of every length, short strings over digits / letters / hyphen) added'),
 'C13i': ('missed', 'sync ServiceDiscovery replays a stored reply for a byte-identical query even after remove_service_from_discovery(); a ServiceDiscovery stage (answers while registered, repeats, silence after removal) added for the sync and tokio services'),
 'C14i': ('missed', 'send_packet retries forever: a query whose reply exceeds the UDP datagram limit wedges the sync receive loop; queries of 1400+ questions added to the datagram classes sent to the running services'),
 'C15i': ('missed', 'tokio discovery drops a response when its bounded notification channel is full; end-to-end cases with a discovery channel read late (capacity 1 unread while two peers join; unbounded; receiver dropped) added'),
 'C16i': ('missed', 'SVCB::into_owned copies parameters inside a debug_assert!: lost in release builds; second build profile'),
 'C17i': ('missed', 'Name::new rejects texts that parse as an IPv4 address; every string of length <= 9 over {0,1,9,.} and 60 address / number / keyword literals added'),
 'C18i': ('missed', 'match_qclass returns false for records whose RDATA is the typed OPT variant; typed OPT records (built and parsed) added to the match matrix'),
 'C19i': ('not reported', 'long_attributes treats two keys with the same 64-bit SipHash fingerprint as duplicates; the agent found a colliding pair with 10^9 hash evaluations. No bounded enumeration of inputs reaches such a pair: this change is outside what the technique can see (section 4 of DESIGN.md)'),
 'C20i': ('missed', 'tokio discovery drops a goodbye received while its notification channel is full; a socket case with a capacity-1 channel read late (announce, announce, goodbye, then catch up) added'),
 # round 10, adversarial, told everything incl. the round-9 additions (first encounter: commit 7efd932, both build profiles; seeded/_results/first_encounter_round10.txt)
 'C01j': ('missed', 'CAA parser slices a lossily decoded iodef value at a fixed byte index: panics when a multi-byte character straddles offset 7 / 8; tag x value family added (every dictionary word as CAA tag and TXT key, values with a multi-byte character or invalid byte at every offset 0..=24)'),
 'C02j': ('missed', 'a new validity check of the EDNS client-subnet option rejects prefixes that are not a multiple of 8; structured option payloads (family / prefix / address shapes for codes 0..=20) added to C02, C09, C01'),
 'C03j': ('missed', 'Name caches its wire length and Name::without computes it one byte short: RDLENGTH of records holding such a name is wrong in the plain writer; names obtained through 7 API paths (new, new_unchecked, try_from, parsed, without on built and parsed names, owned copies) x 6 name-bearing types added to C03 and C04'),
 'C04j': ('missed', 'same cached-length slip as C03j, judged as framing; same family'),
 'C05j': ('missed', 'cursor bookkeeping by position equality: a pointer whose target labels run across the pointer itself advances the shared cursor twice; near-pointer family (pointer to 1..=24 bytes before itself, with bytes behind the message) added'),
 'C06j': ('missed', 'Label::new_unchecked decodes presentation-format \\DDD escapes and the wire parser builds labels through it; labels whose content is a dictionary word or any string of length <= 4 over backslash / digits / dot / a added at hook level'),
 'C07j': ('missed', 'records covered by an RRSIG in the same message are written with uncompressed RDATA names; RRSIG next to the record set it covers (type_covered = the other type, same owner) added to the type-pair family'),
 'C08j': ('missed', 'Packet::into_reply rebuilt through new_reply loses the OPCODE; into_reply on every flags word added (id, OPCODE, QR in accessors and written bits)'),
 'C09j': ('missed', 'OPT options written with one write_vectored call, short counts misread: bytes duplicated on sinks with a native partial gathered write; Gather and Drip sinks added to C09 and C10'),
 'C10j': ('missed', 'IPSECKEY IPv6 gateway written with write instead of write_all: truncated on sinks that take fewer than 16 bytes per call; Drip / Gather sinks in C10'),
 'C12j': ('missed', 'Debug of an EDNS client-subnet option copies the address into a fixed-size buffer: panics for over-long addresses; structured option payloads reach C12 through the shared input families'),
 'C13j': ('missed (quick tier cannot see it)', 'a housekeeping pass in the refresh loops, at most once a minute, deletes the service\'s own records; needs > 60 s of real time: a 75 s background scenario was added to the THOROUGH tier of C13 (reported there); the quick tier, which finishes in under a minute, does not see it'),
 'C14j': ('missed', 'tokio refresh retry schedule underflows 10.5 s after a response from a peer that stays silent: the discovery task dies; 13 s background scenario (silent peer, then announce() and a new response) added to C14'),
 'C15j': ('missed', 'sync receive loop drops responses that carry a question section; hand-made responses in 5 shapes (echoed question, two questions, address in additional, non-zero id) sent to running sync and tokio watchers'),
 'C16j': ('missed', 'TYPE equality by numeric code with derived Hash: TYPE::Unknown(1) == TYPE::A but hashes differ; every code as named and as catch-all variant (bare, RData::Empty, record) added'),
 'C17j': ('missed', 'Name::new accepts a space in the first label of DNS-SD shaped names; dictionary names as text behind instance-like first labels added'),
 'C18j': ('missed', 'questions of responses parsed through a lenient conversion: unsupported QTYPEs accepted, ANY becomes Unknown(255); every QTYPE code x query / response x opcodes added'),
 'C19j': ('missed', 'attributes() appends strings without = to a preceding 255-byte key=value string; 250..=255-byte strings next to short strings in every order, and as map entries next to value-less keys'),
 'C20j': ('missed', 'a purge in the 5-second refresh poll re-inserts live cached records with a fresh lease; 10.4 s background scenario (TTL 2 and TTL 8 peers) added to C20'),
 # round 11 (six seeds, 12-minute agents, told everything incl. the round-10 additions; first encounter: commit 434fc99, both build profiles; seeded/_results/first_encounter_round11.txt)
 'C10k': ('missed', 'KX gained a compressing writer: the exchanger becomes a pointer when its name was written earlier; C10 decoded the compressed build (a pointer decodes to the same name) but never laid the RDATA next to the RFC bytes with shared names on the wire; verbatim RDLENGTH+RDATA oracle behind questions carrying the same names added for every no-compression type'),
 'C18k': ('missed', 'match_qtype lets an RRSIG match the type it covers; record content in the match matrix was one fixed tuple (type covered 258); every 16-bit RDATA field and NSEC bitmap bit now takes every assigned type code and question-only code'),
}
def load_jsonl(pattern):
    out = {}
    for f in sorted(glob.glob(os.path.join(S, '_results', pattern))):
        for l in open(f):
            l = l.strip()
            if l.startswith('{'):
                d = json.loads(l); out[d['seed']] = d
    return out
conf = load_jsonl('confirm_*.jsonl'); ev = load_jsonl('eval_*.jsonl')
rows = []
for d in sorted(os.listdir(S)):
    p = os.path.join(S, d)
    if not os.path.isdir(p) or d.startswith('_'): continue
    notes = json.load(open(os.path.join(p, 'agent_notes.json')))
    c = conf.get(d, {}); e = ev.get(d, {})
    demo = [f for f in os.listdir(p) if f.endswith('.rs')]
    meta = {
        'seed': d, 'property': notes.get('property', d[:3]),
        'summary': notes.get('summary'), 'needs_to_manifest': notes.get('needs'),
        'files': {'patch': 'patch.diff', 'demonstration': demo, 'agent_notes': 'agent_notes.json'},
        'confirmed_by_me': {
            'how': 'tools/confirm_seed.sh in a fresh scratch worktree of /repo HEAD: apply patch, run the repository suite (cargo test --workspace), install the demonstration, run it (must fail), reverse the patch, run it again (must pass)',
            'suite_with_patch_exit': c.get('suite_with_patch_exit'), 'suite_tests_passed_incl_doctests': c.get('suite_tests_passed'),
            'demo_with_patch_exit': c.get('demo_with_patch_exit'), 'demo_without_patch_exit': c.get('demo_without_patch_exit'),
        },
        'checks_run': ('tools/run_seed.sh: git -C /repo apply patch.diff; the quick check of the seed\'s own property; git -C /repo checkout -- . (round 8 was not run against the other 19 checks)' if e.get('scope') == 'own' else 'tools/eval_seed_all.sh: git -C /repo apply patch.diff; every quick check; git -C /repo checkout -- .'),
        'caught_by': e.get('caught_by'), 'exit_codes': e.get('exit'),
        'first_encounter': {'result': FIRST.get(d, ('caught', ''))[0], 'what_was_strengthened': FIRST.get(d, ('caught', ''))[1]},
    }
    json.dump(meta, open(os.path.join(p, 'meta.json'), 'w'), indent=1)
    rows.append(meta)
with open(os.path.join(S, 'INDEX.md'), 'w') as f:
    f.write('| seed | property | change (agent summary, shortened) | caught by (quick tier) | first encounter |\n|---|---|---|---|---|\n')
    for m in rows:
        cb = ', '.join(sorted((m['caught_by'] or {}).keys())) or ('none' if m.get('exit_codes') else 'n/a (not evaluated yet)')
        s = (m['summary'] or '').replace('|', '/')
        s = s[:170] + ('…' if len(s) > 170 else '')
        f.write(f"| {m['seed']} | {m['property']} | {s} | {cb} | {m['first_encounter']['result']} |\n")
print(len(rows), 'seeds indexed')
