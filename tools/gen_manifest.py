#!/usr/bin/env python3
"""Regenerates /verif/MANIFEST.json from the table below (single source of truth for the interface)."""
import json, os, subprocess
ROOT = os.path.dirname(os.path.dirname(os.path.abspath(__file__)))

# id -> (technique, level text, level note, design ref)
CHECKS = {
 "C08": ("exhaustive enumeration of all 65536 header words, all flag-set pairs and all named opcode/rcode/flag combinations through the real parse, peek, set/remove and build functions, compared with an RFC 1035 bit model",
         "Every one of the 65536 flag words, 128x128 flag-set pairs and named opcode x rcode x flag-subset combinations is executed against the real code and compared with a bit model transcribed from RFC 1035 4.1.1; the space is finite and fully enumerated, so within the header the property is decided, not sampled.",
         "Trusts the transcription of the RFC bit positions in mc/src/refmodel/packet.rs and the flag table in mc/src/bind.rs; counts are exercised at {0,1,0xffff} on the peek side and {0,1,2} on the build side.",
         "DESIGN.md section 3, C08"),
 "C17": ("exhaustive enumeration of all strings up to length 6 (7 thorough) over an 8-symbol alphabet, all label/name boundary lengths and all name pairs up to 4 labels through the real Name/Label API, compared with a reference grammar",
         "Every string of the bounded alphabet, every label length 0..=70, every encoded length 245..=262 and every ordered pair of names with <=4 labels over {a,b} is run through Name::new, Label::new, to_string, is_subdomain_of, without and is_link_local and compared with a reference grammar / suffix relation written from the statement; the declared spaces are enumerated completely.",
         "Small-scope argument: the validator looks only at first/inner/last character class, label length and total length, all of which vary inside the bound. Letters are taken to be ASCII letters.",
         "DESIGN.md section 3, C17"),
 "C18": ("exhaustive enumeration of all 65536 codes through the four conversions and of the full record-type x question-type x class matrix on built and parsed records",
         "All 65536 codes are converted to TYPE/CLASS/QTYPE/QCLASS and back and compared with an independent IANA table; every supported type code plus NULL and unknown codes, as typed and as empty RDATA, built through constructors and parsed from reference encodings, is matched against every question type (each mnemonic, ANY, MAILB) and class; complete enumeration, so the tables are decided.",
         "Trusts the IANA table transcribed in mc/src/props/c18.rs. AXFR/IXFR/MAILA matching is outside the property's quantifier and not judged.",
         "DESIGN.md section 3, C18"),
 "C19": ("exhaustive enumeration of boundary-length Unicode strings, small attribute maps, raw string lists and all strings up to length 6 over {a,;,=,U+013B,U+023D}, executed on the real TXT/CharacterString API in memory and across build+parse, compared with reference splitters",
         "Strings whose multi-byte characters straddle every chunk boundary (n around 254/255, 508/510), every attribute map of <=3 entries over 3 keys x 7 value shapes plus 253..300-byte entries, every raw string list up to 2 (3) strings over 8 atoms (duplicates, empty keys), every string up to length 6 (7) over the separator alphabet, and every byte length 0..=300 through all seven constructors are executed against the real code, both in memory and after crossing the wire, and compared with reference split/join/attribute models.",
         "Strings with an empty key are taken to be ignored per RFC 6763 6.4; only the wholly empty string is required to yield no attribute. Keys are non-empty.",
         "DESIGN.md section 3, C19"),
 "C01": ("bounded-exhaustive enumeration of byte strings (prefix trees over reduced alphabets in four message regions, every cut and byte perturbation of valid reference messages of all 40 types, pointer graphs, all short buffers) through the real Packet::parse and header peeks under catch_unwind, an allocation meter and a watchdog",
         "Every string up to length L over alphabets that contain each byte class the parsers branch on is placed in the question region, the record region, the RDATA of each of 42 type codes (with every RDLENGTH 0..=len+1) and after each field boundary of each type's canonical encoding; every truncation and every byte perturbation of ~1000 valid reference messages, all pointer graphs of k cells and every buffer of length <=9 (12) over {00,80,ff} for the eight peeks are parsed by the real code. Oracle: no panic (overflow checks on), returns before a 10 s watchdog, peak live heap <= 64 KiB + 512 B per input byte; full-size (65535-byte) worst-shape families add a 2 s time limit. All declared spaces are enumerated completely.",
         "Inputs longer than the bounds are reached only through the structured families; the time claim is decided as 'terminates and is fast on the known worst shapes', not as a proven complexity bound. The allocation meter counts this thread's allocator traffic.",
         "DESIGN.md section 3, C01"),
 "C06": ("exhaustive enumeration of all buffers up to length 7 (8 thorough) over a 13-symbol alphabet decoded at every start offset by the real name decoder, plus pointer graphs, 63/255-byte boundary families and message-embedded sweeps, compared with an RFC 1035 4.1.4 reference decoder",
         "Every (buffer, start offset) pair of the prefix tree (5.5e8 quick, 8e9 thorough), every graph of k cells (label, terminator, reserved type, overlapping label, pointer to any cell) from every start cell, and every label-length combination giving an expanded length 248..=260 directly or through a pointer is decoded by Name::parse (via the cfg hook) and by Packet::parse (as question, owner and RDATA name) and compared with an independent decoder: same labels, same resume cursor, label/name limits, rejection of cycles, outside pointers, reserved label types and over-long names, and acceptance of every name that decodes with backward pointers only.",
         "Small-scope argument: the decoder's branches depend on label type bits, length vs remaining bytes, pointer target vs position, and the running expanded size; the alphabet has a member of each class and the bound lets two pointers and three labels interact. Forward pointers may be rejected.",
         "DESIGN.md section 3, C06"),
 "C02": ("exhaustive enumeration of a deviation-bounded product of reference packets (all 39 typed variants + unknown/NULL/empty RDATA x classes x cache-flush x TTL boundaries x name shapes x header/OPT/section shapes), each built through public constructors, serialised, parsed by the real code and compared field by field with the reference description",
         "Every packet of the declared space (4.6e4 quick, 4.9e5 thorough) goes through to_lib -> build_bytes_vec -> Packet::parse -> observe and must equal the reference packet in id, flags, opcode, rcode, EDNS data, and every question/record field; values are byte-asymmetric and at integer/length boundaries so that width, sign, byte-order, swapped-field and bit-mixing slips show. The space is enumerated completely.",
         "Observation uses cfg-guarded read-only byte views (Label, CharacterString, TXT). Domain restricted to wire-representable values (stated in the evidence).",
         "DESIGN.md section 3, C02"),
 "C09": ("exhaustive enumeration of EDNS parameter products (named rcodes x all 256 versions, all 65536 UDP sizes, option lists up to 3 options, OPT at every additional-section index) through the real build and parse code, build output inspected by an independent RFC 6891 walker and parse input produced by an independent RFC encoder",
         "Build side: for every enumerated (rcode, version, size, options, other records) the real serialiser's bytes are walked independently: exactly one TYPE 41 record in the additional section counted once in ARCOUNT, root owner, CLASS = size, TTL bytes = ext-rcode, version, 0, 0, RDATA = option triples, header rcode = low 4 bits. Parse side: RFC-layout messages from the reference encoder (so a self-consistent but non-RFC layout cannot pass) with the OPT at every index; the parsed packet must expose size, version, options and the recombined 12-bit rcode with the OPT removed from the additional records.",
         "The 16 flag bits of the OPT TTL are not exposed by the library; they are written as zero and not compared. Unnamed 12-bit rcodes are expected to surface as Reserved.",
         "DESIGN.md section 3, C09"),
 "C10": ("exhaustive enumeration of deviation-bounded value tuples over an independent declarative RDATA schema for each of the 39 typed variants, each parsed from an independent reference encoding and built by the real code, RDATA compared byte for byte, plus complete rejection families",
         "For every type, every tuple with <=2 fields away from byte-asymmetric defaults (full product for short schemas) is encoded by the reference encoder and parsed by the real parser (alone and followed by another record): the observed fields must equal the tuple; the same tuple built through constructors must produce exactly the reference RDATA under the IANA type code. All LOC versions 1..=255, all SVCB/HTTPS key sequences over {0,1,2}^<=3, all NSEC window sequences over {0,1,2,255}^<=3 and every inner length set one past the RDATA end must be rejected. The reference schemas are validated at start-up against 30 dnspython-generated sample records.",
         "Trusts the schema transcription in mc/src/refmodel/schema.rs (cross-checked against the sample records). OPT is covered by C09. Forms the library's data model cannot express are outside the checked domain.",
         "DESIGN.md section 3, C10"),
 "C03": ("exhaustive enumeration of the name-sharing space (21 record kinds x every assignment of 15 small names to 4/5 name slots), a 16 KiB straddle family and 64 KiB messages, each serialised plain and compressed by the real code, both parsed and compared",
         "Every packet of the sharing space (1.06e6 quick, 1.6e7 thorough) plus the first occurrence of a shared name at every offset 16360..=16400 and messages up to 65 KiB is built, written with and without compression, parsed back and observed; the two observations must be equal field by field and the compressed form must not be longer. Names over {a,b} up to three labels realise every sharing relation between names (equal, suffix, differing first/last label, disjoint) across question, owner and RDATA positions of compressible and non-compressible types.",
         "Uses the library's own parser as the decoder for this property (C07 audits the same outputs with an independent decoder).",
         "DESIGN.md section 3, C03"),
 "C05": ("exhaustive enumeration of RDLENGTH mis-sizings (0..=natural+16/40 for each of 42 type codes, four surplus fillers, sentinel records, three placements, count perturbations) and of free RDATA strings with every RDLENGTH, parsed by the real code and compared entry by entry with an independent RFC 1035 envelope walker",
         "For each type code the RDLENGTH of one record sweeps from 0 past its natural size with the surplus holding zeros, complete phantom records or pointers, followed by sentinel records; plus every RDATA string up to length 5 (6) over 9 symbols with every RDLENGTH. Whenever the real parser accepts, its questions and records must correspond one-to-one, in order, to the entries the walker delimits (owner, type, class, cache-flush, TTL), typed RDATA must be decodable from exactly the RDLENGTH bytes, and whenever the walker runs off the end the parser must reject. Well-framed messages must be accepted.",
         "The walker (mc/src/refmodel/wire.rs) is the trusted reference for framing; a library Err on a mis-sized RDLENGTH is accepted as the property allows.",
         "DESIGN.md section 3, C05"),
 "C07": ("exhaustive enumeration of the C03 packet spaces x writer start offsets {vec,0,1,2,12,300}; every compressed output audited by an independent schema-aware walker that locates every name occurrence and every pointer",
         "For every packet and start offset the compressed bytes are decoded by the reference decoder (must equal the intended packet, so every pointer expands to the intended name and is message-relative), and every in-place pointer is checked to point strictly backwards at the start of a label written in place earlier; no pointer may appear inside SRV/NAPTR/KX/RRSIG/NSEC/IPSECKEY/SVCB/HTTPS RDATA; a whole name repeated in a compressible position whose earlier occurrence starts at <= 16383 must be a bare pointer. The straddle family puts first occurrences on both sides of 16384.",
         "Suffix sharing between different names is allowed but not demanded; RP/AFSDB/RT/NSAP-PTR names may or may not be compressed (the property is silent).",
         "DESIGN.md section 3, C07"),
 "C04": ("exhaustive enumeration of packets x {plain, compressed} x writer configurations (Vec, growable cursor over 11 prefill/start combinations, fixed cursor and fixed slice at every capacity 0..=len+2, chunking writers, a failing writer at every byte) executed on the real write paths; framing judged by an independent strict decoder",
         "For every packet and mode the vector-returning function's bytes are decoded strictly by the reference decoder (12-byte header, counts equal the entries walked with the OPT counted once, every RDLENGTH equal to what the type's schema consumes, nothing after the last entry, content equal to the packet). Every writer configuration must then produce exactly those bytes between its start offset and final position, leave every other byte untouched, return Err (never panic, never Ok) when capacity is short or the writer fails at any byte 0..len, and Ok when there is room; short writes (1/2/7 bytes per call) must be retried. The environment dimension (capacity, fault position) is enumerated completely for each packet.",
         "Packets: the <=1-deviation families plus a fixed stride through the 4-slot name-sharing space (stated in the evidence); the stride, not the writer dimension, is what is not complete.",
         "DESIGN.md section 3, C04"),
 "C11": ("exhaustive enumeration of parser-accepted inputs from four generators (every valid compression layout of 5000 reference packets, all 65536 flag words x OPT variants, reference encodings of the C02 space with OPT at every index, and the accepted members of C01's malformed-input sweeps), each parsed, re-serialised plain and compressed by the real code, re-parsed and compared",
         "For every accepted input both serialisations of the parsed packet must succeed and parse back to a packet equal in every observable field. The compression-layout generator is itself an exhaustive explorer over choice sequences (each name occurrence: k labels in place, then terminator or a pointer to any earlier position where the remaining labels begin, pointer-to-pointer included), so foreign layouts are covered completely for the bounded packets; the malformed-input sweeps supply odd-but-accepted messages (surplus RDATA, unknown types, empty RDATA).",
         "One known finding is listed (RCODE 11..15 without OPT re-emitted as 1): see known_findings.json. Information the library does not expose (OPT flag bits, the numeric value of reserved opcodes) is not compared.",
         "DESIGN.md section 3, C11"),
 "C12": ("exhaustive enumeration of hostile byte strings (length <= 3 (4) over {00,2e,5c,61,80,c3,ff} plus maximal lengths) at every name, character-string, TXT and opaque position of every type, and of the accepted members of C01's sweeps; every public observer executed on the parsed packet under catch_unwind",
         "Each byte string is placed in turn at the question name, owner name and every RDATA name / string / opaque field of all 39 typed variants; the real parser's output is then formatted with Debug and Display at every level, cloned, converted to owned, hashed, compared, queried for TXT attributes and string conversions, matched against question types/classes and passed to the name relations. Any panic is a violation; fallible conversions may return Err or a lossy rendering.",
         "Only panics are judged, not the rendering chosen.",
         "DESIGN.md section 3, C12"),
 "C13": ("explicit-state breadth-first search over add-authoritative / add-cached / remove / clear histories on the real record store (depth 4, 5 thorough; 37 operations; states deduplicated by a canonical fingerprint), every transition executed on the real store and read back, every state queried with the full question menu through the real build_reply and judged by a reply model",
         "All 1.1e4 (1.1e5 thorough) reachable store states over a 12-record menu whose owners collide under concatenation and byte-prefixing are built on the real ResourceRecordManager; every one of the 37 operations out of every state is executed and the real store read back through get_domain_resources and compared with the plain-map reference store (so a merged state cannot hide a divergence); in every state 864 queries (every single question over 8 owners x 6 types x 3 classes x unicast, every ordered pair from a 24-question menu) run through build_reply and are checked for soundness, completeness at the question's own name, justified additional records, id, response flag, unicast aggregation and 'no reply iff nothing matches'. An insertion-order differential (all ordered pairs/triples of records without deduplication) validates the state abstraction.",
         "build_reply and the store are reached through the cfg-guarded simple_mdns::verif module. Answers are compared as sets; optional subdomain answers are allowed.",
         "DESIGN.md section 3, C13"),
 "C15": ("exhaustive enumeration of 3072 instance descriptions and of all announcement histories up to depth 3 (4) over a 7-event menu, each driven through the real into_records -> announce-shaped compressed packet -> parse -> add_response_to_resources -> report path, plus all strings up to length 8 (10) over {a,'.','\\'} through escape/unescape",
         "Every description (3 names x all subsets of 3 addresses x all subsets of 3 ports x 16 attribute maps with absent/empty/non-empty values, '=' inside a value and a 255-byte entry) is announced through the real code path with and without a discovery channel and must come back, through the channel and through the get_known_services computation, with exactly the same name, address set, port set and attribute map; every history over {two peers, a third empty peer, the discoverer's own instance, records owned by the service name, a foreign service, a look-alike service name} must report exactly the announced peers. escape then unescape must be the identity on every enumerated string.",
         "The announce-shaped packet and the receiving store mirror ServiceDiscovery::announce / ::new (sockets are not involved in this check; C14 drives real sockets). Re-announcements carry identical data.",
         "DESIGN.md section 3, C15"),
 "C16": ("exhaustive enumeration of the C02 packet space (as built and as parsed from the wire) through clone / into_owned of every part, of all ordered pairs of a 60-record set for equality-implies-equal-hash, and of every insertion order of up to 4 addresses and 4 ports for InstanceInformation",
         "For every packet, both built from parts and parsed from its own compressed bytes, the clone and the owned form of the packet, OPT data, every question, record, name, label and RDATA must observe equal field by field, compare equal, hash equally, serialise to identical bytes, and owned records must outlive the receive buffer. For all 3600 ordered pairs of records differing only in TTL/cache-flush, class, owner or RDATA, == must agree with field equality and equal values must hash equally (fixed hasher). InstanceInformation values built by inserting the same members in every permutation must be equal, hash equally and collapse to one HashSet element.",
         "std's per-HashSet random seeds are not controllable: absence of false alarms is certain, detection of an order-dependent Hash is overwhelmingly likely (hundreds of equal pairs) rather than certain.",
         "DESIGN.md section 3, C16"),
 "C20": ("explicit-state search to the fixpoint over add-authoritative / add-cached(TTL 0,1,2,1000 / cache-flush) / remove / clear / tick on the real record store under a virtual clock (cfg hook verif_advance), every transition out of every state executed and observed after 0..=3 further ticks with every (name, filter) query, validated by real-sleep replays; thorough adds every history of 5 operations without deduplication",
         "All 259 reachable abstract states over three records are reached on the real ResourceRecordManager; each of the 23 operations is executed out of every state and the result observed immediately and after 1, 2 and 3 more seconds (so hidden remaining lifetimes are compared, not assumed) with the authoritative, authoritative+subdomain, cached and combined filters at three names: a cached record is returned exactly while its TTL (1 s with cache-flush) since last reception has not elapsed, re-reception restarts it, authoritative records never expire, are never returned by cache-only queries and are not demoted by a network copy. The thorough tier runs all 6.4e6 histories of length 5 without deduplication. Traces with TTL 1/2, cache-flush and refresh are replayed with real 1.04 s sleeps and no hook and must give the same observations.",
         "The virtual clock shifts stored deadlines; its agreement with the real clock is checked by the real-sleep traces. Paths slower than 250 ms are re-run and a violation is reported only if it reproduces.",
         "DESIGN.md section 3, C20"),
 "C14": ("exhaustive enumeration of a datagram alphabet (all buffers up to length 7 (10) over {00,80,ff}, every cut and byte perturbation of benign and hostile seed datagrams, hostile-label queries and responses, 9000-byte datagrams) x 3 store states x {fresh, after benign traffic} through handling pipelines composed from the real functions under the real RwLock, each followed by benign traffic; plus a socket-level replay of representatives against running services",
         "Every datagram of the alphabet is handled by the responder, sync discovery (with and without a discovery channel), async ingest and one-shot resolver pipelines — the real header peek, parse, build_reply / add_response_to_resources and serialisation in the order each receive loop calls them, with the store behind the real RwLock — against an empty store, a store as ServiceDiscovery::new builds it and one with a cached peer, fresh and after benign traffic. After each: no panic escaped, the lock is not poisoned, get_known_services is computable, a benign query is answered exactly as by an untouched store, a benign announcement is still discovered, and every reply parses. Then representatives of every datagram class are sent over loopback multicast to a running SimpleMdnsResponder and sync ServiceDiscovery, each followed by probe queries that must be answered and by get_known_services() on the application thread.",
         "The pure pipelines mirror the loop bodies; the loops themselves are covered by the socket stage on representatives only. If loopback multicast is unavailable the socket stage is skipped and recorded as such in the evidence (the verdict then rests on the pipelines).",
         "DESIGN.md section 3, C14"),
}
NOT_YET = {}

# spaces added after the seeded-change rounds (appended to the level text)
ADDED = {
 "C01": "Added: an OPT record with every option code 0..=65535 x 6 payloads x 3 placements, a record of every TYPE code 0..=65535 x 6 classes x 20 generic RDATA bodies, many-step names (0..=130 inline labels, pointer chains of every length up to 700 and 2000/4000/8000 hops) and the reference encodings of the full size sweep; one free byte over all 256 values in every type's RDATA and every byte value at every position of the short seed messages.",
 "C02": "Added: the full size sweep (every character-string length 0..=255, tail length 0..=600 plus a ladder to 5000, label count 1..=127, label length 1..=63, total name length 3..=255, list sizes 1..=70 and beyond, 2..400 distinct names each used twice) for every variable-size field of every schema, and many-entry / size-ladder packets.",
 "C03": "Added: the full size sweep and packets with 2..400 distinct repeated names, long-name and deep-chain families, letter-case variants.",
 "C04": "Added: the full size sweep through the non-quadratic writer set, and records obtained through the other constructors (TXT::try_from(&str) for every length 0..=1400 / 0..=700 UTF-8 characters, TXT from attribute maps of 0..=60 entries, TXT of 0..=80 strings) framed before a following record.",
 "C05": "Added: owner / question / RDATA names that need many decoding steps (0..=130 inline labels with and without a closing pointer, every label length before a pointer, pointer chains of every length up to 700 (2100) and 2000/4000/8000), and the plain and compressed reference encodings of the full size sweep; acceptance is required exactly when the walker succeeds.",
 "C06": "Added: pointer chains of every length 1..=2100 (8100 thorough), chains ending at 126/127-label names, hops that each add a label, 0..=130 inline labels, every pair of label lengths before a pointer, decoded through the hook and inside messages (owner, question, every RDATA name of every accepted record).",
 "C07": "Added: the full size sweep incl. packets with 2..400 distinct names each repeated (more distinct suffixes than any table cap).",
 "C08": "Added: the header through writers that accept 1..13 bytes per call and into fixed buffers of every capacity 0..11.",
 "C09": "Added: many and mid-size options (0..=600-byte values, small-then-large orders).",
 "C10": "Added: every value of every 8/16-bit field, walking bits of wider fields, and the full size sweep of every variable-size field (every string length 0..=255, tail length 0..=600, label count, label length, name length, list sizes).",
 "C11": "Added: every accepted input is also re-emitted into a fixed datagram buffer and a recycled vector (bytes and final position must equal the vector-returning call); C01's R5/R6/R7 spaces; the full size sweep; two-OPT messages.",
 "C12": "Added: multi-byte characters at every byte offset of rendered labels and strings, C01's R5/R6/R7 spaces.",
 "C13": "Added: transition read-back, long repetitive histories, and 'odd and large' stores outside the BFS menu (owners with labels of 256..300 bytes, binary labels, a dot inside a label, the root, SRV at one- and two-label owners, the DNS-SD meta-query name; 10..300 hosts x (A, SRV, PTR)) x every question over their names.",
 "C14": "Added: store kinds with odd-shaped and with 120 authoritative records, queries and responses for every name of those worlds (incl. _services._dns-sd._udp.local), a per-datagram watchdog.",
 "C15": "Added: every Unicode scalar value through escape/unescape, larger instances, foreign additional records, an IPv4-mapped address.",
 "C16": "Added: all ordered pairs over ~300 InstanceInformation values differing in name spelling (case, dots, backslash escapes, spaces, non-ASCII), ports, addresses and attributes; the full size sweep; constructible-but-never-parsed values.",
 "C17": "Added: wire-suffix look-alikes for every label length 1..=61 (a name whose first label ends with the length byte and bytes of the parent's first label), letter-case pairs, try_from conversions.",
 "C18": "Added: records parsed from the wire for every TYPE code 0..=65535 x 7 CLASS fields x ~20 RDATA bodies: an accepted record reports the wire TYPE and CLASS and matches exactly its own type.",
 "C19": "Added: every byte length 0..=800, 5..300 attribute strings with duplicate and bare keys (in memory, over the wire, and through long_attributes), letter-case keys.",
 "C20": "Added: every transition observed after 0..=3 further ticks, long TTLs, long repetitive histories, and stores of 1..500 records under one name bucket with the authoritative record first / in the middle / last.",
}

def main():
    props = [json.loads(l) for l in open(os.path.join(ROOT, "properties.jsonl"))]
    hooks_commits = subprocess.run(["git", "-C", "/repo", "log", "--format=%H %s"], capture_output=True, text=True).stdout.splitlines()
    hook_shas = [l.split()[0] for l in hooks_commits if "verif hooks" in l]
    checks = []
    na = []
    for p in props:
        pid = p["id"]
        if pid in CHECKS:
            tech, text, note, ref = CHECKS[pid]
            if pid in ADDED:
                text = text + " " + ADDED[pid]
            checks.append({
                "property_id": pid,
                "quick_cmd": f"./check {pid} quick",
                "thorough_cmd": f"./check {pid} thorough",
                "evidence_file": f"/verif/evidence/{pid}.json",
                "replay_cmd_template": "./check --replay {path}",
                "engine": "mc",
                "level_claimed": {"category": "model_checking", "text": text, "design_ref": ref},
                "level_note": note,
                "technique": tech,
            })
        else:
            na.append({"property_id": pid, "reason": NOT_YET.get(pid, "not claimed yet: its bounded-exhaustive check is designed (DESIGN.md section 3) but not built at this commit")})
    m = {
        "version": 1,
        "setup_cmd": "./setup.sh",
        "hooks": {
            "guard": "simple_dns_verif",
            "enable": "RUSTFLAGS='--cfg simple_dns_verif' (set by ./check; the harness crate mc links /repo/simple-dns and /repo/simple-mdns by path, so every check rebuilds from /repo's working tree)",
            "baseline_off_cmd": "cd /repo && cargo test --workspace --no-fail-fast --offline",
            "source_commits": hook_shas,
            "add_only": True,
        },
        "engines": [{
            "name": "mc",
            "path": "/verif/mc",
            "serves_properties": sorted(CHECKS.keys()),
            "kind_free_text": "hand-rolled bounded-exhaustive explorer in Rust: product mode (complete enumeration of declared finite input spaces) and graph mode (explicit-state BFS over operation histories with canonical-state deduplication); every case/transition executes the real library code and is compared with a reference model written from the RFCs",
        }],
        "checks": checks,
        "not_applicable": na,
        "notes": "exit codes: 0 held, 1 VIOLATION (line 'VIOLATION property=<id> replay=<path>'), 2 machinery failure (build error, non-reproducible observation). Known findings are listed in /verif/known_findings.json and printed as 'KNOWN-FINDING: property=<id> ...'.",
    }
    json.dump(m, open(os.path.join(ROOT, "MANIFEST.json"), "w"), indent=1)
    print("checks:", len(checks), "not_applicable:", len(na))

if __name__ == "__main__":
    main()
