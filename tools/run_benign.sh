#!/bin/bash
# run_benign.sh <ABSOLUTE patch.diff> <check ids...> : like run_seed.sh, but also removes files the patch created
set -u
PATCH="$1"; shift
cd /repo && git diff --quiet || { echo "/repo has uncommitted changes, refusing"; exit 2; }
git -C /repo apply "$PATCH" 2>/dev/null || { echo "patch does not apply"; exit 2; }
trap 'git -C /repo checkout -- . ; git -C /repo clean -fdq simple-dns simple-mdns' EXIT
for id in "$@"; do
  OUT=$(cd /verif && ./check "$id" quick 2>&1); RC=$?
  echo "$id exit=$RC"
  echo "$OUT" | grep -E "signature:|detail:|MACHINERY|^error" | cut -c1-600 | head -8
done
