#!/usr/bin/env python3
"""Maintain /verif/known_findings.json.
  kf.py fixed <props,comma> <commit> <what failed>
  kf.py known <prop> <signature> <what fails>
Entries with status 'fixed' suppress nothing; entries with status 'known' match violation
signatures (exact, or prefix when the signature ends in '*')."""
import json, sys, os
P = os.path.join(os.path.dirname(os.path.dirname(os.path.abspath(__file__))), 'known_findings.json')
d = json.load(open(P))
kind = sys.argv[1]
if kind == 'fixed':
    props, commit, what = sys.argv[2], sys.argv[3], sys.argv[4]
    for p in props.split(','):
        d['findings'].append({'status': 'fixed', 'property': p, 'commit': commit, 'what': what,
                              'line': f'fixed: property={p} {commit} {what}'})
elif kind == 'known':
    prop, sig, what = sys.argv[2], sys.argv[3], sys.argv[4]
    d['findings'].append({'status': 'known', 'property': prop, 'signature': sig, 'what': what})
json.dump(d, open(P, 'w'), indent=1)
