#!/bin/bash
# confirm_seed.sh <seed-name> <dir-with-SEED-files> <demo-relative-path> <demo-cargo-args...>
# In a fresh scratch worktree of /repo: (1) without the patch the demo passes, (2) with the patch the
# repository's own suite still passes, (3) with the patch the demo fails. Prints a JSON line.
set -u
NAME="$1"; SRC="$2"; DEMO_REL="$3"; shift 3
WT=/tmp/confirm/$NAME
export CARGO_NET_OFFLINE=true CARGO_TARGET_DIR=/tmp/confirm/$NAME-target
rm -rf "$WT" "$CARGO_TARGET_DIR"; mkdir -p /tmp/confirm
git -C /repo worktree add -q --detach "$WT" HEAD || exit 2
DEMO_FILE=$(ls "$SRC" | grep -v -E '^(patch.diff|notes.json)$' | head -1)
mkdir -p "$(dirname "$WT/$DEMO_REL")"; cp "$SRC/$DEMO_FILE" "$WT/$DEMO_REL"
cd "$WT"
cargo test --offline "$@" > /tmp/confirm/$NAME.demo0.log 2>&1; D0=$?
git apply "$SRC/patch.diff" || { echo "{\"seed\":\"$NAME\",\"error\":\"patch does not apply\"}"; git -C /repo worktree remove --force "$WT"; rm -rf "$CARGO_TARGET_DIR"; exit 2; }
mv "$WT/$DEMO_REL" /tmp/confirm/$NAME.demo.rs
cargo test --workspace --no-fail-fast --offline > /tmp/confirm/$NAME.suite.log 2>&1; S=$?
PASSED=$(grep -E "^test result: ok" /tmp/confirm/$NAME.suite.log | sed -E 's/.* ([0-9]+) passed.*/\1/' | paste -sd+ | bc)
cp /tmp/confirm/$NAME.demo.rs "$WT/$DEMO_REL"
cargo test --offline "$@" > /tmp/confirm/$NAME.demo1.log 2>&1; D1=$?
echo "{\"seed\":\"$NAME\",\"demo_without_patch_exit\":$D0,\"suite_with_patch_exit\":$S,\"suite_tests_passed\":${PASSED:-0},\"demo_with_patch_exit\":$D1}"
cd /; git -C /repo worktree remove --force "$WT"; rm -rf "$CARGO_TARGET_DIR"
