#!/bin/bash
# confirm_seed.sh <seed-name> <dir-with-patch.diff-and-demo> <demo-relative-path> <modline:0|1> <demo cargo test args...>
# In a fresh scratch worktree of /repo: (1) with the patch the repository's own suite still passes,
# (2) with the patch the demo fails, (3) without the patch the demo passes. Prints one JSON line.
set -u
NAME="$1"; SRC="$2"; DEMO_REL="$3"; MODLINE="$4"; shift 4
WT=/tmp/confirm/$NAME
export CARGO_NET_OFFLINE=true CARGO_TARGET_DIR=/tmp/confirm/$NAME-target
rm -rf "$WT" "$CARGO_TARGET_DIR"; mkdir -p /tmp/confirm
git -C /repo worktree add -q --detach "$WT" HEAD || exit 2
cd "$WT"
git apply "$SRC/patch.diff" || { echo "{\"seed\":\"$NAME\",\"error\":\"patch does not apply\"}"; cd /; git -C /repo worktree remove --force "$WT"; exit 2; }
cargo test --workspace --no-fail-fast --offline > /tmp/confirm/$NAME.suite.log 2>&1; S=$?
PASSED=$(grep -E "^test result: ok" /tmp/confirm/$NAME.suite.log | sed -E 's/.* ([0-9]+) passed.*/\1/' | paste -sd+ | bc)
FAILED=$(grep -E "^test result: FAILED" /tmp/confirm/$NAME.suite.log | wc -l)
DEMO_FILE=$(ls "$SRC" | grep -E '\.rs$' | head -1)
mkdir -p "$(dirname "$WT/$DEMO_REL")"; cp "$SRC/$DEMO_FILE" "$WT/$DEMO_REL"
if [ "$MODLINE" = "1" ]; then printf '\n#[cfg(test)]\nmod seed_demo;\n' >> "$WT/simple-mdns/src/lib.rs"; fi
cargo test --offline "$@" > /tmp/confirm/$NAME.demo1.log 2>&1; D1=$?
git apply -R "$SRC/patch.diff"
cargo test --offline "$@" > /tmp/confirm/$NAME.demo0.log 2>&1; D0=$?
echo "{\"seed\":\"$NAME\",\"suite_with_patch_exit\":$S,\"suite_tests_passed\":${PASSED:-0},\"suite_result_lines_failed\":$FAILED,\"demo_with_patch_exit\":$D1,\"demo_without_patch_exit\":$D0}"
cd /; git -C /repo worktree remove --force "$WT"; rm -rf "$CARGO_TARGET_DIR"
