#!/opt/veriftools/pyvenv/bin/python3
import json, sys, glob, jsonschema
m = json.load(open('/verif/MANIFEST.json'))
jsonschema.validate(m, json.load(open('/root/.vp/MANIFEST.schema.json')))
print('manifest ok:', len(m['checks']), 'checks')
es = json.load(open('/root/.vp/EVIDENCE.schema.json'))
for c in m['checks']:
    try:
        jsonschema.validate(json.load(open(c['evidence_file'])), es)
    except Exception as e:
        print('EVIDENCE PROBLEM', c['property_id'], str(e)[:200])
print('evidence checked')
