//! Declarative RDATA schemas for the 40 supported record types, written from the RFCs, with an
//! independent encoder and decoder.

use super::wire::{decode_name, NameErr};
use super::{RefName, B};
use serde::{Deserialize, Serialize};

#[derive(Clone, Copy, PartialEq, Eq, Debug)]
pub enum Comp {
    /// RFC 1035 types: compression allowed, and the property asks for it on repeats
    Rfc1035,
    /// later types where RFC 3597 discourages compression but the property neither demands nor forbids it
    May,
    /// types whose specification forbids compressing this name
    Never,
}

#[derive(Clone, Copy, PartialEq, Eq, Debug)]
pub enum Kind {
    U8,
    U16,
    U24,
    U32,
    I32,
    U48,
    Fixed(usize),
    Name(Comp),
    Str,
    /// opaque remainder of the RDATA
    Tail,
    /// one or more character-strings up to the end of the RDATA (TXT)
    Strs,
    /// SVCB/HTTPS SvcParams: (key u16, len u16, value)*, keys strictly increasing
    Params,
    /// NSEC type bitmaps: (window u8, len u8, bitmap)*, windows strictly increasing
    Windows,
    /// IPSECKEY gateway type octet; carries no value of its own (derived from the Gateway field)
    GwType,
    /// IPSECKEY gateway, shaped by the preceding GwType
    Gateway,
}

#[derive(Clone, PartialEq, Eq, Hash, Debug, Serialize, Deserialize)]
pub enum Gw {
    None,
    V4([u8; 4]),
    V6(B),
    Domain(RefName),
}

#[derive(Clone, PartialEq, Eq, Hash, Debug, Serialize, Deserialize)]
pub enum Val {
    U8(u8),
    U16(u16),
    U24(u32),
    U32(u32),
    I32(i32),
    U48(u64),
    Fixed(B),
    Name(RefName),
    Str(B),
    Tail(B),
    Strs(Vec<B>),
    Params(Vec<(u16, B)>),
    Windows(Vec<(u8, B)>),
    Gateway(Gw),
}

pub struct TypeSchema {
    pub code: u16,
    pub mnemonic: &'static str,
    pub fields: &'static [(&'static str, Kind)],
}

use Comp::*;
use Kind::*;

/// The 39 typed variants other than OPT (OPT is modelled at packet level, RFC 6891).
pub static SCHEMAS: &[TypeSchema] = &[
    TypeSchema { code: 1, mnemonic: "A", fields: &[("address", U32)] },
    TypeSchema { code: 2, mnemonic: "NS", fields: &[("nsdname", Name(Rfc1035))] },
    TypeSchema { code: 3, mnemonic: "MD", fields: &[("madname", Name(Rfc1035))] },
    TypeSchema { code: 4, mnemonic: "MF", fields: &[("madname", Name(Rfc1035))] },
    TypeSchema { code: 5, mnemonic: "CNAME", fields: &[("cname", Name(Rfc1035))] },
    TypeSchema {
        code: 6,
        mnemonic: "SOA",
        fields: &[
            ("mname", Name(Rfc1035)),
            ("rname", Name(Rfc1035)),
            ("serial", U32),
            ("refresh", I32),
            ("retry", I32),
            ("expire", I32),
            ("minimum", U32),
        ],
    },
    TypeSchema { code: 7, mnemonic: "MB", fields: &[("madname", Name(Rfc1035))] },
    TypeSchema { code: 8, mnemonic: "MG", fields: &[("mgmname", Name(Rfc1035))] },
    TypeSchema { code: 9, mnemonic: "MR", fields: &[("newname", Name(Rfc1035))] },
    TypeSchema { code: 11, mnemonic: "WKS", fields: &[("address", U32), ("protocol", U8), ("bit_map", Tail)] },
    TypeSchema { code: 12, mnemonic: "PTR", fields: &[("ptrdname", Name(Rfc1035))] },
    TypeSchema { code: 13, mnemonic: "HINFO", fields: &[("cpu", Str), ("os", Str)] },
    TypeSchema { code: 14, mnemonic: "MINFO", fields: &[("rmailbx", Name(Rfc1035)), ("emailbx", Name(Rfc1035))] },
    TypeSchema { code: 15, mnemonic: "MX", fields: &[("preference", U16), ("exchange", Name(Rfc1035))] },
    TypeSchema { code: 16, mnemonic: "TXT", fields: &[("strings", Strs)] },
    TypeSchema { code: 17, mnemonic: "RP", fields: &[("mbox", Name(May)), ("txt", Name(May))] },
    TypeSchema { code: 18, mnemonic: "AFSDB", fields: &[("subtype", U16), ("hostname", Name(May))] },
    TypeSchema { code: 20, mnemonic: "ISDN", fields: &[("address", Str), ("sa", Str)] },
    TypeSchema { code: 21, mnemonic: "RT", fields: &[("preference", U16), ("intermediate_host", Name(May))] },
    TypeSchema {
        code: 22,
        mnemonic: "NSAP",
        fields: &[
            ("afi", U8),
            ("idi", U16),
            ("dfi", U8),
            ("aa", U24),
            ("rsvd", U16),
            ("rd", U16),
            ("area", U16),
            ("id", U48),
            ("sel", U8),
        ],
    },
    TypeSchema { code: 23, mnemonic: "NSAP-PTR", fields: &[("owner", Name(May))] },
    TypeSchema { code: 28, mnemonic: "AAAA", fields: &[("address", Fixed(16))] },
    TypeSchema {
        code: 29,
        mnemonic: "LOC",
        fields: &[
            ("version", U8),
            ("size", U8),
            ("horiz_pre", U8),
            ("vert_pre", U8),
            ("latitude", I32),
            ("longitude", I32),
            ("altitude", I32),
        ],
    },
    TypeSchema {
        code: 33,
        mnemonic: "SRV",
        fields: &[("priority", U16), ("weight", U16), ("port", U16), ("target", Name(Never))],
    },
    TypeSchema {
        code: 35,
        mnemonic: "NAPTR",
        fields: &[
            ("order", U16),
            ("preference", U16),
            ("flags", Str),
            ("services", Str),
            ("regexp", Str),
            ("replacement", Name(Never)),
        ],
    },
    TypeSchema { code: 36, mnemonic: "KX", fields: &[("preference", U16), ("exchanger", Name(Never))] },
    TypeSchema {
        code: 37,
        mnemonic: "CERT",
        fields: &[("type", U16), ("key_tag", U16), ("algorithm", U8), ("certificate", Tail)],
    },
    TypeSchema {
        code: 43,
        mnemonic: "DS",
        fields: &[("key_tag", U16), ("algorithm", U8), ("digest_type", U8), ("digest", Tail)],
    },
    TypeSchema {
        code: 45,
        mnemonic: "IPSECKEY",
        fields: &[
            ("precedence", U8),
            ("gateway_type", GwType),
            ("algorithm", U8),
            ("gateway", Gateway),
            ("public_key", Tail),
        ],
    },
    TypeSchema {
        code: 46,
        mnemonic: "RRSIG",
        fields: &[
            ("type_covered", U16),
            ("algorithm", U8),
            ("labels", U8),
            ("original_ttl", U32),
            ("expiration", U32),
            ("inception", U32),
            ("key_tag", U16),
            ("signer_name", Name(Never)),
            ("signature", Tail),
        ],
    },
    TypeSchema { code: 47, mnemonic: "NSEC", fields: &[("next_name", Name(Never)), ("type_bit_maps", Windows)] },
    TypeSchema {
        code: 48,
        mnemonic: "DNSKEY",
        fields: &[("flags", U16), ("protocol", U8), ("algorithm", U8), ("public_key", Tail)],
    },
    TypeSchema { code: 49, mnemonic: "DHCID", fields: &[("identifier", U16), ("digest_type", U8), ("digest", Tail)] },
    TypeSchema {
        code: 63,
        mnemonic: "ZONEMD",
        fields: &[("serial", U32), ("scheme", U8), ("algorithm", U8), ("digest", Tail)],
    },
    TypeSchema { code: 64, mnemonic: "SVCB", fields: &[("priority", U16), ("target", Name(Never)), ("params", Params)] },
    TypeSchema { code: 65, mnemonic: "HTTPS", fields: &[("priority", U16), ("target", Name(Never)), ("params", Params)] },
    TypeSchema { code: 108, mnemonic: "EUI48", fields: &[("address", Fixed(6))] },
    TypeSchema { code: 109, mnemonic: "EUI64", fields: &[("address", Fixed(8))] },
    TypeSchema { code: 257, mnemonic: "CAA", fields: &[("flags", U8), ("tag", Str), ("value", Tail)] },
];

pub const OPT_CODE: u16 = 41;
pub const NULL_CODE: u16 = 10;

pub fn schema(code: u16) -> Option<&'static TypeSchema> {
    SCHEMAS.iter().find(|s| s.code == code)
}

/// All type codes the library supports as typed variants (39 schemas + OPT).
pub fn supported_codes() -> Vec<u16> {
    let mut v: Vec<u16> = SCHEMAS.iter().map(|s| s.code).collect();
    v.push(OPT_CODE);
    v.sort();
    v
}

pub fn encode_vals(sch: &TypeSchema, vals: &[Val], out: &mut Vec<u8>) {
    encode_vals_with(sch, vals, out, &mut |n, out, _| n.encode(out));
}

/// Same as `encode_vals`, but every embedded name is written by `wn` (which may compress).
pub fn encode_vals_with(
    sch: &TypeSchema,
    vals: &[Val],
    out: &mut Vec<u8>,
    wn: &mut dyn FnMut(&RefName, &mut Vec<u8>, Comp),
) {
    let mut vi = 0usize;
    let comps: Vec<Comp> = sch
        .fields
        .iter()
        .filter(|(_, k)| *k != GwType)
        .map(|(_, k)| match k {
            Name(c) => *c,
            _ => Comp::Never,
        })
        .collect();
    for (_, k) in sch.fields {
        if *k == GwType {
            let gw = vals.iter().find_map(|v| if let Val::Gateway(g) = v { Some(g) } else { None });
            out.push(match gw {
                Some(Gw::None) | None => 0,
                Some(Gw::V4(_)) => 1,
                Some(Gw::V6(_)) => 2,
                Some(Gw::Domain(_)) => 3,
            });
            continue;
        }
        let v = &vals[vi];
        vi += 1;
        match v {
            Val::U8(x) => out.push(*x),
            Val::U16(x) => out.extend_from_slice(&x.to_be_bytes()),
            Val::U24(x) => out.extend_from_slice(&x.to_be_bytes()[1..]),
            Val::U32(x) => out.extend_from_slice(&x.to_be_bytes()),
            Val::I32(x) => out.extend_from_slice(&x.to_be_bytes()),
            Val::U48(x) => out.extend_from_slice(&x.to_be_bytes()[2..]),
            Val::Fixed(b) => out.extend_from_slice(&b.0),
            Val::Name(n) => wn(n, out, comps[vi - 1]),
            Val::Str(s) => {
                out.push(s.0.len() as u8);
                out.extend_from_slice(&s.0);
            }
            Val::Tail(t) => out.extend_from_slice(&t.0),
            Val::Strs(ss) => {
                for s in ss {
                    out.push(s.0.len() as u8);
                    out.extend_from_slice(&s.0);
                }
            }
            Val::Params(ps) => {
                for (k, v) in ps {
                    out.extend_from_slice(&k.to_be_bytes());
                    out.extend_from_slice(&(v.0.len() as u16).to_be_bytes());
                    out.extend_from_slice(&v.0);
                }
            }
            Val::Windows(ws) => {
                for (w, b) in ws {
                    out.push(*w);
                    out.push(b.0.len() as u8);
                    out.extend_from_slice(&b.0);
                }
            }
            Val::Gateway(g) => match g {
                Gw::None => {}
                Gw::V4(a) => out.extend_from_slice(a),
                Gw::V6(a) => out.extend_from_slice(&a.0),
                Gw::Domain(n) => wn(n, out, Comp::Never),
            },
        }
    }
}

#[derive(Debug, Clone, PartialEq, Eq)]
pub enum DecErr {
    /// a fixed field, string, or inner length overruns the RDATA
    Overrun(&'static str),
    Name(NameErr),
    /// structural rule broken: "loc-version", "svcb-order", "nsec-order", "gateway-type"
    Rule(&'static str),
}

#[derive(Debug, Clone)]
pub struct Decoded {
    pub vals: Vec<Val>,
    /// number of RDATA bytes the fields consumed (== rdlen unless there is surplus)
    pub consumed: usize,
    /// offsets (absolute) of names inside the RDATA and whether they used pointers
    pub names: Vec<(usize, Comp, usize)>, // (offset, comp class, pointers followed)
}

/// Decode RDATA occupying msg[start..end] per the schema. Names may use compression pointers
/// into the whole message (the in-place part must lie inside the RDATA).
pub fn decode_vals(sch: &TypeSchema, msg: &[u8], start: usize, end: usize) -> Result<Decoded, DecErr> {
    let view = &msg[..end];
    let mut p = start;
    let mut vals = Vec::new();
    let mut names = Vec::new();
    let mut gwtype = 0u8;
    let need = |p: usize, n: usize, what: &'static str| -> Result<(), DecErr> {
        if p + n > end {
            Err(DecErr::Overrun(what))
        } else {
            Ok(())
        }
    };
    for (fname, k) in sch.fields {
        match k {
            U8 => {
                need(p, 1, fname)?;
                vals.push(Val::U8(view[p]));
                p += 1;
            }
            U16 => {
                need(p, 2, fname)?;
                vals.push(Val::U16(u16::from_be_bytes([view[p], view[p + 1]])));
                p += 2;
            }
            U24 => {
                need(p, 3, fname)?;
                vals.push(Val::U24(u32::from_be_bytes([0, view[p], view[p + 1], view[p + 2]])));
                p += 3;
            }
            U32 => {
                need(p, 4, fname)?;
                vals.push(Val::U32(u32::from_be_bytes([view[p], view[p + 1], view[p + 2], view[p + 3]])));
                p += 4;
            }
            I32 => {
                need(p, 4, fname)?;
                vals.push(Val::I32(i32::from_be_bytes([view[p], view[p + 1], view[p + 2], view[p + 3]])));
                p += 4;
            }
            U48 => {
                need(p, 6, fname)?;
                let mut b = [0u8; 8];
                b[2..].copy_from_slice(&view[p..p + 6]);
                vals.push(Val::U48(u64::from_be_bytes(b)));
                p += 6;
            }
            Fixed(n) => {
                need(p, *n, fname)?;
                vals.push(Val::Fixed(B(view[p..p + n].to_vec())));
                p += n;
            }
            Name(c) => {
                let d = decode_name(view, p).map_err(DecErr::Name)?;
                names.push((p, *c, d.ptrs));
                p = d.next;
                vals.push(Val::Name(d.name));
            }
            Str => {
                need(p, 1, fname)?;
                let l = view[p] as usize;
                need(p + 1, l, fname)?;
                vals.push(Val::Str(B(view[p + 1..p + 1 + l].to_vec())));
                p += 1 + l;
            }
            Tail => {
                vals.push(Val::Tail(B(view[p..end].to_vec())));
                p = end;
            }
            Strs => {
                let mut ss = Vec::new();
                while p < end {
                    let l = view[p] as usize;
                    need(p + 1, l, fname)?;
                    ss.push(B(view[p + 1..p + 1 + l].to_vec()));
                    p += 1 + l;
                }
                vals.push(Val::Strs(ss));
            }
            Params => {
                let mut ps: Vec<(u16, B)> = Vec::new();
                while p < end {
                    need(p, 4, fname)?;
                    let key = u16::from_be_bytes([view[p], view[p + 1]]);
                    let l = u16::from_be_bytes([view[p + 2], view[p + 3]]) as usize;
                    need(p + 4, l, fname)?;
                    if let Some((prev, _)) = ps.last() {
                        if key <= *prev {
                            return Err(DecErr::Rule("svcb-order"));
                        }
                    }
                    ps.push((key, B(view[p + 4..p + 4 + l].to_vec())));
                    p += 4 + l;
                }
                vals.push(Val::Params(ps));
            }
            Windows => {
                let mut ws: Vec<(u8, B)> = Vec::new();
                while p < end {
                    need(p, 2, fname)?;
                    let w = view[p];
                    let l = view[p + 1] as usize;
                    need(p + 2, l, fname)?;
                    if let Some((prev, _)) = ws.last() {
                        if w <= *prev {
                            return Err(DecErr::Rule("nsec-order"));
                        }
                    }
                    ws.push((w, B(view[p + 2..p + 2 + l].to_vec())));
                    p += 2 + l;
                }
                vals.push(Val::Windows(ws));
            }
            GwType => {
                need(p, 1, fname)?;
                gwtype = view[p];
                p += 1;
            }
            Gateway => {
                let g = match gwtype {
                    0 => Gw::None,
                    1 => {
                        need(p, 4, fname)?;
                        let a = [view[p], view[p + 1], view[p + 2], view[p + 3]];
                        p += 4;
                        Gw::V4(a)
                    }
                    2 => {
                        need(p, 16, fname)?;
                        let a = B(view[p..p + 16].to_vec());
                        p += 16;
                        Gw::V6(a)
                    }
                    3 => {
                        let d = decode_name(view, p).map_err(DecErr::Name)?;
                        names.push((p, Comp::Never, d.ptrs));
                        p = d.next;
                        Gw::Domain(d.name)
                    }
                    _ => return Err(DecErr::Rule("gateway-type")),
                };
                vals.push(Val::Gateway(g));
            }
        }
    }
    if sch.code == 29 {
        if let Some(Val::U8(v)) = vals.first() {
            if *v != 0 {
                return Err(DecErr::Rule("loc-version"));
            }
        }
    }
    Ok(Decoded { vals, consumed: p - start, names })
}

/// Names contained in a value list (for compression bookkeeping), with their class.
pub fn names_of(sch: &TypeSchema, vals: &[Val]) -> Vec<(RefName, Comp)> {
    let mut out = Vec::new();
    let mut vi = 0;
    for (_, k) in sch.fields {
        if *k == GwType {
            continue;
        }
        match (&vals[vi], k) {
            (Val::Name(n), Name(c)) => out.push((n.clone(), *c)),
            (Val::Gateway(Gw::Domain(n)), _) => out.push((n.clone(), Comp::Never)),
            _ => {}
        }
        vi += 1;
    }
    out
}

/// Number of values a schema carries (fields minus derived ones).
pub fn arity(sch: &TypeSchema) -> usize {
    sch.fields.iter().filter(|(_, k)| *k != GwType).count()
}
