//! Reference packet model: semantic content of a DNS message, with an RFC encoder and decoder.

use super::schema::{self, decode_vals, encode_vals, DecErr, Val, NULL_CODE, OPT_CODE};
use super::wire::{walk, Walk, WalkErr, WalkRR};
use super::{RefName, B};
use serde::{Deserialize, Serialize};

/// RFC 1035 4.1.1 flag bits in their wire positions.
pub const F_QR: u16 = 0x8000;
pub const F_AA: u16 = 0x0400;
pub const F_TC: u16 = 0x0200;
pub const F_RD: u16 = 0x0100;
pub const F_RA: u16 = 0x0080;
pub const F_Z: u16 = 0x0040;
pub const F_AD: u16 = 0x0020;
pub const F_CD: u16 = 0x0010;
pub const ALL_FLAGS: [u16; 7] = [F_QR, F_AA, F_TC, F_RD, F_RA, F_AD, F_CD];
pub const FLAG_MASK: u16 = F_QR | F_AA | F_TC | F_RD | F_RA | F_AD | F_CD;

/// opcode/rcode values that are "reserved" for the library are observed as these markers
pub const OPCODE_RESERVED: u8 = 0xff;
pub const RCODE_RESERVED: u16 = 0xffff;
pub const NAMED_OPCODES: [u8; 5] = [0, 1, 2, 4, 5];
pub const NAMED_RCODES: [u16; 12] = [0, 1, 2, 3, 4, 5, 6, 7, 8, 9, 10, 16];

#[derive(Clone, PartialEq, Eq, Hash, Debug, Serialize, Deserialize)]
pub struct RefOpt {
    pub udp: u16,
    pub version: u8,
    pub options: Vec<(u16, B)>,
}

#[derive(Clone, PartialEq, Eq, Hash, Debug, Serialize, Deserialize)]
pub struct RefQ {
    pub name: RefName,
    pub qtype: u16,
    pub qclass: u16,
    pub unicast: bool,
}

#[derive(Clone, PartialEq, Eq, Hash, Debug, Serialize, Deserialize)]
pub enum RefRData {
    Typed { code: u16, vals: Vec<Val> },
    /// NULL and unknown types: non-empty opaque RDATA
    Opaque { code: u16, data: B },
    /// any type with RDLENGTH 0
    Empty { code: u16 },
    /// an OPT record that is not the packet's EDNS record (only seen on parsed foreign input)
    StrayOpt(RefOpt),
}

impl RefRData {
    pub fn code(&self) -> u16 {
        match self {
            RefRData::Typed { code, .. } | RefRData::Opaque { code, .. } | RefRData::Empty { code } => *code,
            RefRData::StrayOpt(_) => OPT_CODE,
        }
    }
    pub fn encode(&self, out: &mut Vec<u8>) {
        match self {
            RefRData::Typed { code, vals } => encode_vals(schema::schema(*code).expect("schema"), vals, out),
            RefRData::Opaque { data, .. } => out.extend_from_slice(&data.0),
            RefRData::Empty { .. } => {}
            RefRData::StrayOpt(o) => encode_options(&o.options, out),
        }
    }
}

pub fn encode_options(opts: &[(u16, B)], out: &mut Vec<u8>) {
    for (c, d) in opts {
        out.extend_from_slice(&c.to_be_bytes());
        out.extend_from_slice(&(d.0.len() as u16).to_be_bytes());
        out.extend_from_slice(&d.0);
    }
}

#[derive(Clone, PartialEq, Eq, Hash, Debug, Serialize, Deserialize)]
pub struct RefRR {
    pub name: RefName,
    pub class: u16,
    pub cache_flush: bool,
    pub ttl: u32,
    pub rdata: RefRData,
}

#[derive(Clone, PartialEq, Eq, Hash, Debug, Serialize, Deserialize, Default)]
pub struct RefPacket {
    pub id: u16,
    /// subset of FLAG_MASK
    pub flags: u16,
    /// numeric opcode (4 bits) or OPCODE_RESERVED when observed from the library's Reserved
    pub opcode: u8,
    /// numeric 12-bit rcode, or RCODE_RESERVED when observed from the library's Reserved
    pub rcode: u16,
    pub opt: Option<RefOpt>,
    pub questions: Vec<RefQ>,
    pub answers: Vec<RefRR>,
    pub authority: Vec<RefRR>,
    pub additional: Vec<RefRR>,
}

impl RefPacket {
    pub fn sections(&self) -> [&Vec<RefRR>; 3] {
        [&self.answers, &self.authority, &self.additional]
    }

    /// RFC encoding without compression. The OPT pseudo-record, if any, is placed at index
    /// `opt_pos` of the additional section (clamped).
    pub fn encode(&self, opt_pos: usize) -> Vec<u8> {
        self.encode_with(opt_pos, &mut |n, out, _| n.encode(out))
    }

    /// RFC encoding in which names are compressed greedily: every name (or only names in
    /// positions where RFC 1035 allows it, when `everywhere` is false) is written as the longest
    /// suffix already present at an offset < 0x4000, as a pointer to its first occurrence.
    pub fn encode_compressed(&self, opt_pos: usize, everywhere: bool) -> Vec<u8> {
        let mut table: Vec<(Vec<B>, usize)> = Vec::new();
        self.encode_with(opt_pos, &mut |n, out, where_| {
            let allowed = everywhere
                || matches!(where_, NamePos::Question | NamePos::Owner | NamePos::Rdata(schema::Comp::Rfc1035));
            for i in 0..n.0.len() {
                let suffix = &n.0[i..];
                if allowed {
                    if let Some((_, off)) = table.iter().find(|(s, _)| s[..] == *suffix) {
                        out.extend_from_slice(&(0xc000u16 | *off as u16).to_be_bytes());
                        return;
                    }
                }
                if out.len() < 0x4000 {
                    table.push((suffix.to_vec(), out.len()));
                }
                out.push(n.0[i].0.len() as u8);
                out.extend_from_slice(&n.0[i].0);
            }
            out.push(0);
        })
    }

    pub fn encode_with(&self, opt_pos: usize, wn: &mut dyn FnMut(&RefName, &mut Vec<u8>, NamePos)) -> Vec<u8> {
        let mut out = Vec::new();
        out.extend_from_slice(&self.id.to_be_bytes());
        let flags = (self.flags & FLAG_MASK) | (((self.opcode & 0xf) as u16) << 11) | (self.rcode & 0xf);
        out.extend_from_slice(&flags.to_be_bytes());
        out.extend_from_slice(&(self.questions.len() as u16).to_be_bytes());
        out.extend_from_slice(&(self.answers.len() as u16).to_be_bytes());
        out.extend_from_slice(&(self.authority.len() as u16).to_be_bytes());
        let ar = self.additional.len() + usize::from(self.opt.is_some());
        out.extend_from_slice(&(ar as u16).to_be_bytes());
        for q in &self.questions {
            wn(&q.name, &mut out, NamePos::Question);
            out.extend_from_slice(&q.qtype.to_be_bytes());
            let c = q.qclass | if q.unicast { 0x8000 } else { 0 };
            out.extend_from_slice(&c.to_be_bytes());
        }
        for rr in self.answers.iter().chain(self.authority.iter()) {
            encode_rr_with(rr, &mut out, wn);
        }
        let pos = opt_pos.min(self.additional.len());
        for (i, rr) in self.additional.iter().enumerate() {
            if i == pos {
                self.encode_opt(&mut out);
            }
            encode_rr_with(rr, &mut out, wn);
        }
        if pos == self.additional.len() {
            self.encode_opt(&mut out);
        }
        out
    }

    fn encode_opt(&self, out: &mut Vec<u8>) {
        if let Some(o) = &self.opt {
            out.push(0); // root owner
            out.extend_from_slice(&OPT_CODE.to_be_bytes());
            out.extend_from_slice(&o.udp.to_be_bytes());
            // RFC 6891 6.1.3: extended RCODE (8), VERSION (8), DO + Z (16)
            let ext = ((self.rcode >> 4) & 0xff) as u8;
            out.extend_from_slice(&[ext, o.version, 0, 0]);
            let mut rd = Vec::new();
            encode_options(&o.options, &mut rd);
            out.extend_from_slice(&(rd.len() as u16).to_be_bytes());
            out.extend_from_slice(&rd);
        }
    }
}

#[derive(Clone, Copy, PartialEq, Eq, Debug)]
pub enum NamePos {
    Question,
    Owner,
    Rdata(schema::Comp),
}

pub fn encode_rr(rr: &RefRR, out: &mut Vec<u8>) {
    encode_rr_with(rr, out, &mut |n, out, _| n.encode(out))
}

pub fn encode_rr_with(rr: &RefRR, out: &mut Vec<u8>, wn: &mut dyn FnMut(&RefName, &mut Vec<u8>, NamePos)) {
    wn(&rr.name, out, NamePos::Owner);
    out.extend_from_slice(&rr.rdata.code().to_be_bytes());
    let c = match &rr.rdata {
        RefRData::StrayOpt(o) => o.udp,
        _ => rr.class | if rr.cache_flush { 0x8000 } else { 0 },
    };
    out.extend_from_slice(&c.to_be_bytes());
    out.extend_from_slice(&rr.ttl.to_be_bytes());
    // RDATA is written in place (so that compression offsets are message offsets), RDLENGTH patched
    let lp = out.len();
    out.extend_from_slice(&[0, 0]);
    match &rr.rdata {
        RefRData::Typed { code, vals } => schema::encode_vals_with(
            schema::schema(*code).expect("schema"),
            vals,
            out,
            &mut |n, out, c| wn(n, out, NamePos::Rdata(c)),
        ),
        other => other.encode(out),
    }
    let l = (out.len() - lp - 2) as u16;
    out[lp..lp + 2].copy_from_slice(&l.to_be_bytes());
}

#[derive(Debug, Clone, PartialEq, Eq)]
pub enum PktErr {
    Walk(WalkErr),
    /// reserved Z bit set
    ZBit,
    /// typed RDATA does not decode under its schema
    Rdata { index: usize, code: u16, err: DecErr },
    /// typed RDATA decodes but leaves surplus bytes before RDLENGTH
    Surplus { index: usize, code: u16, consumed: usize, rdlen: usize },
}

pub fn decode_options(msg: &[u8], start: usize, end: usize) -> Result<Vec<(u16, B)>, DecErr> {
    let mut p = start;
    let mut out = Vec::new();
    while p < end {
        if p + 4 > end {
            return Err(DecErr::Overrun("option header"));
        }
        let c = u16::from_be_bytes([msg[p], msg[p + 1]]);
        let l = u16::from_be_bytes([msg[p + 2], msg[p + 3]]) as usize;
        if p + 4 + l > end {
            return Err(DecErr::Overrun("option data"));
        }
        out.push((c, B(msg[p + 4..p + 4 + l].to_vec())));
        p += 4 + l;
    }
    Ok(out)
}

pub fn decode_rdata(msg: &[u8], index: usize, rr: &WalkRR) -> Result<RefRData, PktErr> {
    let (s, e) = (rr.rdata_start, rr.rdata_end());
    if rr.rtype == OPT_CODE {
        let options =
            decode_options(msg, s, e).map_err(|err| PktErr::Rdata { index, code: rr.rtype, err })?;
        return Ok(RefRData::StrayOpt(RefOpt {
            udp: rr.class_raw,
            version: ((rr.ttl >> 16) & 0xff) as u8,
            options,
        }));
    }
    if rr.rdlen == 0 {
        return Ok(RefRData::Empty { code: rr.rtype });
    }
    match schema::schema(rr.rtype) {
        None => Ok(RefRData::Opaque { code: rr.rtype, data: B(msg[s..e].to_vec()) }),
        Some(sch) => {
            let d = decode_vals(sch, msg, s, e).map_err(|err| PktErr::Rdata { index, code: rr.rtype, err })?;
            if d.consumed != rr.rdlen {
                return Err(PktErr::Surplus { index, code: rr.rtype, consumed: d.consumed, rdlen: rr.rdlen });
            }
            Ok(RefRData::Typed { code: rr.rtype, vals: d.vals })
        }
    }
}

/// Decode a whole message per the RFCs into its semantic content (first OPT of the additional
/// section becomes the packet's EDNS data and supplies the upper rcode bits).
pub fn decode_packet(msg: &[u8]) -> Result<(RefPacket, Walk), PktErr> {
    let w = walk(msg).map_err(PktErr::Walk)?;
    if w.flags & F_Z != 0 {
        return Err(PktErr::ZBit);
    }
    let mut p = RefPacket {
        id: w.id,
        flags: w.flags & FLAG_MASK,
        opcode: ((w.flags >> 11) & 0xf) as u8,
        rcode: w.flags & 0xf,
        ..Default::default()
    };
    for q in &w.questions {
        p.questions.push(RefQ {
            name: q.name.name.clone(),
            qtype: q.qtype,
            qclass: q.qclass_raw & 0x7fff,
            unicast: q.qclass_raw & 0x8000 != 0,
        });
    }
    for (i, rr) in w.records.iter().enumerate() {
        let rdata = decode_rdata(msg, i, rr)?;
        if rr.section == 3 && p.opt.is_none() {
            if let RefRData::StrayOpt(o) = &rdata {
                p.rcode |= (((rr.ttl >> 24) & 0xff) as u16) << 4;
                p.opt = Some(o.clone());
                continue;
            }
        }
        let (class, cache_flush) = match &rdata {
            RefRData::StrayOpt(_) => (1, false),
            _ => (rr.class_raw & 0x7fff, rr.class_raw & 0x8000 != 0),
        };
        let r = RefRR { name: rr.name.name.clone(), class, cache_flush, ttl: rr.ttl, rdata };
        match rr.section {
            1 => p.answers.push(r),
            2 => p.authority.push(r),
            _ => p.additional.push(r),
        }
    }
    Ok((p, w))
}

pub const CLASSES: [u16; 5] = [1, 2, 3, 4, 254];

pub fn null_rdata(code: u16, data: &[u8]) -> RefRData {
    debug_assert!(code == NULL_CODE || schema::schema(code).is_none());
    if data.is_empty() {
        RefRData::Empty { code }
    } else {
        RefRData::Opaque { code, data: B(data.to_vec()) }
    }
}

pub fn rr(name: &str, rdata: RefRData) -> RefRR {
    RefRR { name: RefName::txt(name), class: 1, cache_flush: false, ttl: 0x0102_0304, rdata }
}

pub fn typed(code: u16, vals: Vec<Val>) -> RefRData {
    RefRData::Typed { code, vals }
}

/// Field-level difference between two packet descriptions: (component tag, human detail).
/// The tag is stable (section, component, type mnemonic, field name) and serves as signature.
pub fn diff(exp: &RefPacket, got: &RefPacket) -> Vec<(String, String)> {
    let mut out = Vec::new();
    let mut add = |tag: String, d: String| out.push((tag, d));
    if exp.id != got.id {
        add("header.id".into(), format!("id {} vs {}", exp.id, got.id));
    }
    if exp.flags != got.flags {
        add("header.flags".into(), format!("flags {:#06x} vs {:#06x}", exp.flags, got.flags));
    }
    if exp.opcode != got.opcode {
        add("header.opcode".into(), format!("opcode {} vs {}", exp.opcode, got.opcode));
    }
    if exp.rcode != got.rcode {
        add("header.rcode".into(), format!("rcode {} vs {}", exp.rcode, got.rcode));
    }
    match (&exp.opt, &got.opt) {
        (None, None) => {}
        (Some(a), Some(b)) => {
            if a.udp != b.udp {
                add("opt.udp".into(), format!("udp size {} vs {}", a.udp, b.udp));
            }
            if a.version != b.version {
                add("opt.version".into(), format!("version {} vs {}", a.version, b.version));
            }
            if a.options != b.options {
                add("opt.options".into(), format!("options {:?} vs {:?}", a.options, b.options));
            }
        }
        (a, b) => add("opt.presence".into(), format!("opt {:?} vs {:?}", a.is_some(), b.is_some())),
    }
    if exp.questions.len() != got.questions.len() {
        add("questions.count".into(), format!("{} vs {} questions", exp.questions.len(), got.questions.len()));
    }
    for (i, (a, b)) in exp.questions.iter().zip(got.questions.iter()).enumerate() {
        if a.name != b.name {
            add("questions.name".into(), format!("question {} name {:?} vs {:?}", i, a.name, b.name));
        }
        if a.qtype != b.qtype {
            add("questions.qtype".into(), format!("question {} qtype {} vs {}", i, a.qtype, b.qtype));
        }
        if a.qclass != b.qclass {
            add("questions.qclass".into(), format!("question {} qclass {} vs {}", i, a.qclass, b.qclass));
        }
        if a.unicast != b.unicast {
            add("questions.unicast".into(), format!("question {} unicast {} vs {}", i, a.unicast, b.unicast));
        }
    }
    for (sname, ea, ga) in [
        ("answers", &exp.answers, &got.answers),
        ("authority", &exp.authority, &got.authority),
        ("additional", &exp.additional, &got.additional),
    ] {
        if ea.len() != ga.len() {
            add(format!("{}.count", sname), format!("{} vs {} records in {}", ea.len(), ga.len(), sname));
        }
        for (i, (a, b)) in ea.iter().zip(ga.iter()).enumerate() {
            let mn = schema::schema(a.rdata.code()).map(|s| s.mnemonic.to_string()).unwrap_or_else(|| format!("TYPE{}", a.rdata.code()));
            if a.name != b.name {
                add(format!("{}.owner", sname), format!("{}[{}] owner {:?} vs {:?}", sname, i, a.name, b.name));
            }
            if a.class != b.class {
                add(format!("{}.class", sname), format!("{}[{}] class {} vs {}", sname, i, a.class, b.class));
            }
            if a.cache_flush != b.cache_flush {
                add(format!("{}.cache_flush", sname), format!("{}[{}] cache_flush {} vs {}", sname, i, a.cache_flush, b.cache_flush));
            }
            if a.ttl != b.ttl {
                add(format!("{}.ttl", sname), format!("{}[{}] ttl {} vs {}", sname, i, a.ttl, b.ttl));
            }
            if a.rdata != b.rdata {
                let which = match (&a.rdata, &b.rdata) {
                    (RefRData::Typed { code: c1, vals: v1 }, RefRData::Typed { code: c2, vals: v2 }) if c1 == c2 && v1.len() == v2.len() => {
                        let sch = schema::schema(*c1).unwrap();
                        let names: Vec<&str> = sch.fields.iter().filter(|(_, k)| *k != schema::Kind::GwType).map(|f| f.0).collect();
                        let d: Vec<&str> = v1.iter().zip(v2.iter()).enumerate().filter(|(_, (x, y))| x != y).map(|(j, _)| names[j]).collect();
                        format!("field-{}", d.join("+"))
                    }
                    _ => "shape".to_string(),
                };
                add(
                    format!("{}.rdata.{}.{}", sname, mn, which),
                    format!("{}[{}] rdata {} vs {}", sname, i, crate::engine::truncate(&format!("{:?}", a.rdata), 300), crate::engine::truncate(&format!("{:?}", b.rdata), 300)),
                );
            }
        }
    }
    out
}
