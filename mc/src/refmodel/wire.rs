//! RFC 1035 wire-level reference: name decoder (section 4.1.4) and message envelope walker.

use super::{RefName, B};

#[derive(Debug, Clone, PartialEq, Eq)]
pub enum NameErr {
    /// a length byte, label or pointer runs past the end of the message
    Truncated,
    /// following pointers revisits a pointer already followed
    Cycle,
    /// pointer target is at or beyond the end of the message
    PtrOutside,
    /// label type bits 01 or 10
    ReservedLabelType,
    /// expanded name longer than 255 bytes on the wire
    TooLong,
}

#[derive(Debug, Clone)]
pub struct NameDec {
    pub name: RefName,
    /// offset just past the in-place encoding (after the terminator, or after the first pointer)
    pub next: usize,
    /// number of pointers followed
    pub ptrs: usize,
    /// true iff every pointer followed pointed strictly before its own position
    pub backward_only: bool,
    /// true iff every pointer followed pointed strictly before the start of the label run it
    /// ends (the name being read, or the run reached through the previous pointer): the target is
    /// then a *prior* occurrence in the sense of RFC 1035 4.1.4, not a place inside the run itself
    pub prior_only: bool,
    /// true iff some pointer followed lands directly on another pointer (a jump that adds no
    /// label); a name without such jumps follows at most as many pointers as it has labels + 1,
    /// so a decoder that caps the number of jumps at 128 or more still accepts it
    pub ptr_to_ptr: bool,
    /// offsets (in the message) at which each label of the name starts, in order
    pub label_offsets: Vec<usize>,
    /// every pointer followed: (position of the pointer, its target), in order
    pub pointers: Vec<(usize, usize)>,
    /// labels read before the first pointer was followed
    pub inplace: usize,
}

impl NameDec {
    /// number of labels written in place (before the first pointer)
    pub fn inplace_labels(&self) -> usize {
        self.inplace
    }
}

/// Walkable, and every question / owner name is reached through at most 16 pointer jumps, each to
/// a prior occurrence: messages any conforming decoder accepts (a decoder may cap the number of
/// jumps, but not below what ordinary compression produces).
pub fn must_be_accepted(msg: &[u8]) -> bool {
    match walk(msg) {
        Err(_) => false,
        Ok(w) => w.questions.iter().map(|q| &q.name).chain(w.records.iter().map(|r| &r.name)).all(|n| n.ptrs <= 16 && n.backward_only && n.prior_only),
    }
}

pub fn decode_name(msg: &[u8], off: usize) -> Result<NameDec, NameErr> {
    let mut pos = off;
    let mut labels: Vec<B> = Vec::new();
    let mut label_offsets = Vec::new();
    let mut next: Option<usize> = None;
    let mut total = 0usize;
    let mut ptrs = 0usize;
    let mut backward_only = true;
    let mut prior_only = true;
    let mut ptr_to_ptr = false;
    let mut run_start = off;
    let mut visited: Vec<usize> = Vec::new();
    let mut pointers: Vec<(usize, usize)> = Vec::new();
    let mut inplace = usize::MAX;
    loop {
        if pos >= msg.len() {
            return Err(NameErr::Truncated);
        }
        let b = msg[pos];
        match b >> 6 {
            0 => {
                if b == 0 {
                    if next.is_none() {
                        next = Some(pos + 1);
                    }
                    break;
                }
                let l = b as usize;
                if pos + 1 + l > msg.len() {
                    return Err(NameErr::Truncated);
                }
                total += 1 + l;
                if total + 1 > 255 {
                    return Err(NameErr::TooLong);
                }
                label_offsets.push(pos);
                labels.push(B(msg[pos + 1..pos + 1 + l].to_vec()));
                pos += 1 + l;
            }
            3 => {
                if pos + 2 > msg.len() {
                    return Err(NameErr::Truncated);
                }
                if visited.contains(&pos) {
                    return Err(NameErr::Cycle);
                }
                visited.push(pos);
                let target = (((b & 0x3f) as usize) << 8) | msg[pos + 1] as usize;
                if next.is_none() {
                    next = Some(pos + 2);
                    inplace = labels.len();
                }
                if target >= msg.len() {
                    return Err(NameErr::PtrOutside);
                }
                if target >= pos {
                    backward_only = false;
                }
                if target >= run_start {
                    prior_only = false;
                }
                if msg[target] & 0xc0 == 0xc0 {
                    ptr_to_ptr = true;
                }
                run_start = target;
                ptrs += 1;
                pointers.push((pos, target));
                pos = target;
            }
            _ => return Err(NameErr::ReservedLabelType),
        }
    }
    if inplace == usize::MAX {
        inplace = labels.len();
    }
    Ok(NameDec { name: RefName(labels), next: next.unwrap(), ptrs, backward_only, prior_only, ptr_to_ptr, label_offsets, pointers, inplace })
}

#[derive(Debug, Clone)]
pub struct WalkQ {
    pub start: usize,
    pub name: NameDec,
    pub qtype: u16,
    pub qclass_raw: u16,
}

#[derive(Debug, Clone)]
pub struct WalkRR {
    pub section: u8, // 1 answer, 2 authority, 3 additional
    pub start: usize,
    pub name: NameDec,
    pub rtype: u16,
    pub class_raw: u16,
    pub ttl: u32,
    pub rdlen: usize,
    pub rdata_start: usize,
}

impl WalkRR {
    pub fn rdata_end(&self) -> usize {
        self.rdata_start + self.rdlen
    }
}

#[derive(Debug, Clone)]
pub struct Walk {
    pub id: u16,
    pub flags: u16,
    pub counts: [u16; 4],
    pub questions: Vec<WalkQ>,
    pub records: Vec<WalkRR>,
    /// offset just past the last entry
    pub end: usize,
}

#[derive(Debug, Clone, PartialEq, Eq)]
pub enum WalkErr {
    ShortHeader,
    Name(NameErr, usize),
    /// fixed fields or RDATA run past the end (offset where the entry started)
    Truncated(usize),
}

pub fn be16(b: &[u8], o: usize) -> u16 {
    u16::from_be_bytes([b[o], b[o + 1]])
}
pub fn be32(b: &[u8], o: usize) -> u32 {
    u32::from_be_bytes([b[o], b[o + 1], b[o + 2], b[o + 3]])
}

/// Walk the envelope of a message: header, `QDCOUNT` questions, then records delimited by
/// RDLENGTH. Does not look inside RDATA.
pub fn walk(msg: &[u8]) -> Result<Walk, WalkErr> {
    if msg.len() < 12 {
        return Err(WalkErr::ShortHeader);
    }
    let id = be16(msg, 0);
    let flags = be16(msg, 2);
    let counts = [be16(msg, 4), be16(msg, 6), be16(msg, 8), be16(msg, 10)];
    let mut pos = 12usize;
    let mut questions = Vec::new();
    for _ in 0..counts[0] {
        let start = pos;
        let name = decode_name(msg, pos).map_err(|e| WalkErr::Name(e, start))?;
        pos = name.next;
        if pos + 4 > msg.len() {
            return Err(WalkErr::Truncated(start));
        }
        questions.push(WalkQ { start, name, qtype: be16(msg, pos), qclass_raw: be16(msg, pos + 2) });
        pos += 4;
    }
    let mut records = Vec::new();
    for (si, &c) in counts[1..].iter().enumerate() {
        for _ in 0..c {
            let start = pos;
            let name = decode_name(msg, pos).map_err(|e| WalkErr::Name(e, start))?;
            pos = name.next;
            if pos + 10 > msg.len() {
                return Err(WalkErr::Truncated(start));
            }
            let rtype = be16(msg, pos);
            let class_raw = be16(msg, pos + 2);
            let ttl = be32(msg, pos + 4);
            let rdlen = be16(msg, pos + 8) as usize;
            pos += 10;
            if pos + rdlen > msg.len() {
                return Err(WalkErr::Truncated(start));
            }
            records.push(WalkRR {
                section: si as u8 + 1,
                start,
                name,
                rtype,
                class_raw,
                ttl,
                rdlen,
                rdata_start: pos,
            });
            pos += rdlen;
        }
    }
    Ok(Walk { id, flags, counts, questions, records, end: pos })
}
