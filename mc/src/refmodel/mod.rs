//! Reference models, written from the RFCs and the property statements (never from the library).

pub mod packet;
pub mod schema;
pub mod wire;

use serde::{Deserialize, Deserializer, Serialize, Serializer};

/// A byte string that serialises as a hex string (keeps replay files readable).
#[derive(Clone, PartialEq, Eq, Hash, PartialOrd, Ord, Default)]
pub struct B(pub Vec<u8>);

impl std::fmt::Debug for B {
    fn fmt(&self, f: &mut std::fmt::Formatter<'_>) -> std::fmt::Result {
        if self.0.len() > 24 {
            write!(f, "x{}…[{}]", crate::engine::hex(&self.0[..24]), self.0.len())
        } else {
            write!(f, "x{}", crate::engine::hex(&self.0))
        }
    }
}

impl Serialize for B {
    fn serialize<S: Serializer>(&self, s: S) -> Result<S::Ok, S::Error> {
        s.serialize_str(&crate::engine::hex(&self.0))
    }
}

impl<'de> Deserialize<'de> for B {
    fn deserialize<D: Deserializer<'de>>(d: D) -> Result<B, D::Error> {
        let s = String::deserialize(d)?;
        Ok(B(crate::engine::unhex(&s)))
    }
}

impl From<&[u8]> for B {
    fn from(v: &[u8]) -> B {
        B(v.to_vec())
    }
}
impl From<Vec<u8>> for B {
    fn from(v: Vec<u8>) -> B {
        B(v)
    }
}

/// A domain name as a list of labels (root = empty list).
#[derive(Clone, PartialEq, Eq, Hash, PartialOrd, Ord, Default, Serialize, Deserialize)]
pub struct RefName(pub Vec<B>);

impl std::fmt::Debug for RefName {
    fn fmt(&self, f: &mut std::fmt::Formatter<'_>) -> std::fmt::Result {
        if self.0.is_empty() {
            return write!(f, "<root>");
        }
        let parts: Vec<String> = self
            .0
            .iter()
            .map(|l| {
                if l.0.len() <= 12 && l.0.iter().all(|c| c.is_ascii_graphic() && *c != b'.') {
                    String::from_utf8_lossy(&l.0).to_string()
                } else {
                    format!("{:?}", l)
                }
            })
            .collect();
        write!(f, "{}", parts.join("."))
    }
}

impl RefName {
    pub fn root() -> RefName {
        RefName(vec![])
    }
    /// from dotted ascii text (no escapes), for readable generators
    pub fn txt(s: &str) -> RefName {
        RefName(s.split('.').filter(|l| !l.is_empty()).map(|l| B(l.as_bytes().to_vec())).collect())
    }
    pub fn wire_len(&self) -> usize {
        self.0.iter().map(|l| l.0.len() + 1).sum::<usize>() + 1
    }
    pub fn encode(&self, out: &mut Vec<u8>) {
        for l in &self.0 {
            out.push(l.0.len() as u8);
            out.extend_from_slice(&l.0);
        }
        out.push(0);
    }
    pub fn is_wire_valid(&self) -> bool {
        self.0.iter().all(|l| !l.0.is_empty() && l.0.len() <= 63) && self.wire_len() <= 255
    }
    /// label-wise strict subdomain
    pub fn is_strict_subdomain_of(&self, other: &RefName) -> bool {
        self.0.len() > other.0.len() && self.0[self.0.len() - other.0.len()..] == other.0[..]
    }
}

/// Validate the reference schemas against ground truth that does not come from this harness:
/// the dnspython-generated sample records shipped with the repository must decode under the
/// reference decoder and re-encode byte for byte. Returns (files checked, records checked).
pub fn selfcheck_samples() -> Result<(usize, usize), String> {
    let dir = format!("{}/refdata/zonefile", std::env::var("VERIF_ROOT").unwrap_or_else(|_| "/verif".into()));
    let dir = dir.as_str();
    let rd = std::fs::read_dir(dir).map_err(|e| format!("{}: {}", dir, e))?;
    let mut files = 0;
    let mut recs = 0;
    for e in rd.flatten() {
        let path = e.path();
        let data = std::fs::read(&path).map_err(|e| format!("{:?}: {}", path, e))?;
        // count the records by trying increasing ANCOUNT until the walker consumes the file
        let mut ok = false;
        for n in 1..=64u16 {
            let mut msg = vec![0, 0, 0x80, 0, 0, 0];
            msg.extend_from_slice(&n.to_be_bytes());
            msg.extend_from_slice(&[0, 0, 0, 0]);
            msg.extend_from_slice(&data);
            match wire::walk(&msg) {
                Ok(w) if w.end == msg.len() => {
                    let (p, _) = packet::decode_packet(&msg).map_err(|e| format!("{:?}: reference decoder fails: {:?}", path, e))?;
                    let mut out = Vec::new();
                    for r in &p.answers {
                        packet::encode_rr(r, &mut out);
                    }
                    if out != data {
                        return Err(format!("{:?}: reference re-encoding differs from the sample", path));
                    }
                    recs += p.answers.len();
                    ok = true;
                    break;
                }
                Ok(_) => continue,
                Err(_) => continue,
            }
        }
        if !ok {
            return Err(format!("{:?}: sample does not walk as 1..=64 records", path));
        }
        files += 1;
    }
    if files == 0 {
        return Err("no sample files found".into());
    }
    Ok((files, recs))
}
