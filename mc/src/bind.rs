//! Binding between the reference packet model and the library's public types:
//! `observe` reads every public field / accessor of a library value into a `RefPacket`,
//! `to_lib` builds a library value from a `RefPacket` through public constructors only.

use crate::refmodel::packet::*;
use crate::refmodel::schema::{Gw, Val};
use crate::refmodel::{RefName, B};
use simple_dns::rdata::{self as rd, RData};
use simple_dns::{
    CharacterString, Label, Name, Packet, PacketFlag, Question, ResourceRecord, CLASS, OPCODE, QCLASS, QTYPE,
    RCODE, TYPE,
};
use std::borrow::Cow;
use std::net::{Ipv4Addr, Ipv6Addr};

/// (library flag constant, RFC 1035 bit) — the RFC side is ours.
pub fn flag_table() -> [(PacketFlag, u16); 7] {
    [
        (PacketFlag::RESPONSE, F_QR),
        (PacketFlag::AUTHORITATIVE_ANSWER, F_AA),
        (PacketFlag::TRUNCATION, F_TC),
        (PacketFlag::RECURSION_DESIRED, F_RD),
        (PacketFlag::RECURSION_AVAILABLE, F_RA),
        (PacketFlag::AUTHENTIC_DATA, F_AD),
        (PacketFlag::CHECKING_DISABLED, F_CD),
    ]
}

pub fn lib_flags(bits: u16) -> PacketFlag {
    let mut f = PacketFlag::empty();
    for (lf, b) in flag_table() {
        if bits & b != 0 {
            f |= lf;
        }
    }
    f
}

pub fn opcode_num(o: OPCODE) -> u8 {
    match o {
        OPCODE::StandardQuery => 0,
        OPCODE::InverseQuery => 1,
        OPCODE::ServerStatusRequest => 2,
        OPCODE::Notify => 4,
        OPCODE::Update => 5,
        OPCODE::Reserved => OPCODE_RESERVED,
        // a variant this harness does not know (the enum grew): the number the library writes for it
        #[allow(unreachable_patterns)]
        other => {
            let mut p = Packet::new_query(0);
            *p.opcode_mut() = other;
            p.build_bytes_vec().map(|b| (b[2] >> 3) & 0xf).unwrap_or(OPCODE_RESERVED)
        }
    }
}

pub fn lib_opcode(n: u8) -> OPCODE {
    match n {
        0 => OPCODE::StandardQuery,
        1 => OPCODE::InverseQuery,
        2 => OPCODE::ServerStatusRequest,
        4 => OPCODE::Notify,
        5 => OPCODE::Update,
        _ => OPCODE::Reserved,
    }
}

pub fn rcode_num(r: RCODE) -> u16 {
    match r {
        RCODE::NoError => 0,
        RCODE::FormatError => 1,
        RCODE::ServerFailure => 2,
        RCODE::NameError => 3,
        RCODE::NotImplemented => 4,
        RCODE::Refused => 5,
        RCODE::YXDOMAIN => 6,
        RCODE::YXRRSET => 7,
        RCODE::NXRRSET => 8,
        RCODE::NOTAUTH => 9,
        RCODE::NOTZONE => 10,
        RCODE::BADVERS => 16,
        RCODE::Reserved => RCODE_RESERVED,
        // a variant this harness does not know (the enum grew): the 12-bit number the library writes for it
        #[allow(unreachable_patterns)]
        other => {
            let mut p = Packet::new_reply(0);
            *p.rcode_mut() = other;
            *p.opt_mut() = Some(rd::OPT { opt_codes: vec![], udp_packet_size: 512, version: 0 });
            match p.build_bytes_vec() {
                Ok(b) if b.len() >= 23 => ((b[b.len() - 6] as u16) << 4) | (b[3] & 0xf) as u16,
                _ => RCODE_RESERVED,
            }
        }
    }
}

pub fn lib_rcode(n: u16) -> RCODE {
    match n {
        0 => RCODE::NoError,
        1 => RCODE::FormatError,
        2 => RCODE::ServerFailure,
        3 => RCODE::NameError,
        4 => RCODE::NotImplemented,
        5 => RCODE::Refused,
        6 => RCODE::YXDOMAIN,
        7 => RCODE::YXRRSET,
        8 => RCODE::NXRRSET,
        9 => RCODE::NOTAUTH,
        10 => RCODE::NOTZONE,
        16 => RCODE::BADVERS,
        _ => RCODE::Reserved,
    }
}

/// IANA numbers for the library's TYPE mnemonics (our table, not the library's).
pub fn type_num(t: TYPE) -> u16 {
    match t {
        TYPE::A => 1,
        TYPE::NS => 2,
        TYPE::MD => 3,
        TYPE::MF => 4,
        TYPE::CNAME => 5,
        TYPE::SOA => 6,
        TYPE::MB => 7,
        TYPE::MG => 8,
        TYPE::MR => 9,
        TYPE::NULL => 10,
        TYPE::WKS => 11,
        TYPE::PTR => 12,
        TYPE::HINFO => 13,
        TYPE::MINFO => 14,
        TYPE::MX => 15,
        TYPE::TXT => 16,
        TYPE::RP => 17,
        TYPE::AFSDB => 18,
        TYPE::ISDN => 20,
        TYPE::RouteThrough => 21,
        TYPE::NSAP => 22,
        TYPE::NSAP_PTR => 23,
        TYPE::AAAA => 28,
        TYPE::LOC => 29,
        TYPE::SRV => 33,
        TYPE::NAPTR => 35,
        TYPE::KX => 36,
        TYPE::CERT => 37,
        TYPE::OPT => 41,
        TYPE::DS => 43,
        TYPE::IPSECKEY => 45,
        TYPE::RRSIG => 46,
        TYPE::NSEC => 47,
        TYPE::DNSKEY => 48,
        TYPE::DHCID => 49,
        TYPE::ZONEMD => 63,
        TYPE::SVCB => 64,
        TYPE::HTTPS => 65,
        TYPE::EUI48 => 108,
        TYPE::EUI64 => 109,
        TYPE::CAA => 257,
        TYPE::Unknown(x) => x,
        other => u16::from(other),
    }
}

/// true when the library maps this TYPE code to `Unknown`: records under it are opaque
pub fn library_has_no_variant_for(code: u16) -> bool {
    TYPE::from(code) == TYPE::Unknown(code)
}

pub fn lib_type(n: u16) -> TYPE {
    match n {
        1 => TYPE::A,
        2 => TYPE::NS,
        3 => TYPE::MD,
        4 => TYPE::MF,
        5 => TYPE::CNAME,
        6 => TYPE::SOA,
        7 => TYPE::MB,
        8 => TYPE::MG,
        9 => TYPE::MR,
        10 => TYPE::NULL,
        11 => TYPE::WKS,
        12 => TYPE::PTR,
        13 => TYPE::HINFO,
        14 => TYPE::MINFO,
        15 => TYPE::MX,
        16 => TYPE::TXT,
        17 => TYPE::RP,
        18 => TYPE::AFSDB,
        20 => TYPE::ISDN,
        21 => TYPE::RouteThrough,
        22 => TYPE::NSAP,
        23 => TYPE::NSAP_PTR,
        28 => TYPE::AAAA,
        29 => TYPE::LOC,
        33 => TYPE::SRV,
        35 => TYPE::NAPTR,
        36 => TYPE::KX,
        37 => TYPE::CERT,
        41 => TYPE::OPT,
        43 => TYPE::DS,
        45 => TYPE::IPSECKEY,
        46 => TYPE::RRSIG,
        47 => TYPE::NSEC,
        48 => TYPE::DNSKEY,
        49 => TYPE::DHCID,
        63 => TYPE::ZONEMD,
        64 => TYPE::SVCB,
        65 => TYPE::HTTPS,
        108 => TYPE::EUI48,
        109 => TYPE::EUI64,
        257 => TYPE::CAA,
        // not in this harness' table: whatever the library maps the code to (Unknown(x), or a
        // mnemonic it has grown; C18 checks that the mapping round-trips for every code)
        x => TYPE::from(x),
    }
}

pub fn class_num(c: CLASS) -> u16 {
    match c {
        CLASS::IN => 1,
        CLASS::CS => 2,
        CLASS::CH => 3,
        CLASS::HS => 4,
        CLASS::NONE => 254,
        #[allow(unreachable_patterns)]
        other => other as u16,
    }
}

pub fn lib_class(n: u16) -> Option<CLASS> {
    Some(match n {
        1 => CLASS::IN,
        2 => CLASS::CS,
        3 => CLASS::CH,
        4 => CLASS::HS,
        254 => CLASS::NONE,
        _ => return None,
    })
}

pub fn qtype_num(q: QTYPE) -> u16 {
    match q {
        QTYPE::TYPE(t) => type_num(t),
        QTYPE::IXFR => 251,
        QTYPE::AXFR => 252,
        QTYPE::MAILB => 253,
        QTYPE::MAILA => 254,
        QTYPE::ANY => 255,
        #[allow(unreachable_patterns)]
        other => u16::from(other),
    }
}

pub fn lib_qtype(n: u16) -> QTYPE {
    match n {
        251 => QTYPE::IXFR,
        252 => QTYPE::AXFR,
        253 => QTYPE::MAILB,
        254 => QTYPE::MAILA,
        255 => QTYPE::ANY,
        x => QTYPE::TYPE(lib_type(x)),
    }
}

pub fn qclass_num(q: QCLASS) -> u16 {
    match q {
        QCLASS::CLASS(c) => class_num(c),
        QCLASS::ANY => 255,
        #[allow(unreachable_patterns)]
        other => u16::from(other),
    }
}

pub fn lib_qclass(n: u16) -> Option<QCLASS> {
    if n == 255 {
        Some(QCLASS::ANY)
    } else {
        lib_class(n).map(QCLASS::CLASS)
    }
}

// ---------------------------------------------------------------------------------------------
// observe

pub fn obs_name(n: &Name) -> RefName {
    RefName(n.get_labels().iter().map(|l| B(l.verif_bytes().to_vec())).collect())
}

fn vn(n: &Name) -> Val {
    Val::Name(obs_name(n))
}
fn vs(s: &CharacterString) -> Val {
    Val::Str(B(s.verif_bytes().to_vec()))
}
fn vt(b: &[u8]) -> Val {
    Val::Tail(B(b.to_vec()))
}

pub fn obs_opt(o: &rd::OPT) -> RefOpt {
    RefOpt {
        udp: o.udp_packet_size,
        version: o.version,
        options: o.opt_codes.iter().map(|c| (c.code, B(c.data.to_vec()))).collect(),
    }
}

fn obs_svcb(s: &rd::SVCB) -> Vec<Val> {
    vec![
        Val::U16(s.priority),
        vn(&s.target),
        Val::Params(s.iter_params().map(|(k, v)| (k, B(v.to_vec()))).collect()),
    ]
}

pub fn obs_rdata(r: &RData) -> RefRData {
    let t = |code: u16, vals: Vec<Val>| RefRData::Typed { code, vals };
    match r {
        RData::A(a) => t(1, vec![Val::U32(a.address)]),
        RData::AAAA(a) => t(28, vec![Val::Fixed(B(a.address.to_be_bytes().to_vec()))]),
        RData::NS(n) => t(2, vec![vn(&n.0)]),
        RData::MD(n) => t(3, vec![vn(&n.0)]),
        RData::MF(n) => t(4, vec![vn(&n.0)]),
        RData::CNAME(n) => t(5, vec![vn(&n.0)]),
        RData::MB(n) => t(7, vec![vn(&n.0)]),
        RData::MG(n) => t(8, vec![vn(&n.0)]),
        RData::MR(n) => t(9, vec![vn(&n.0)]),
        RData::PTR(n) => t(12, vec![vn(&n.0)]),
        RData::NSAP_PTR(n) => t(23, vec![vn(&n.0)]),
        RData::HINFO(h) => t(13, vec![vs(&h.cpu), vs(&h.os)]),
        RData::MINFO(m) => t(14, vec![vn(&m.rmailbox), vn(&m.emailbox)]),
        RData::MX(m) => t(15, vec![Val::U16(m.preference), vn(&m.exchange)]),
        RData::TXT(x) => t(16, vec![Val::Strs(x.verif_strings().into_iter().map(|s| B(s.to_vec())).collect())]),
        RData::SOA(s) => t(
            6,
            vec![
                vn(&s.mname),
                vn(&s.rname),
                Val::U32(s.serial),
                Val::I32(s.refresh),
                Val::I32(s.retry),
                Val::I32(s.expire),
                Val::U32(s.minimum),
            ],
        ),
        RData::WKS(w) => t(11, vec![Val::U32(w.address), Val::U8(w.protocol), vt(&w.bit_map)]),
        RData::SRV(s) => t(33, vec![Val::U16(s.priority), Val::U16(s.weight), Val::U16(s.port), vn(&s.target)]),
        RData::RP(r) => t(17, vec![vn(&r.mbox), vn(&r.txt)]),
        RData::AFSDB(a) => t(18, vec![Val::U16(a.subtype), vn(&a.hostname)]),
        RData::ISDN(i) => t(20, vec![vs(&i.address), vs(&i.sa)]),
        RData::RouteThrough(r) => t(21, vec![Val::U16(r.preference), vn(&r.intermediate_host)]),
        RData::NAPTR(n) => t(
            35,
            vec![
                Val::U16(n.order),
                Val::U16(n.preference),
                vs(&n.flags),
                vs(&n.services),
                vs(&n.regexp),
                vn(&n.replacement),
            ],
        ),
        RData::NSAP(n) => t(
            22,
            vec![
                Val::U8(n.afi),
                Val::U16(n.idi),
                Val::U8(n.dfi),
                Val::U24(n.aa),
                Val::U16(n.rsvd),
                Val::U16(n.rd),
                Val::U16(n.area),
                Val::U48(n.id),
                Val::U8(n.sel),
            ],
        ),
        RData::LOC(l) => t(
            29,
            vec![
                Val::U8(l.version),
                Val::U8(l.size),
                Val::U8(l.horizontal_precision),
                Val::U8(l.vertical_precision),
                Val::I32(l.latitude),
                Val::I32(l.longitude),
                Val::I32(l.altitude),
            ],
        ),
        RData::OPT(o) => RefRData::StrayOpt(obs_opt(o)),
        RData::CAA(c) => t(257, vec![Val::U8(c.flag), vs(&c.tag), vt(&c.value)]),
        RData::SVCB(s) => t(64, obs_svcb(s)),
        RData::HTTPS(s) => t(65, obs_svcb(&s.0)),
        RData::EUI48(e) => t(108, vec![Val::Fixed(B(e.address.to_vec()))]),
        RData::EUI64(e) => t(109, vec![Val::Fixed(B(e.address.to_vec()))]),
        RData::CERT(c) => {
            t(37, vec![Val::U16(c.type_code), Val::U16(c.key_tag), Val::U8(c.algorithm), vt(&c.certificate)])
        }
        RData::ZONEMD(z) => t(63, vec![Val::U32(z.serial), Val::U8(z.scheme), Val::U8(z.algorithm), vt(&z.digest)]),
        RData::KX(k) => t(36, vec![Val::U16(k.preference), vn(&k.exchanger)]),
        RData::IPSECKEY(i) => t(
            45,
            vec![
                Val::U8(i.precedence),
                Val::U8(i.algorithm),
                Val::Gateway(match &i.gateway {
                    rd::Gateway::None => Gw::None,
                    rd::Gateway::IPv4(a) => Gw::V4(a.octets()),
                    rd::Gateway::IPv6(a) => Gw::V6(B(a.octets().to_vec())),
                    rd::Gateway::Domain(n) => Gw::Domain(obs_name(n)),
                }),
                vt(&i.public_key),
            ],
        ),
        RData::DNSKEY(d) => {
            t(48, vec![Val::U16(d.flags), Val::U8(d.protocol), Val::U8(d.algorithm), vt(&d.public_key)])
        }
        RData::RRSIG(r) => t(
            46,
            vec![
                Val::U16(r.type_covered),
                Val::U8(r.algorithm),
                Val::U8(r.labels),
                Val::U32(r.original_ttl),
                Val::U32(r.signature_expiration),
                Val::U32(r.signature_inception),
                Val::U16(r.key_tag),
                vn(&r.signer_name),
                vt(&r.signature),
            ],
        ),
        RData::DS(d) => t(43, vec![Val::U16(d.key_tag), Val::U8(d.algorithm), Val::U8(d.digest_type), vt(&d.digest)]),
        RData::NSEC(n) => t(
            47,
            vec![
                vn(&n.next_name),
                Val::Windows(n.type_bit_maps.iter().map(|w| (w.window_block, B(w.bitmap.to_vec()))).collect()),
            ],
        ),
        RData::DHCID(d) => t(49, vec![Val::U16(d.identifier), Val::U8(d.digest_type), vt(&d.digest)]),
        RData::NULL(code, n) => RefRData::Opaque { code: *code, data: B(n.get_data().to_vec()) },
        RData::Empty(ty) => RefRData::Empty { code: type_num(*ty) },
        // a record type this harness has no schema for (the enum grew): its code, content not observed
        #[allow(unreachable_patterns)]
        other => RefRData::Opaque { code: type_num(other.type_code()), data: B(format!("{:?}", other).into_bytes()) },
    }
}

pub fn obs_rr(r: &ResourceRecord) -> RefRR {
    RefRR {
        name: obs_name(&r.name),
        class: class_num(r.class),
        cache_flush: r.cache_flush,
        ttl: r.ttl,
        rdata: obs_rdata(&r.rdata),
    }
}

pub fn obs_q(q: &Question) -> RefQ {
    RefQ {
        name: obs_name(&q.qname),
        qtype: qtype_num(q.qtype),
        qclass: qclass_num(q.qclass),
        unicast: q.unicast_response,
    }
}

pub fn observe(p: &Packet) -> RefPacket {
    let mut flags = 0u16;
    for (lf, b) in flag_table() {
        if p.has_flags(lf) {
            flags |= b;
        }
    }
    RefPacket {
        id: p.id(),
        flags,
        opcode: opcode_num(p.opcode()),
        rcode: rcode_num(p.rcode()),
        opt: p.opt().map(obs_opt),
        questions: p.questions.iter().map(obs_q).collect(),
        answers: p.answers.iter().map(obs_rr).collect(),
        authority: p.name_servers.iter().map(obs_rr).collect(),
        additional: p.additional_records.iter().map(obs_rr).collect(),
    }
}

// ---------------------------------------------------------------------------------------------
// construct

pub fn lib_name(n: &RefName) -> Name<'_> {
    let labels: Vec<Label> = n.0.iter().map(|l| Label::new_unchecked(&l.0[..])).collect();
    Name::new_with_labels(&labels)
}

fn cs(b: &B) -> Result<CharacterString<'_>, String> {
    CharacterString::new(&b.0).map_err(|e| format!("CharacterString::new: {:?}", e))
}

fn cow(b: &B) -> Cow<'_, [u8]> {
    Cow::Borrowed(&b.0[..])
}

macro_rules! get {
    ($vals:expr, $i:expr, $var:ident) => {
        match &$vals[$i] {
            Val::$var(x) => x,
            other => return Err(format!("field {} has wrong kind {:?}", $i, other)),
        }
    };
}

fn lib_svcb<'a>(vals: &'a [Val]) -> Result<rd::SVCB<'a>, String> {
    let mut s = rd::SVCB::new(*get!(vals, 0, U16), lib_name(get!(vals, 1, Name)));
    for (k, v) in get!(vals, 2, Params) {
        s.set_param(*k, &v.0[..]).map_err(|e| format!("set_param: {:?}", e))?;
    }
    Ok(s)
}

pub fn lib_opt(o: &RefOpt) -> rd::OPT<'_> {
    rd::OPT {
        opt_codes: o.options.iter().map(|(c, d)| rd::OPTCode { code: *c, data: cow(d) }).collect(),
        udp_packet_size: o.udp,
        version: o.version,
    }
}

pub fn lib_rdata(r: &RefRData) -> Result<RData<'_>, String> {
    let (code, v) = match r {
        RefRData::Empty { code } => return Ok(RData::Empty(lib_type(*code))),
        RefRData::Opaque { code, data } => {
            return Ok(RData::NULL(*code, rd::NULL::new(&data.0).map_err(|e| format!("NULL::new: {:?}", e))?))
        }
        RefRData::StrayOpt(o) => return Ok(RData::OPT(lib_opt(o))),
        RefRData::Typed { code, vals } => (*code, &vals[..]),
    };
    let n = |i: usize| -> Result<Name, String> {
        match &v[i] {
            Val::Name(x) => Ok(lib_name(x)),
            o => Err(format!("field {} not a name: {:?}", i, o)),
        }
    };
    Ok(match code {
        1 => RData::A(rd::A { address: *get!(v, 0, U32) }),
        28 => {
            let b = get!(v, 0, Fixed);
            let mut a = [0u8; 16];
            a.copy_from_slice(&b.0);
            RData::AAAA(rd::AAAA { address: u128::from_be_bytes(a) })
        }
        2 => RData::NS(rd::NS(n(0)?)),
        3 => RData::MD(rd::MD(n(0)?)),
        4 => RData::MF(rd::MF(n(0)?)),
        5 => RData::CNAME(rd::CNAME(n(0)?)),
        7 => RData::MB(rd::MB(n(0)?)),
        8 => RData::MG(rd::MG(n(0)?)),
        9 => RData::MR(rd::MR(n(0)?)),
        12 => RData::PTR(rd::PTR(n(0)?)),
        23 => RData::NSAP_PTR(rd::NSAP_PTR(n(0)?)),
        13 => RData::HINFO(rd::HINFO { cpu: cs(get!(v, 0, Str))?, os: cs(get!(v, 1, Str))? }),
        14 => RData::MINFO(rd::MINFO { rmailbox: n(0)?, emailbox: n(1)? }),
        15 => RData::MX(rd::MX { preference: *get!(v, 0, U16), exchange: n(1)? }),
        16 => {
            let mut t = rd::TXT::new();
            for s in get!(v, 0, Strs) {
                t.add_char_string(cs(s)?);
            }
            RData::TXT(t)
        }
        6 => RData::SOA(rd::SOA {
            mname: n(0)?,
            rname: n(1)?,
            serial: *get!(v, 2, U32),
            refresh: *get!(v, 3, I32),
            retry: *get!(v, 4, I32),
            expire: *get!(v, 5, I32),
            minimum: *get!(v, 6, U32),
        }),
        11 => RData::WKS(rd::WKS {
            address: *get!(v, 0, U32),
            protocol: *get!(v, 1, U8),
            bit_map: cow(get!(v, 2, Tail)),
        }),
        33 => RData::SRV(rd::SRV {
            priority: *get!(v, 0, U16),
            weight: *get!(v, 1, U16),
            port: *get!(v, 2, U16),
            target: n(3)?,
        }),
        17 => RData::RP(rd::RP { mbox: n(0)?, txt: n(1)? }),
        18 => RData::AFSDB(rd::AFSDB { subtype: *get!(v, 0, U16), hostname: n(1)? }),
        20 => RData::ISDN(rd::ISDN { address: cs(get!(v, 0, Str))?, sa: cs(get!(v, 1, Str))? }),
        21 => RData::RouteThrough(rd::RouteThrough { preference: *get!(v, 0, U16), intermediate_host: n(1)? }),
        35 => RData::NAPTR(rd::NAPTR {
            order: *get!(v, 0, U16),
            preference: *get!(v, 1, U16),
            flags: cs(get!(v, 2, Str))?,
            services: cs(get!(v, 3, Str))?,
            regexp: cs(get!(v, 4, Str))?,
            replacement: n(5)?,
        }),
        22 => RData::NSAP(rd::NSAP {
            afi: *get!(v, 0, U8),
            idi: *get!(v, 1, U16),
            dfi: *get!(v, 2, U8),
            aa: *get!(v, 3, U24),
            rsvd: *get!(v, 4, U16),
            rd: *get!(v, 5, U16),
            area: *get!(v, 6, U16),
            id: *get!(v, 7, U48),
            sel: *get!(v, 8, U8),
        }),
        29 => RData::LOC(rd::LOC {
            version: *get!(v, 0, U8),
            size: *get!(v, 1, U8),
            horizontal_precision: *get!(v, 2, U8),
            vertical_precision: *get!(v, 3, U8),
            latitude: *get!(v, 4, I32),
            longitude: *get!(v, 5, I32),
            altitude: *get!(v, 6, I32),
        }),
        257 => RData::CAA(rd::CAA { flag: *get!(v, 0, U8), tag: cs(get!(v, 1, Str))?, value: cow(get!(v, 2, Tail)) }),
        64 => RData::SVCB(lib_svcb(v)?),
        65 => RData::HTTPS(rd::HTTPS(lib_svcb(v)?)),
        108 => {
            let mut a = [0u8; 6];
            a.copy_from_slice(&get!(v, 0, Fixed).0);
            RData::EUI48(rd::EUI48 { address: a })
        }
        109 => {
            let mut a = [0u8; 8];
            a.copy_from_slice(&get!(v, 0, Fixed).0);
            RData::EUI64(rd::EUI64 { address: a })
        }
        37 => RData::CERT(rd::CERT {
            type_code: *get!(v, 0, U16),
            key_tag: *get!(v, 1, U16),
            algorithm: *get!(v, 2, U8),
            certificate: cow(get!(v, 3, Tail)),
        }),
        63 => RData::ZONEMD(rd::ZONEMD {
            serial: *get!(v, 0, U32),
            scheme: *get!(v, 1, U8),
            algorithm: *get!(v, 2, U8),
            digest: cow(get!(v, 3, Tail)),
        }),
        36 => RData::KX(rd::KX { preference: *get!(v, 0, U16), exchanger: n(1)? }),
        45 => RData::IPSECKEY(rd::IPSECKEY {
            precedence: *get!(v, 0, U8),
            algorithm: *get!(v, 1, U8),
            gateway: match get!(v, 2, Gateway) {
                Gw::None => rd::Gateway::None,
                Gw::V4(a) => rd::Gateway::IPv4(Ipv4Addr::from(*a)),
                Gw::V6(a) => {
                    let mut o = [0u8; 16];
                    o.copy_from_slice(&a.0);
                    rd::Gateway::IPv6(Ipv6Addr::from(o))
                }
                Gw::Domain(nm) => rd::Gateway::Domain(lib_name(nm)),
            },
            public_key: cow(get!(v, 3, Tail)),
        }),
        48 => RData::DNSKEY(rd::DNSKEY {
            flags: *get!(v, 0, U16),
            protocol: *get!(v, 1, U8),
            algorithm: *get!(v, 2, U8),
            public_key: cow(get!(v, 3, Tail)),
        }),
        46 => RData::RRSIG(rd::RRSIG {
            type_covered: *get!(v, 0, U16),
            algorithm: *get!(v, 1, U8),
            labels: *get!(v, 2, U8),
            original_ttl: *get!(v, 3, U32),
            signature_expiration: *get!(v, 4, U32),
            signature_inception: *get!(v, 5, U32),
            key_tag: *get!(v, 6, U16),
            signer_name: n(7)?,
            signature: cow(get!(v, 8, Tail)),
        }),
        43 => RData::DS(rd::DS {
            key_tag: *get!(v, 0, U16),
            algorithm: *get!(v, 1, U8),
            digest_type: *get!(v, 2, U8),
            digest: cow(get!(v, 3, Tail)),
        }),
        47 => RData::NSEC(rd::NSEC {
            next_name: n(0)?,
            type_bit_maps: get!(v, 1, Windows)
                .iter()
                .map(|(w, b)| rd::TypeBitMap { window_block: *w, bitmap: cow(b) })
                .collect(),
        }),
        49 => RData::DHCID(rd::DHCID {
            identifier: *get!(v, 0, U16),
            digest_type: *get!(v, 1, U8),
            digest: cow(get!(v, 2, Tail)),
        }),
        other => return Err(format!("no constructor for type {}", other)),
    })
}

pub fn lib_rr(r: &RefRR) -> Result<ResourceRecord<'_>, String> {
    let class = lib_class(r.class).ok_or_else(|| format!("class {} not constructible", r.class))?;
    Ok(ResourceRecord::new(lib_name(&r.name), class, r.ttl, lib_rdata(&r.rdata)?).with_cache_flush(r.cache_flush))
}

pub fn lib_q(q: &RefQ) -> Result<Question<'_>, String> {
    let qc = lib_qclass(q.qclass).ok_or_else(|| format!("qclass {} not constructible", q.qclass))?;
    Ok(Question::new(lib_name(&q.name), lib_qtype(q.qtype), qc, q.unicast))
}

/// Build a library packet from the reference description through public constructors.
pub fn to_lib(p: &RefPacket) -> Result<Packet<'_>, String> {
    let mut out = if p.flags & F_QR != 0 { Packet::new_reply(p.id) } else { Packet::new_query(p.id) };
    out.set_flags(lib_flags(p.flags));
    *out.opcode_mut() = lib_opcode(p.opcode);
    *out.rcode_mut() = lib_rcode(p.rcode);
    if let Some(o) = &p.opt {
        *out.opt_mut() = Some(lib_opt(o));
    }
    for q in &p.questions {
        out.questions.push(lib_q(q)?);
    }
    for r in &p.answers {
        out.answers.push(lib_rr(r)?);
    }
    for r in &p.authority {
        out.name_servers.push(lib_rr(r)?);
    }
    for r in &p.additional {
        out.additional_records.push(lib_rr(r)?);
    }
    Ok(out)
}
