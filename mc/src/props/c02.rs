//! C02 — build then parse returns the same packet.
//! Deviation-bounded product over the reference packet space; every packet is built through
//! public constructors, serialised without compression, parsed, observed and compared field by field.

use super::finding;
use crate::bind::*;
use crate::engine::{guarded, par_shards, Ctx, Finding, Tally};
use crate::gen;
use crate::refmodel::packet::*;
use serde_json::{json, Value};
use simple_dns::Packet;

pub fn check_packet(p: &RefPacket) -> Vec<Finding> {
    let mk = || json!({"kind": "packet", "packet": p});
    let r = guarded(|| -> Result<RefPacket, (String, String)> {
        let l = to_lib(p).map_err(|e| ("construct".to_string(), e))?;
        let bytes = l.build_bytes_vec().map_err(|e| ("build-error".to_string(), format!("build_bytes_vec failed: {:?}", e)))?;
        let q = Packet::parse(&bytes).map_err(|e| ("reparse-error".to_string(), format!("own output rejected: {:?}; bytes {}", e, crate::engine::truncate(&crate::engine::hex(&bytes), 400))))?;
        Ok(observe(&q))
    });
    match r {
        Err(pn) => vec![finding(format!("C02|{}", pn.sig()), format!("{:?}", pn), mk())],
        Ok(Err((tag, d))) => {
            let ty = first_type(p);
            vec![finding(format!("C02|{}|{}", tag, ty), d, mk())]
        }
        Ok(Ok(o)) => diff(p, &o).into_iter().map(|(tag, d)| finding(format!("C02|{}", tag), d, mk())).collect(),
    }
}

fn first_type(p: &RefPacket) -> String {
    p.answers
        .iter()
        .chain(p.authority.iter())
        .chain(p.additional.iter())
        .next()
        .map(|r| crate::refmodel::schema::schema(r.rdata.code()).map(|s| s.mnemonic.to_string()).unwrap_or_else(|| format!("TYPE{}", r.rdata.code())))
        .unwrap_or_else(|| "none".into())
}

pub fn run(ctx: &Ctx) {
    let thorough = ctx.tier == crate::engine::Tier::Thorough;
    ctx.set_rule("reference packets: header family (128 flag subsets, named opcodes x rcodes x OPT), every typed record with <= 2 deviations (wider domains in the thorough tier) plus envelope deviations (class, cache-flush, TTL, owner name incl. binary labels and maximal lengths), unknown/NULL/empty RDATA, every question type/class/unicast, all section shapes 0..=2 (0..=3 thorough) entries per section with and without OPT; built via constructors, build_bytes_vec, parse, observed and compared field by field. non-trivial = packet has at least one question or record");
    ctx.assume("domain: wire-representable values only (labels 1..=63 bytes, names <= 255, strings <= 255, TXT with at least one string, NSEC windows increasing, SVCB keys unique, LOC version 0, rcode > 15 only together with OPT, non-empty opaque RDATA)");
    let mut space = gen::packet_space(2, thorough, if thorough { 3 } else { 2 });
    space.extend(gen::many_and_sized_packets());
    space.extend(gen::size_sweep_packets());
    let n_base = space.len();
    space.extend(gen::cross_family(if thorough { 2 } else { 1 }, thorough));
    let chunks: Vec<&[RefPacket]> = space.chunks(128).collect();
    par_shards(ctx, &chunks, |ps, t: &mut Tally| {
        for p in ps.iter() {
            t.evals += 1;
            if !p.questions.is_empty() || p.sections().iter().any(|s| !s.is_empty()) {
                t.nontrivial += 1;
            }
            let f = check_packet(p);
            t.outcome(if f.is_empty() { "equal" } else { "differs" });
            if !f.is_empty() {
                ctx.violations(f);
            }
        }
    });
    ctx.space("packet space: header family, record family (<= 2 deviations), question family, section shapes", n_base as u64, "complete");
    ctx.space(&format!("cross family: every record with <= {} deviations x 5 classes x cache-flush x 5 TTLs; all ordered pairs of the 39 base records in 3 placements", if thorough { 2 } else { 1 }), (space.len() - n_base) as u64, "complete");
    for i in [200usize, space.len() / 2, space.len() - 1] {
        ctx.sample(json!({"kind": "packet", "packet": space[i.min(space.len() - 1)]}));
    }
}

pub fn replay(case: &Value) -> Vec<Finding> {
    match serde_json::from_value::<RefPacket>(case["packet"].clone()) {
        Ok(p) => check_packet(&p),
        Err(e) => vec![finding("C02|replay-unreadable", format!("{}", e), case.clone())],
    }
}
