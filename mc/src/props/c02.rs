//! C02 — build then parse returns the same packet.
//! Deviation-bounded product over the reference packet space; every packet is built through
//! public constructors, serialised without compression, parsed, observed and compared field by field.

use super::finding;
use crate::bind::*;
use crate::engine::{guarded, par_shards, Ctx, Finding, Tally};
use crate::gen;
use crate::refmodel::packet::*;
use serde_json::{json, Value};
use simple_dns::Packet;

pub fn check_packet(p: &RefPacket) -> Vec<Finding> {
    let mk = || json!({"kind": "packet", "packet": p});
    let r = guarded(|| -> Result<RefPacket, (String, String)> {
        let l = to_lib(p).map_err(|e| ("construct".to_string(), e))?;
        let bytes = l.build_bytes_vec().map_err(|e| ("build-error".to_string(), format!("build_bytes_vec failed: {:?}", e)))?;
        let q = Packet::parse(&bytes).map_err(|e| ("reparse-error".to_string(), format!("own output rejected: {:?}; bytes {}", e, crate::engine::truncate(&crate::engine::hex(&bytes), 400))))?;
        Ok(observe(&q))
    });
    match r {
        Err(pn) => vec![finding(format!("C02|{}", pn.sig()), format!("{:?}", pn), mk())],
        Ok(Err((tag, d))) => {
            let ty = first_type(p);
            vec![finding(format!("C02|{}|{}", tag, ty), d, mk())]
        }
        Ok(Ok(o)) => diff(p, &o).into_iter().map(|(tag, d)| finding(format!("C02|{}", tag), d, mk())).collect(),
    }
}

/// Packets assembled by call sequences that include rejected calls and replacements: a TXT whose
/// add_string / with_string was refused for some strings, an SVCB whose parameters were set more
/// than once, EDNS data set, cleared and set again. What was built must parse back as the final
/// content.
pub fn check_assembled(kind: &str, n: usize) -> Vec<Finding> {
    use crate::refmodel::schema::Val;
    use crate::refmodel::{RefName, B};
    use simple_dns::rdata::{RData, A, SVCB, TXT};
    use simple_dns::{Name, Question, ResourceRecord, CLASS, QCLASS, QTYPE, TYPE};
    let case = json!({"kind": "assembled", "how": kind, "n": n});
    let long = "z".repeat(256 + n * 7);
    let mut want = RefPacket { id: 7, flags: F_QR, ..Default::default() };
    want.questions.push(RefQ { name: RefName::txt("t.example.com"), qtype: 16, qclass: 1, unicast: false });
    let r = guarded(|| -> Result<RefPacket, (String, String)> {
        let e = |s: &str, x: String| (s.to_string(), x);
        let (rdata, vals, code): (RData, Vec<Val>, u16) = match kind {
            "txt-rejected-strings" => {
                let mut t = TXT::new();
                let mut kept: Vec<B> = Vec::new();
                for i in 0..=(n % 6) {
                    if i == n % 3 {
                        if t.add_string(&long).is_ok() {
                            return Err(e("assembled-accepts-over-long", format!("add_string accepted {} bytes", long.len())));
                        }
                    }
                    let s = ["k=v", "", "abc", "flag", "x=y=z", "last"][i];
                    t.add_string(s).map_err(|x| e("construct", format!("{:?}", x)))?;
                    kept.push(B(s.as_bytes().to_vec()));
                }
                match t.clone().with_string(&long) {
                    Err(_) => {}
                    Ok(_) => return Err(e("assembled-accepts-over-long", "with_string accepted an over-long string".to_string())),
                }
                (RData::TXT(t), vec![Val::Strs(kept)], 16)
            }
            _ => {
                let mut s = SVCB::new(1, Name::new_unchecked("svc.example"));
                let mut params: std::collections::BTreeMap<u16, Vec<u8>> = std::collections::BTreeMap::new();
                for step in 0..=(n % 6) {
                    // consecutive steps call the same setter with another value size (a replacement)
                    let k = [2usize, 1, 3, 1, 2, 3][(n / 24 + step) % 6];
                    match (n / 6 + step / 2) % 4 {
                        0 => {
                            s.set_port(k as u16 * 1000);
                            params.insert(3, (k as u16 * 1000).to_be_bytes().to_vec());
                        }
                        1 => {
                            s.set_ipv4hint((0..k as u32).map(|i| 0x0a000001 + i)).map_err(|x| e("construct", format!("{:?}", x)))?;
                            params.insert(4, (0..k as u32).flat_map(|i| (0x0a000001 + i).to_be_bytes()).collect());
                        }
                        2 => {
                            s.set_param(7, vec![0x41u8; k * 9]).map_err(|x| e("construct", format!("{:?}", x)))?;
                            params.insert(7, vec![0x41u8; k * 9]);
                        }
                        _ => {
                            if s.set_param(9, vec![0u8; 70000]).is_ok() {
                                return Err(e("assembled-accepts-over-long", "set_param accepted a 70000-byte value".to_string()));
                            }
                        }
                    }
                }
                let pv: Vec<(u16, B)> = params.into_iter().map(|(k, v)| (k, B(v))).collect();
                (RData::SVCB(s), vec![Val::U16(1), Val::Name(RefName::txt("svc.example")), Val::Params(pv)], 64)
            }
        };
        want.answers.push(RefRR { name: RefName::txt("t.example.com"), class: 1, cache_flush: false, ttl: 60, rdata: RefRData::Typed { code, vals } });
        want.additional.push(RefRR { name: RefName::txt("t.example.com"), class: 1, cache_flush: false, ttl: 61, rdata: RefRData::Typed { code: 1, vals: vec![Val::U32(0x01020304)] } });
        let mut p = Packet::new_reply(7);
        p.questions.push(Question::new(Name::new_unchecked("t.example.com"), QTYPE::TYPE(TYPE::TXT), QCLASS::CLASS(CLASS::IN), false));
        p.answers.push(ResourceRecord::new(Name::new_unchecked("t.example.com"), CLASS::IN, 60, rdata));
        p.additional_records.push(ResourceRecord::new(Name::new_unchecked("t.example.com"), CLASS::IN, 61, RData::A(A { address: 0x01020304 })));
        let bytes = p.build_bytes_vec().map_err(|x| e("build-error", format!("{:?}", x)))?;
        let q = Packet::parse(&bytes).map_err(|x| e("reparse-error", format!("own output rejected: {:?}; bytes {}", x, crate::engine::truncate(&crate::engine::hex(&bytes), 300))))?;
        Ok(observe(&q))
    });
    match r {
        Err(pn) => vec![finding(format!("C02|assembled|{}", pn.sig()), format!("{:?}", pn), case)],
        Ok(Err((tag, d))) => vec![finding(format!("C02|assembled|{}|{}", kind, tag), d, case)],
        Ok(Ok(o)) => diff(&want, &o).into_iter().map(|(tag, d)| finding(format!("C02|assembled|{}|{}", kind, tag), d, case.clone())).collect(),
    }
}

fn first_type(p: &RefPacket) -> String {
    p.answers
        .iter()
        .chain(p.authority.iter())
        .chain(p.additional.iter())
        .next()
        .map(|r| crate::refmodel::schema::schema(r.rdata.code()).map(|s| s.mnemonic.to_string()).unwrap_or_else(|| format!("TYPE{}", r.rdata.code())))
        .unwrap_or_else(|| "none".into())
}

pub fn run(ctx: &Ctx) {
    let thorough = ctx.tier == crate::engine::Tier::Thorough;
    ctx.set_rule("reference packets: header family (128 flag subsets, named opcodes x rcodes x OPT), every typed record with <= 2 deviations (wider domains in the thorough tier) plus envelope deviations (class, cache-flush, TTL, owner name incl. binary labels and maximal lengths), unknown/NULL/empty RDATA, every question type/class/unicast, all section shapes 0..=2 (0..=3 thorough) entries per section with and without OPT; built via constructors, build_bytes_vec, parse, observed and compared field by field. non-trivial = packet has at least one question or record");
    ctx.assume("domain: wire-representable values only (labels 1..=63 bytes, names <= 255, strings <= 255, TXT with at least one string, NSEC windows increasing, SVCB keys unique, LOC version 0, rcode > 15 only together with OPT, non-empty opaque RDATA)");
    let mut space = gen::packet_space(2, thorough, if thorough { 3 } else { 2 });
    space.extend(gen::many_and_sized_packets());
    space.extend(gen::size_sweep_packets());
    for (i, o) in gen::structured_options().into_iter().enumerate() {
        let mut p = RefPacket { id: i as u16, flags: F_QR, opt: Some(RefOpt { udp: 1232, version: 0, options: vec![o] }), ..Default::default() };
        p.questions.push(RefQ { name: crate::refmodel::RefName::txt("example.com"), qtype: 1, qclass: 1, unicast: false });
        space.push(p);
    }
    let n_base = space.len();
    space.extend(gen::cross_family(if thorough { 2 } else { 1 }, thorough));
    let chunks: Vec<&[RefPacket]> = space.chunks(128).collect();
    par_shards(ctx, &chunks, |ps, t: &mut Tally| {
        for p in ps.iter() {
            t.evals += 1;
            if !p.questions.is_empty() || p.sections().iter().any(|s| !s.is_empty()) {
                t.nontrivial += 1;
            }
            let f = check_packet(p);
            t.outcome(if f.is_empty() { "equal" } else { "differs" });
            if !f.is_empty() {
                ctx.violations(f);
            }
        }
    });
    ctx.space("packet space: header family, record family (<= 2 deviations), question family, section shapes", n_base as u64, "complete");
    ctx.space(&format!("cross family: every record with <= {} deviations x 5 classes x cache-flush x 5 TTLs; all ordered pairs of the 39 base records in 3 placements", if thorough { 2 } else { 1 }), (space.len() - n_base) as u64, "complete");
    {
        let mut t = Tally::default();
        let mut n_as = 0u64;
        for kind in ["txt-rejected-strings", "svcb-repeated-setters"] {
            for n in 0..96usize {
                t.evals += 1;
                t.nontrivial += 1;
                n_as += 1;
                let f = check_assembled(kind, n);
                t.outcome(if f.is_empty() { "equal" } else { "differs" });
                ctx.violations(f);
            }
        }
        ctx.merge(t);
        ctx.space("assembled by call sequences with rejected and repeated calls: TXT with over-long strings refused between accepted ones (96 shapes), SVCB with parameters set repeatedly and an over-long value refused (96 shapes)", n_as, "complete");
    }
    {
        // every TYPE code under every class and with the cache-flush bit: a record of a type
        // the reference has a schema for carries its base value, any other code opaque RDATA
        let codes: Vec<u16> = (0..=65535u16).collect();
        let chunks: Vec<&[u16]> = codes.chunks(512).collect();
        let total = std::sync::atomic::AtomicU64::new(0);
        par_shards(ctx, &chunks, |cs, t: &mut Tally| {
            for code in cs.iter() {
                if *code == 41 {
                    continue;
                }
                let rdata = match crate::refmodel::schema::schema(*code) {
                    Some(s) => gen::base_rr(s).rdata,
                    None if crate::bind::library_has_no_variant_for(*code) => RefRData::Opaque { code: *code, data: crate::refmodel::B(vec![(*code >> 8) as u8, *code as u8, 0x5a]) },
                    None => continue,
                };
                for class in [1u16, 2, 3, 4, 254] {
                    for cf in [false, true] {
                        for sect in 0..3 {
                            // the full product for codes near known ones, one section otherwise
                            if sect != (*code as usize + class as usize) % 3 && !(*code < 300 || *code >= 65280 || (32768..32780).contains(code)) {
                                continue;
                            }
                            let mut p = RefPacket { id: *code, flags: F_QR, ..Default::default() };
                            let rec = RefRR { name: crate::refmodel::RefName::txt("t.example"), class, cache_flush: cf, ttl: 0x0001_0203, rdata: rdata.clone() };
                            match sect {
                                0 => p.answers.push(rec),
                                1 => p.authority.push(rec),
                                _ => p.additional.push(rec),
                            }
                            t.evals += 1;
                            t.nontrivial += 1;
                            total.fetch_add(1, std::sync::atomic::Ordering::Relaxed);
                            let f = check_packet(&p);
                            t.outcome(if f.is_empty() { "equal" } else { "differs" });
                            if !f.is_empty() {
                                ctx.violations(f);
                            }
                        }
                    }
                }
            }
        });
        ctx.space("every 16-bit TYPE code (base value of its schema, opaque RDATA where the library has no variant) x 5 classes x cache-flush bit, in one section (all three for codes below 300, private-use and around 32768)", total.load(std::sync::atomic::Ordering::Relaxed), "complete");
    }
    for i in [200usize, space.len() / 2, space.len() - 1] {
        ctx.sample(json!({"kind": "packet", "packet": space[i.min(space.len() - 1)]}));
    }
}

pub fn replay(case: &Value) -> Vec<Finding> {
    if case["kind"].as_str() == Some("assembled") {
        return check_assembled(case["how"].as_str().unwrap_or(""), case["n"].as_u64().unwrap_or(0) as usize);
    }
    match serde_json::from_value::<RefPacket>(case["packet"].clone()) {
        Ok(p) => check_packet(&p),
        Err(e) => vec![finding("C02|replay-unreadable", format!("{}", e), case.clone())],
    }
}
