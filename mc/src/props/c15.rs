//! C15 — advertised service instances are discovered faithfully.
//! Every instance description of a bounded product goes through the real path
//! into_records -> announce-shaped packet -> compressed bytes -> parse -> ingest -> report (channel
//! and get_known_services computation); graph mode over announcement histories with peers, the
//! discoverer's own instance, service-name records and foreign names; escape/unescape over all
//! strings up to length 8 over {a, '.', '\'}.

use super::finding;
use crate::engine::{guarded, par_shards, Ctx, Finding, Tally};
use serde::{Deserialize, Serialize};
use serde_json::{json, Value};
use simple_dns::rdata::{RData, PTR};
use simple_dns::{Name, Packet, ResourceRecord, CLASS};
use simple_mdns::verif::{add_response_to_resources, instance_from_records, DomainResourceFilter, ResourceRecordManager};
use simple_mdns::InstanceInformation;
use std::collections::{BTreeMap, BTreeSet, HashMap};
use std::net::IpAddr;

const SERVICE: &str = "_mysrv._tcp.local";
const OWN: &str = "me";

#[derive(Clone, Debug, PartialEq, Eq, Serialize, Deserialize, PartialOrd, Ord)]
pub struct Desc {
    pub name: String,
    pub ips: BTreeSet<String>,
    pub ports: BTreeSet<u16>,
    pub attrs: BTreeMap<String, Option<String>>,
}

impl Desc {
    pub fn to_instance(&self) -> InstanceInformation {
        let mut i = InstanceInformation::new(self.name.clone());
        for ip in &self.ips {
            i = i.with_ip_address(ip.parse::<IpAddr>().unwrap());
        }
        for p in &self.ports {
            i = i.with_port(*p);
        }
        for (k, v) in &self.attrs {
            i = i.with_attribute(k.clone(), v.clone());
        }
        i
    }
    pub fn of(i: &InstanceInformation) -> Desc {
        Desc {
            name: i.unescaped_instance_name(),
            ips: i.ip_addresses.iter().map(|x| x.to_string()).collect(),
            ports: i.ports.iter().copied().collect(),
            attrs: i.attributes.iter().map(|(k, v)| (k.clone(), v.clone())).collect(),
        }
    }
}

pub fn descriptions() -> Vec<Desc> {
    let ips = ["10.0.0.1", "192.168.7.9", "fe80::1", "::ffff:10.0.0.1"];
    let ports = [0u16, 80, 65535];
    let long_entry = "L".repeat(255);
    let mut out = Vec::new();
    for name in ["a", "Ab1", "x-y"] {
        for im in 0..16u8 {
            for pm in 0..8u8 {
                for k in 0..4u8 {
                    for j in 0..2u8 {
                        for lg in 0..2u8 {
                            let mut attrs = BTreeMap::new();
                            match k {
                                1 => {
                                    attrs.insert("k".to_string(), None);
                                }
                                2 => {
                                    attrs.insert("k".to_string(), Some(String::new()));
                                }
                                3 => {
                                    attrs.insert("k".to_string(), Some("v".to_string()));
                                }
                                _ => {}
                            }
                            if j == 1 {
                                attrs.insert("j".to_string(), Some("w=x".to_string()));
                            }
                            if lg == 1 {
                                attrs.insert(long_entry.clone(), None);
                            }
                            out.push(Desc {
                                name: name.to_string(),
                                ips: ips.iter().enumerate().filter(|(i, _)| im & (1 << i) != 0).map(|(_, s)| s.to_string()).collect(),
                                ports: ports.iter().enumerate().filter(|(i, _)| pm & (1 << i) != 0).map(|(_, p)| *p).collect(),
                                attrs,
                            });
                        }
                    }
                }
            }
        }
    }
    out
}

fn service_name() -> Name<'static> {
    Name::new(SERVICE).unwrap().into_owned()
}

fn full_name(instance: &str, service: &str) -> Name<'static> {
    Name::new_unchecked(&format!("{}.{}", instance, service)).into_owned()
}

/// The bytes a peer's announce() would put on the wire for this instance under `service`.
pub fn announcement(d: &Desc, service: &str) -> Result<Vec<u8>, String> {
    let inst_name = full_name(&d.to_instance().escaped_instance_name(), service);
    let records = d.to_instance().into_records(&inst_name, 120).map_err(|e| format!("into_records: {:?}", e))?;
    let mut packet = Packet::new_reply(1);
    for r in &records {
        // SRV target is the instance name itself, so announce() adds its address records as additional
        if matches!(r.rdata, RData::A(_) | RData::AAAA(_)) && records.iter().any(|x| matches!(x.rdata, RData::SRV(_))) {
            packet.additional_records.push(r.clone());
        }
        packet.answers.push(r.clone());
    }
    packet.build_bytes_vec_compressed().map_err(|e| format!("build: {:?}", e))
}

#[derive(Clone, Debug, PartialEq, Eq, Serialize, Deserialize)]
pub enum Event {
    Peer(Desc),
    /// a genuine peer announcement whose additional section also carries records of names that
    /// are not strict subdomains of the watched service
    PeerWithForeignAdditional(Desc),
    /// a peer announcement with the cache-flush bit on every record (what mDNS responders send
    /// for records they own exclusively)
    PeerFlush(Desc),
    /// the records of a peer with TTL 0 and the cache-flush bit (a goodbye)
    Goodbye(Desc),
    Own,
    ServiceNameRecord,
    Foreign(Desc),
    LookAlike(Desc),
}

fn event_bytes(e: &Event, own: &Desc) -> Result<Vec<u8>, String> {
    match e {
        Event::Peer(d) => announcement(d, SERVICE),
        Event::PeerWithForeignAdditional(d) => {
            let bytes = announcement(d, SERVICE)?;
            let mut p = Packet::parse(&bytes).map_err(|e| format!("{:?}", e))?.clone();
            let host = Name::new_unchecked("host.local");
            let other = Name::new_unchecked("x._other._tcp.local");
            p.additional_records.push(ResourceRecord::new(host.clone(), CLASS::IN, 120, RData::A(simple_dns::rdata::A { address: 0x0a090909 })));
            p.additional_records.push(ResourceRecord::new(other.clone(), CLASS::IN, 120, RData::SRV(simple_dns::rdata::SRV { priority: 0, weight: 0, port: 9999, target: host.clone() })));
            p.additional_records.push(ResourceRecord::new(service_name(), CLASS::IN, 120, RData::TXT(simple_dns::rdata::TXT::new().with_string("leak=1").map_err(|e| format!("{:?}", e))?)));
            p.build_bytes_vec_compressed().map_err(|e| format!("{:?}", e))
        }
        Event::PeerFlush(d) | Event::Goodbye(d) => {
            let bytes = announcement(d, SERVICE)?;
            let mut p = Packet::parse(&bytes).map_err(|e| format!("{:?}", e))?.clone();
            let goodbye = matches!(e, Event::Goodbye(_));
            for r in p.answers.iter_mut().chain(p.additional_records.iter_mut()) {
                r.cache_flush = true;
                if goodbye {
                    r.ttl = 0;
                }
            }
            p.build_bytes_vec_compressed().map_err(|e| format!("{:?}", e))
        }
        Event::Own => announcement(own, SERVICE),
        Event::ServiceNameRecord => {
            let mut p = Packet::new_reply(1);
            p.answers.push(ResourceRecord::new(service_name(), CLASS::IN, 120, RData::PTR(PTR(full_name("ghost", SERVICE)))));
            p.answers.push(ResourceRecord::new(service_name(), CLASS::IN, 120, RData::A(simple_dns::rdata::A { address: 0x7f000001 })));
            p.build_bytes_vec_compressed().map_err(|e| format!("{:?}", e))
        }
        Event::Foreign(d) => announcement(d, "_other._tcp.local"),
        // a name that merely ends with the same bytes as the watched service name
        Event::LookAlike(d) => announcement(d, "x_mysrv._tcp.local"),
    }
}

fn initial_store(own: &Desc) -> Result<ResourceRecordManager<'static>, String> {
    let mut s = ResourceRecordManager::new();
    let own_full = full_name(&own.name, SERVICE);
    s.add_authoritative_resource(ResourceRecord::new(service_name(), CLASS::IN, 120, RData::PTR(PTR(own_full.clone()))));
    for r in own.to_instance().into_records(&own_full, 120).map_err(|e| format!("{:?}", e))? {
        s.add_authoritative_resource(r);
    }
    Ok(s)
}

fn known_services(store: &ResourceRecordManager<'static>) -> Vec<Desc> {
    let sn = service_name();
    let mut v: Vec<Desc> = store
        .get_domain_resources(&sn, DomainResourceFilter::cached())
        .filter_map(|g| instance_from_records(&sn, g))
        .map(|i| Desc::of(&i))
        .collect();
    v.sort();
    v
}

pub fn check_history(events: &[Event]) -> Vec<Finding> {
    let mk = || json!({"kind": "history", "events": events});
    let own = Desc { name: OWN.to_string(), ips: ["10.9.9.9".to_string()].into_iter().collect(), ports: [4242u16].into_iter().collect(), attrs: BTreeMap::new() };
    let r = guarded(|| -> Result<Vec<(String, String)>, String> {
        let mut bad = Vec::new();
        for with_channel in [true, false] {
            let mut store = initial_store(&own)?;
            let (tx, rx) = std::sync::mpsc::channel::<InstanceInformation>();
            let mut chan = if with_channel { Some(tx) } else { None };
            let own_full = full_name(OWN, SERVICE);
            let sn = service_name();
            let mut expected: BTreeMap<String, Desc> = BTreeMap::new();
            // peers whose last event was a goodbye: whether they are still listed is C20's matter
            let mut unjudged: BTreeSet<String> = BTreeSet::new();
            for (ei, e) in events.iter().enumerate() {
                let bytes = event_bytes(e, &own)?;
                let packet = Packet::parse(&bytes).map_err(|e| format!("announcement does not parse: {:?}", e))?;
                add_response_to_resources(packet, &sn, &own_full, &mut store, &mut chan);
                let notified: Vec<Desc> = rx.try_iter().map(|i| Desc::of(&i)).collect();
                let want: Vec<Desc> = match e {
                    Event::Goodbye(d) => {
                        expected.remove(&d.name);
                        unjudged.insert(d.name.clone());
                        rx.try_iter().count();
                        continue;
                    }
                    Event::Peer(d) | Event::PeerWithForeignAdditional(d) | Event::PeerFlush(d) => {
                        unjudged.remove(&d.name);
                        expected.insert(d.name.clone(), d.clone());
                        if with_channel {
                            vec![d.clone()]
                        } else {
                            vec![]
                        }
                    }
                    _ => vec![],
                };
                if notified != want {
                    let tag = match e {
                        Event::Peer(_) => "channel-peer",
                        Event::PeerFlush(_) => "channel-peer-cache-flush",
                        Event::Goodbye(_) => "channel-goodbye",
                        Event::PeerWithForeignAdditional(_) => "channel-peer-foreign-additional",
                        Event::Own => "channel-own-instance",
                        Event::ServiceNameRecord => "channel-service-name",
                        Event::Foreign(_) => "channel-foreign",
                        Event::LookAlike(_) => "channel-lookalike",
                    };
                    bad.push((tag.to_string(), format!("event {} {:?}: channel delivered {:?}, expected {:?}", ei, e, notified, want)));
                }
            }
            let known: Vec<Desc> = known_services(&store).into_iter().filter(|d| !unjudged.contains(&d.name)).collect();
            let want: Vec<Desc> = expected.values().cloned().collect();
            if known != want {
                let tag = if known.len() > want.len() {
                    "known-extra"
                } else if known.len() < want.len() {
                    "known-missing"
                } else {
                    "known-differs"
                };
                bad.push((format!("{}{}", tag, if with_channel { "" } else { "|no-channel" }), format!("known services {:?}, announced peers {:?}", known, want)));
            }
        }
        Ok(bad)
    });
    match r {
        Err(pn) => vec![finding(format!("C15|{}", pn.sig()), format!("{:?}", pn), mk())],
        Ok(Err(e)) => vec![finding("C15|path-error", e, mk())],
        Ok(Ok(bad)) => bad.into_iter().map(|(t, d)| finding(format!("C15|{}", t), d, mk())).collect(),
    }
}

pub fn check_escape(s: &str) -> Vec<Finding> {
    let case = json!({"kind": "escape", "s": s});
    let r = guarded(|| {
        let e = InstanceInformation::new(s.to_string()).escaped_instance_name();
        let u = InstanceInformation::new(e.clone()).unescaped_instance_name();
        (e, u)
    });
    match r {
        Err(pn) => vec![finding(format!("C15|escape|{}", pn.sig()), format!("{:?}", pn), case)],
        Ok((e, u)) => {
            if u != s {
                vec![finding("C15|escape|roundtrip", format!("unescape(escape({:?})) = {:?} (escaped form {:?})", s, u, e), case)]
            } else {
                vec![]
            }
        }
    }
}

/// The public helpers an application uses to describe itself: address / port / socket-address to
/// records, socket-address builders and the socket-address product of an instance.
pub fn check_helpers(ip: IpAddr, port: u16) -> Vec<Finding> {
    use simple_mdns::conversion_utils::{hashmap_to_txt, ip_addr_to_resource_record, port_to_srv_record, socket_addr_to_srv_and_address};
    let case = json!({"kind": "helpers", "ip": ip.to_string(), "port": port});
    let r = guarded(|| {
        let mut bad: Vec<(String, String)> = Vec::new();
        let name = Name::new_unchecked("me._svc._tcp.local");
        let check_addr = |rr: &ResourceRecord, bad: &mut Vec<(String, String)>, how: &str| {
            let ok = match (&rr.rdata, ip) {
                (RData::A(a), IpAddr::V4(v4)) => a.address == u32::from(v4),
                (RData::AAAA(a), IpAddr::V6(v6)) => a.address == u128::from(v6),
                _ => false,
            };
            if !ok || rr.name != name || rr.ttl != 77 || rr.class != CLASS::IN {
                bad.push((format!("helpers|{}", how), format!("{} for {} gives {:?}", how, ip, rr)));
            }
        };
        let check_srv = |rr: &ResourceRecord, bad: &mut Vec<(String, String)>, how: &str| {
            let ok = match &rr.rdata {
                RData::SRV(s) => s.port == port && s.target == name,
                _ => false,
            };
            if !ok || rr.name != name || rr.ttl != 77 {
                bad.push((format!("helpers|{}", how), format!("{} for port {} gives {:?}", how, port, rr)));
            }
        };
        check_addr(&ip_addr_to_resource_record(&name, ip, 77), &mut bad, "ip_addr_to_resource_record");
        check_srv(&port_to_srv_record(&name, port, 77), &mut bad, "port_to_srv_record");
        let (srv, addr) = socket_addr_to_srv_and_address(&name, std::net::SocketAddr::new(ip, port), 77);
        check_srv(&srv, &mut bad, "socket_addr_to_srv_and_address.0");
        check_addr(&addr, &mut bad, "socket_addr_to_srv_and_address.1");
        let mut attrs = HashMap::new();
        attrs.insert("k".to_string(), Some(format!("{}", port)));
        attrs.insert("flag".to_string(), None);
        match hashmap_to_txt(&name, attrs.clone(), 77) {
            Ok(rr) => match &rr.rdata {
                RData::TXT(t) if t.attributes() == attrs && rr.name == name && rr.ttl == 77 => {}
                other => bad.push(("helpers|hashmap_to_txt".into(), format!("{:?}", other))),
            },
            Err(e) => bad.push(("helpers|hashmap_to_txt".into(), format!("{:?}", e))),
        }
        // with_socket_address == with_ip_address + with_port; get_socket_addresses is the product
        let other_ip: IpAddr = "10.7.7.7".parse().unwrap();
        let a = InstanceInformation::new("i".into()).with_socket_address(std::net::SocketAddr::new(ip, port));
        let b = InstanceInformation::new("i".into()).with_ip_address(ip).with_port(port);
        if a != b {
            bad.push(("helpers|with_socket_address".into(), format!("with_socket_address({}:{}) = {:?}, with_ip_address + with_port = {:?}", ip, port, a, b)));
        }
        let c = b.clone().with_ip_address(other_ip).with_port(port.wrapping_add(1));
        let got: BTreeSet<std::net::SocketAddr> = c.get_socket_addresses().collect();
        let mut want = BTreeSet::new();
        for i in [ip, other_ip] {
            for p in [port, port.wrapping_add(1)] {
                want.insert(std::net::SocketAddr::new(i, p));
            }
        }
        if got != want {
            bad.push(("helpers|get_socket_addresses".into(), format!("{:?} expected {:?}", got, want)));
        }
        // and through records: into_records -> from_records gives the same instance back
        let full = Name::new_unchecked("i._svc._tcp.local");
        match c.clone().into_records(&full, 120) {
            Ok(recs) => match instance_from_records(&Name::new_unchecked("_svc._tcp.local"), recs.iter()) {
                Some(back) => {
                    if back != c {
                        bad.push(("helpers|records-roundtrip".into(), format!("{:?} came back as {:?}", c, back)));
                    }
                }
                None => bad.push(("helpers|records-roundtrip".into(), "no instance from its own records".into())),
            },
            Err(e) => bad.push(("helpers|into_records".into(), format!("{:?}", e))),
        }
        bad
    });
    match r {
        Err(pn) => vec![finding(format!("C15|helpers|{}", pn.sig()), format!("{:?}", pn), case)],
        Ok(bad) => bad.into_iter().map(|(t, d)| finding(format!("C15|{}", t), d, case.clone())).collect(),
    }
}

/// End to end over loopback multicast with the real services on both sides: a watcher is started,
/// then a peer advertising `d`; the watcher must come to list exactly that instance (and the peer
/// exactly the watcher). mode 0: both sync, 1: both tokio, 2: sync peer / tokio watcher.
pub fn e2e_case(k: usize, d: &Desc, mode: u8) -> Result<Vec<Finding>, String> {
    e2e_case_gap(k, d, mode, 120)
}

/// `gap_ms`: how long the watcher has been up when the peer starts. With a gap beyond the
/// watcher's start-up announcements the peer is a late joiner and learns the watcher only from
/// the reply to its own start-up query.
pub fn e2e_case_gap(k: usize, d: &Desc, mode: u8, gap_ms: u64) -> Result<Vec<Finding>, String> {
    e2e_case_scoped(k, d, mode, gap_ms, 0)
}

/// `scope`: 0 = the default constructor; 1 = new_with_scope(V6) on both sides; 2 =
/// new_with_scope(V4WithInterface(<the interface multicast leaves through>)) on both sides;
/// 3 = the watcher with V4WithInterface, the peer with the default constructor.
pub fn e2e_case_scoped(k: usize, d: &Desc, mode: u8, gap_ms: u64, scope: u8) -> Result<Vec<Finding>, String> {
    use simple_mdns::async_discovery::ServiceDiscovery as ADisc;
    use simple_mdns::sync_discovery::ServiceDiscovery as SDisc;
    use simple_mdns::NetworkScope;
    use std::time::{Duration, Instant};
    let iface = crate::engine::multicast_interface_v4();
    let scope_of = |watcher_side: bool| -> Option<NetworkScope> {
        match scope {
            1 => Some(NetworkScope::V6),
            2 => iface.map(NetworkScope::V4WithInterface),
            3 if watcher_side => iface.map(NetworkScope::V4WithInterface),
            _ => None,
        }
    };
    // odd cases use a service name with capital letters (both sides spell it the same way)
    let svc = if k % 2 == 1 { format!("_E2E{}M{}S{}._TCP.local", k, mode, scope) } else { format!("_e2e{}m{}s{}._tcp.local", k, mode, scope) };
    let case = json!({"kind": "e2e", "k": k, "desc": d, "mode": mode, "gap_ms": gap_ms, "scope": scope});
    let watcher_desc = Desc { name: format!("watcher{}", k), ips: ["10.8.8.8".to_string()].into_iter().collect(), ports: [7000u16 + k as u16].into_iter().collect(), attrs: BTreeMap::new() };
    let rt = tokio::runtime::Builder::new_multi_thread().worker_threads(2).enable_all().build().map_err(|e| format!("{}", e))?;
    enum W {
        S(SDisc),
        A(ADisc),
    }
    let known = |w: &W, rt: &tokio::runtime::Runtime| -> Vec<Desc> {
        let set = match w {
            W::S(s) => s.get_known_services(),
            W::A(a) => rt.block_on(a.get_known_services()),
        };
        let mut v: Vec<Desc> = set.iter().map(Desc::of).collect();
        v.sort();
        v
    };
    let r = guarded(|| -> Result<Vec<(String, String)>, String> {
        let mut bad = Vec::new();
        let start = |inst: simple_mdns::InstanceInformation, asynchronous: bool, sc: Option<NetworkScope>, who: &str| -> Result<W, String> {
            Ok(match (asynchronous, sc) {
                (false, None) => W::S(SDisc::new(inst, &svc, 120).map_err(|e| format!("{}: {:?}", who, e))?),
                (false, Some(sc)) => W::S(SDisc::new_with_scope(inst, &svc, 120, None, sc).map_err(|e| format!("{}: {:?}", who, e))?),
                (true, None) => W::A(rt.block_on(async { ADisc::new(inst, &svc, 120) }).map_err(|e| format!("{}: {:?}", who, e))?),
                (true, Some(sc)) => W::A(rt.block_on(async { ADisc::new_with_scope(inst, &svc, 120, None, sc) }).map_err(|e| format!("{}: {:?}", who, e))?),
            })
        };
        let watcher = start(watcher_desc.to_instance(), mode != 0, scope_of(true), "watcher")?;
        std::thread::sleep(Duration::from_millis(gap_ms));
        let peer = start(d.to_instance(), mode == 1, scope_of(false), "peer")?;
        let deadline = Instant::now() + Duration::from_secs(4);
        let want_w = vec![d.clone()];
        let want_p = vec![watcher_desc.clone()];
        let (mut got_w, mut got_p) = (Vec::new(), Vec::new());
        while Instant::now() < deadline {
            got_w = known(&watcher, &rt);
            got_p = known(&peer, &rt);
            if got_w == want_w && got_p == want_p {
                break;
            }
            std::thread::sleep(Duration::from_millis(40));
        }
        if got_w != want_w {
            bad.push((if got_w.is_empty() { "e2e-peer-not-reported".to_string() } else { "e2e-reported-instance-differs".to_string() }, format!("watcher lists {:?}, the peer advertises {:?}", got_w, want_w)));
        }
        if got_p != want_p {
            bad.push((if got_p.is_empty() { "e2e-watcher-not-reported".to_string() } else { "e2e-reported-instance-differs".to_string() }, format!("peer lists {:?}, the watcher advertises {:?}", got_p, want_p)));
        }
        Ok(bad)
    });
    rt.shutdown_timeout(Duration::from_millis(100));
    match r {
        Err(pn) => Ok(vec![finding(format!("C15|e2e|{}", pn.sig()), format!("{:?}", pn), case)]),
        Ok(Err(e)) => Err(e),
        Ok(Ok(bad)) => Ok(bad.into_iter().map(|(t, x)| finding(format!("C15|{}|mode{}", t, mode), x, case.clone())).collect()),
    }
}

/// A running watcher (sync or tokio) hears one hand-made response that advertises an instance
/// of its service, in a shape a real responder may use: records as answers; with the question
/// it answers echoed in front (RFC 6762 section 6: questions in responses are ignored, not the
/// response); with two questions; address record in the additional section; a non-zero id.
/// The instance must come to be listed exactly as advertised.
pub fn raw_announcement_case(k: usize, variant: u8, asynchronous: bool) -> Result<Vec<Finding>, String> {
    use crate::refmodel::packet::*;
    use crate::refmodel::schema::Val;
    use crate::refmodel::RefName;
    use std::time::{Duration, Instant};
    let svc = format!("_raw{}v{}{}._tcp.local", k, variant, if asynchronous { "t" } else { "s" });
    let case = json!({"kind": "raw-announcement", "k": k, "variant": variant, "async": asynchronous});
    let inst = RefName::txt(&format!("rawpeer.{}", svc));
    let svcn = RefName::txt(&svc);
    let datagram = {
        let mut p = RefPacket { id: if variant == 4 { 0x4d2 } else { 0 }, flags: F_QR | F_AA, ..Default::default() };
        if variant == 1 || variant == 2 {
            p.questions.push(RefQ { name: inst.clone(), qtype: 33, qclass: 1, unicast: false });
        }
        if variant == 2 {
            p.questions.push(RefQ { name: svcn.clone(), qtype: 12, qclass: 1, unicast: false });
        }
        p.answers.push(RefRR { name: svcn.clone(), class: 1, cache_flush: false, ttl: 120, rdata: typed(12, vec![Val::Name(inst.clone())]) });
        p.answers.push(RefRR { name: inst.clone(), class: 1, cache_flush: true, ttl: 120, rdata: typed(33, vec![Val::U16(0), Val::U16(0), Val::U16(8123), Val::Name(inst.clone())]) });
        p.answers.push(RefRR { name: inst.clone(), class: 1, cache_flush: true, ttl: 120, rdata: typed(16, vec![Val::Strs(vec![crate::refmodel::B(b"k=v".to_vec())])]) });
        let a = RefRR { name: inst.clone(), class: 1, cache_flush: true, ttl: 120, rdata: typed(1, vec![Val::U32(0x0a070809)]) };
        if variant == 3 {
            p.additional.push(a);
        } else {
            p.answers.push(a);
        }
        if variant % 2 == 0 {
            p.encode(0)
        } else {
            p.encode_compressed(0, true)
        }
    };
    let want = Desc { name: "rawpeer".to_string(), ips: ["10.7.8.9".to_string()].into_iter().collect(), ports: [8123u16].into_iter().collect(), attrs: [("k".to_string(), Some("v".to_string()))].into_iter().collect() };
    let rt = tokio::runtime::Builder::new_multi_thread().worker_threads(2).enable_all().build().map_err(|e| format!("{}", e))?;
    let r = guarded(|| -> Result<Vec<(String, String)>, String> {
        let me = Desc { name: format!("watcher{}", k), ips: ["10.8.8.7".to_string()].into_iter().collect(), ports: [7300u16].into_iter().collect(), attrs: BTreeMap::new() };
        enum W {
            S(simple_mdns::sync_discovery::ServiceDiscovery),
            A(simple_mdns::async_discovery::ServiceDiscovery),
        }
        let w = if asynchronous {
            W::A(rt.block_on(async { simple_mdns::async_discovery::ServiceDiscovery::new(me.to_instance(), &svc, 120) }).map_err(|e| format!("{:?}", e))?)
        } else {
            W::S(simple_mdns::sync_discovery::ServiceDiscovery::new(me.to_instance(), &svc, 120).map_err(|e| format!("{:?}", e))?)
        };
        std::thread::sleep(Duration::from_millis(200));
        let tx = std::net::UdpSocket::bind((std::net::Ipv4Addr::UNSPECIFIED, 0)).map_err(|e| format!("{}", e))?;
        let _ = tx.set_multicast_loop_v4(true);
        let mut got: Vec<Desc> = Vec::new();
        for _attempt in 0..2 {
            tx.send_to(&datagram, (std::net::Ipv4Addr::new(224, 0, 0, 251), 5353)).map_err(|e| format!("{}", e))?;
            let deadline = Instant::now() + Duration::from_millis(900);
            while Instant::now() < deadline {
                let set = match &w {
                    W::S(s) => s.get_known_services(),
                    W::A(a) => rt.block_on(a.get_known_services()),
                };
                got = set.iter().map(Desc::of).collect();
                if got == vec![want.clone()] {
                    return Ok(vec![]);
                }
                std::thread::sleep(Duration::from_millis(40));
            }
        }
        Ok(vec![(if got.is_empty() { "raw-announcement-not-reported".to_string() } else { "raw-announcement-differs".to_string() }, format!("a response advertising {:?} (variant {}: {}) was sent twice to a running {} watcher, which lists {:?}", want, variant, ["records as answers", "the answered question echoed in front", "two questions in front", "address record in the additional section", "a non-zero id"][variant as usize % 5], if asynchronous { "tokio" } else { "sync" }, got))])
    });
    rt.shutdown_timeout(Duration::from_millis(100));
    match r {
        Err(pn) => Ok(vec![finding(format!("C15|raw-announcement|{}", pn.sig()), format!("{:?}", pn), case)]),
        Ok(Err(e)) => Err(e),
        Ok(Ok(bad)) => Ok(bad.into_iter().map(|(t, x)| finding(format!("C15|{}|{}", t, if asynchronous { "tokio" } else { "sync" }), x, case.clone())).collect()),
    }
}

/// A watcher built with a discovery channel that the application reads late (tokio: a bounded
/// channel of capacity 1 left unread while two peers join; sync: an unbounded channel, or one
/// whose receiver is dropped): once the application catches up, both peers are known exactly
/// as advertised, and each was notified at least once.
pub fn e2e_channel_case(k: usize, variant: u8) -> Result<Vec<Finding>, String> {
    use simple_mdns::async_discovery::ServiceDiscovery as ADisc;
    use simple_mdns::sync_discovery::ServiceDiscovery as SDisc;
    use simple_mdns::NetworkScope;
    use std::time::{Duration, Instant};
    let svc = format!("_e2ech{}v{}._tcp.local", k, variant);
    let case = json!({"kind": "e2e-channel", "k": k, "variant": variant});
    let mk = |name: &str, last: u8| Desc { name: name.to_string(), ips: [format!("10.8.9.{}", last)].into_iter().collect(), ports: [7100u16 + last as u16].into_iter().collect(), attrs: BTreeMap::new() };
    let (wd, bd, cd) = (mk("watcher", 1), mk("peerb", 2), mk("peerc", 3));
    let rt = tokio::runtime::Builder::new_multi_thread().worker_threads(2).enable_all().build().map_err(|e| format!("{}", e))?;
    let r = guarded(|| -> Result<Vec<(String, String)>, String> {
        let mut bad = Vec::new();
        enum W {
            A(ADisc, tokio::sync::mpsc::Receiver<simple_mdns::InstanceInformation>),
            S(SDisc, Option<std::sync::mpsc::Receiver<simple_mdns::InstanceInformation>>),
        }
        let mut watcher = match variant {
            0 => {
                let (tx, rx) = tokio::sync::mpsc::channel(1);
                W::A(rt.block_on(async { ADisc::new_with_scope(wd.to_instance(), &svc, 120, Some(tx), NetworkScope::V4) }).map_err(|e| format!("watcher: {:?}", e))?, rx)
            }
            1 => {
                let (tx, rx) = std::sync::mpsc::channel();
                W::S(SDisc::new_with_scope(wd.to_instance(), &svc, 120, Some(tx), NetworkScope::V4).map_err(|e| format!("watcher: {:?}", e))?, Some(rx))
            }
            _ => {
                let (tx, rx) = std::sync::mpsc::channel();
                drop(rx);
                W::S(SDisc::new_with_scope(wd.to_instance(), &svc, 120, Some(tx), NetworkScope::V4).map_err(|e| format!("watcher: {:?}", e))?, None)
            }
        };
        std::thread::sleep(Duration::from_millis(150));
        let _peer_b = SDisc::new(bd.to_instance(), &svc, 120).map_err(|e| format!("peer b: {:?}", e))?;
        std::thread::sleep(Duration::from_millis(600));
        let _peer_c = rt.block_on(async { ADisc::new(cd.to_instance(), &svc, 120) }).map_err(|e| format!("peer c: {:?}", e))?;
        // both start-up announcements of peer c (at once and one second later) meet the unread channel
        std::thread::sleep(Duration::from_millis(1500));
        // the application catches up
        let mut notified: Vec<String> = Vec::new();
        let mut want = vec![bd.clone(), cd.clone()];
        want.sort();
        let deadline = Instant::now() + Duration::from_secs(4);
        let mut got: Vec<Desc> = Vec::new();
        while Instant::now() < deadline {
            match &mut watcher {
                W::A(_, rx) => {
                    while let Ok(i) = rx.try_recv() {
                        notified.push(i.unescaped_instance_name());
                    }
                }
                W::S(_, Some(rx)) => {
                    while let Ok(i) = rx.try_recv() {
                        notified.push(i.unescaped_instance_name());
                    }
                }
                W::S(_, None) => {}
            }
            let set = match &watcher {
                W::A(a, _) => rt.block_on(a.get_known_services()),
                W::S(s, _) => s.get_known_services(),
            };
            got = set.iter().map(Desc::of).collect();
            got.sort();
            let all_notified = matches!(&watcher, W::S(_, None)) || (notified.iter().any(|n| n == "peerb") && notified.iter().any(|n| n == "peerc"));
            if got == want && all_notified {
                break;
            }
            std::thread::sleep(Duration::from_millis(40));
        }
        if got != want {
            bad.push(("e2e-channel-known-differs".to_string(), format!("after the application caught up with its discovery channel the watcher lists {:?}; advertised: {:?}", got, want)));
        }
        if !matches!(&watcher, W::S(_, None)) {
            for p in ["peerb", "peerc"] {
                if !notified.iter().any(|n| n == p) {
                    bad.push(("e2e-channel-not-notified".to_string(), format!("no notification for {} arrived on the discovery channel (received: {:?})", p, notified)));
                }
            }
        }
        Ok(bad)
    });
    rt.shutdown_timeout(Duration::from_millis(100));
    match r {
        Err(pn) => Ok(vec![finding(format!("C15|e2e-channel|{}", pn.sig()), format!("{:?}", pn), case)]),
        Ok(Err(e)) => Err(e),
        Ok(Ok(bad)) => Ok(bad.into_iter().map(|(t, x)| finding(format!("C15|{}|variant{}", t, variant), x, case.clone())).collect()),
    }
}

pub fn run(ctx: &Ctx) {
    ctx.set_rule("6144 instance descriptions (3 names x all subsets of 4 addresses incl. an IPv4-mapped IPv6 address x all subsets of 3 ports x 16 attribute maps incl. absent/empty/non-empty values, a value containing '=', a 255-byte entry) each announced through the real path (into_records, announce-shaped packet, compressed bytes, parse, add_response_to_resources with and without a discovery channel) and read back through the channel and the get_known_services computation; announcement histories of depth <= 3 over an 8-event menu (two peers, identical re-announcement, the discoverer's own instance, records owned by the service name, a foreign service, a look-alike service name); escape/unescape over all strings of length <= 8 over {a,'.','\\'}. non-trivial = description has at least one address, port or attribute / history has a peer event");
    ctx.assume("the announce-shaped packet mirrors ServiceDiscovery::announce: all instance records as answers, address records repeated as additional when an SRV record is present; the receiving store is initialised as ServiceDiscovery::new does (PTR at the service name + own instance records, authoritative)");
    let descs = descriptions();
    let chunks: Vec<&[Desc]> = descs.chunks(32).collect();
    par_shards(ctx, &chunks, |ds, t: &mut Tally| {
        for d in ds.iter() {
            t.evals += 1;
            t.transitions += 2;
            if !d.ips.is_empty() || !d.ports.is_empty() || !d.attrs.is_empty() {
                t.nontrivial += 1;
            }
            let mut f = check_history(&[Event::Peer(d.clone())]);
            f.extend(check_history(&[Event::PeerWithForeignAdditional(d.clone())]));
            t.outcome(if f.is_empty() { "faithful" } else { "unfaithful" });
            if !f.is_empty() {
                ctx.violations(f);
            }
        }
    });
    {
        let mut t = Tally::default();
        let mut big: Vec<Desc> = Vec::new();
        for n in [4usize, 6, 9, 16] {
            let mut d = Desc { name: format!("big{}", n), ips: Default::default(), ports: Default::default(), attrs: Default::default() };
            for i in 0..n {
                d.ips.insert(if i % 2 == 0 { format!("10.1.{}.{}", i, 200 - i) } else { format!("fd00::{:x}", 0x1000 + i * 37) });
                d.ports.insert(1000 + (i as u16) * 1237);
                d.attrs.insert(format!("key{}", i), if i % 3 == 0 { None } else { Some("v".repeat(i * 5)) });
            }
            big.push(d);
        }
        for d in &big {
            t.evals += 1;
            t.nontrivial += 1;
            ctx.violations(check_history(&[Event::Peer(d.clone())]));
        }
        ctx.violations(check_history(&big.iter().map(|d| Event::Peer(d.clone())).collect::<Vec<_>>()));
        t.outcome("faithful-big");
        ctx.merge(t);
        ctx.space("larger instances: 4, 6, 9 and 16 addresses / ports / attributes each, alone and all four in one history", 5, "complete");
    }
    ctx.space("single announcements: 6144 instance descriptions x {with channel, without}", descs.len() as u64, "complete");
    ctx.sample(json!({"kind": "history", "events": [Event::Peer(descs[descs.len() / 2 + 7].clone())]}));
    // histories
    let d1 = descs.iter().find(|d| d.name == "a" && d.ips.len() == 2 && d.ports.len() == 2 && d.attrs.len() == 2).unwrap().clone();
    let d2 = descs.iter().find(|d| d.name == "Ab1" && d.ips.len() == 1 && d.ports.len() == 1 && d.attrs.get("k") == Some(&Some(String::new()))).unwrap().clone();
    let d3 = descs.iter().find(|d| d.name == "x-y" && d.ips.is_empty() && d.ports.is_empty() && d.attrs.is_empty()).unwrap().clone();
    let menu: Vec<Event> = vec![
        Event::Peer(d1.clone()),
        Event::Peer(d2.clone()),
        Event::Peer(d3.clone()),
        Event::PeerWithForeignAdditional(d2.clone()),
        Event::PeerFlush(d1.clone()),
        Event::Goodbye(d1.clone()),
        Event::Goodbye(d2.clone()),
        Event::Own,
        Event::ServiceNameRecord,
        Event::Foreign(d1.clone()),
        Event::LookAlike(d2.clone()),
    ];
    let depth = ctx.eff_tier().pick(3usize, 5usize);
    let mut hists: Vec<Vec<Event>> = vec![vec![]];
    let mut frontier: Vec<Vec<Event>> = vec![vec![]];
    for _ in 0..depth {
        let mut next = Vec::new();
        for h in &frontier {
            for e in &menu {
                let mut x = h.clone();
                x.push(e.clone());
                next.push(x);
            }
        }
        hists.extend(next.iter().cloned());
        frontier = next;
    }
    let hchunks: Vec<&[Vec<Event>]> = hists.chunks(16).collect();
    par_shards(ctx, &hchunks, |hs, t: &mut Tally| {
        for h in hs.iter() {
            t.evals += 1;
            t.transitions += 2 * h.len() as u64;
            if h.iter().any(|e| matches!(e, Event::Peer(_) | Event::PeerWithForeignAdditional(_) | Event::PeerFlush(_))) {
                t.nontrivial += 1;
            }
            let f = check_history(h);
            t.outcome(if f.is_empty() { "faithful" } else { "unfaithful" });
            if !f.is_empty() {
                ctx.violations(f);
            }
        }
    });
    ctx.add_states(hists.len() as u64 + descs.len() as u64);
    ctx.space(&format!("announcement histories: every sequence of <= {} events over an 11-event menu (incl. cache-flush announcements and goodbyes before / after plain announcements)", depth), hists.len() as u64, "complete");
    // end to end with the real services on both sides
    {
        let picks: Vec<Desc> = {
            let mut v = vec![d1.clone(), d2.clone()];
            if ctx.eff_tier() == crate::engine::Tier::Thorough {
                v.push(d3.clone());
                v.extend(descs.iter().filter(|d| d.ips.len() == 4 && d.ports.len() == 3 && d.attrs.len() == 3).take(2).cloned());
                v.extend(descs.iter().filter(|d| d.ips.len() == 1 && d.ports.is_empty() && d.attrs.len() == 1).take(2).cloned());
            }
            v
        };
        let mut t = Tally::default();
        let mut ran = 0u64;
        let mut why_not: Option<String> = None;
        // the environment is probed without the library: a raw socket joined to the mDNS group must see a datagram sent to it
        let env_ok = crate::engine::loopback_multicast_works();
        if !env_ok {
            why_not = Some("a raw socket joined to 224.0.0.251:5353 does not receive a datagram sent to the group from this host".to_string());
        }
        'outer: for (k, d) in picks.iter().enumerate() {
            if !env_ok {
                break;
            }
            for mode in 0..3u8 {
                match e2e_case(k, d, mode) {
                    Ok(f) => {
                        ran += 1;
                        t.evals += 1;
                        t.nontrivial += 1;
                        t.transitions += 2;
                        t.outcome(if f.is_empty() { "e2e-faithful" } else { "e2e-unfaithful" });
                        ctx.violations(f);
                    }
                    Err(e) => {
                        why_not = Some(format!("services could not be started: {}", e));
                        break 'outer;
                    }
                }
            }
        }
        // late joiners: the peer starts after the watcher's start-up announcements are over
        if env_ok && why_not.is_none() {
            for mode in 0..3u8 {
                match e2e_case_gap(40 + mode as usize * 2, &picks[0], mode, 1400) {
                    Ok(f) => {
                        ran += 1;
                        t.evals += 1;
                        t.nontrivial += 1;
                        t.transitions += 2;
                        t.outcome(if f.is_empty() { "e2e-faithful" } else { "e2e-unfaithful" });
                        ctx.violations(f);
                    }
                    Err(e) => why_not = Some(format!("services could not be started: {}", e)),
                }
            }
        }
        // other network scopes: IPv6 on both sides; an interface-specific IPv4 scope on both
        // sides and on the watcher only (side by side, different service names)
        if env_ok && why_not.is_none() {
            let v6 = crate::engine::loopback_multicast6_works();
            let v4if = crate::engine::multicast_interface_v4().is_some();
            let mut jobs: Vec<(usize, u8, u8)> = Vec::new();
            if v6 {
                jobs.extend([(70usize, 0u8, 1u8), (71, 1, 1), (72, 2, 1)]);
            }
            if v4if {
                jobs.extend([(73usize, 0u8, 2u8), (74, 1, 2), (75, 2, 3), (76, 0, 3)]);
            }
            let d0 = &picks[0];
            let results: Vec<Result<Vec<Finding>, String>> = std::thread::scope(|s| {
                let hs: Vec<_> = jobs.iter().map(|(k, mode, scope)| s.spawn(move || e2e_case_scoped(*k, d0, *mode, 120, *scope))).collect();
                hs.into_iter().map(|h| h.join().unwrap_or_else(|_| Err("thread panicked".to_string()))).collect()
            });
            let mut scoped_ran = 0u64;
            for r in results {
                match r {
                    Ok(f) => {
                        scoped_ran += 1;
                        ran += 1;
                        t.evals += 1;
                        t.nontrivial += 1;
                        t.transitions += 2;
                        t.outcome(if f.is_empty() { "e2e-faithful" } else { "e2e-unfaithful" });
                        ctx.violations(f);
                    }
                    Err(e) => {
                        // a scope the environment cannot serve is recorded, not judged
                        ctx.set_extra("e2e_scope_note", json!(format!("a scoped service could not be started: {}", e)));
                    }
                }
            }
            ctx.set_extra("e2e_scopes", json!({"ipv6_multicast_probe": v6, "ipv4_multicast_interface": crate::engine::multicast_interface_v4().map(|a| a.to_string()), "cases": scoped_ran}));
            ctx.space("end to end under other network scopes: NetworkScope::V6 on both sides (sync/sync, tokio/tokio, sync peer with tokio watcher) when an IPv6 multicast probe succeeds; NetworkScope::V4WithInterface(<interface multicast leaves through>) on both sides and on the watcher only", scoped_ran, "complete for the listed cases");
        }
        // hand-made responses in the shapes a real responder may use, to sync and tokio watchers (side by side)
        if env_ok && why_not.is_none() {
            let jobs: Vec<(u8, bool)> = (0..5u8).flat_map(|v| [(v, false), (v, true)]).collect();
            let results: Vec<Result<Vec<Finding>, String>> = std::thread::scope(|s| {
                let hs: Vec<_> = jobs.iter().map(|(v, a)| s.spawn(move || raw_announcement_case(80, *v, *a))).collect();
                hs.into_iter().map(|h| h.join().unwrap_or_else(|_| Err("thread panicked".to_string()))).collect()
            });
            let mut raw_ran = 0u64;
            for r in results {
                if let Ok(f) = r {
                    raw_ran += 1;
                    ran += 1;
                    t.evals += 1;
                    t.nontrivial += 1;
                    t.transitions += 1;
                    t.outcome(if f.is_empty() { "e2e-faithful" } else { "e2e-unfaithful" });
                    ctx.violations(f);
                }
            }
            ctx.space("hand-made responses to running sync and tokio watchers: an instance advertised with its records as answers, with the answered question echoed in front, with two questions in front, with the address record in the additional section, with a non-zero id (plain and compressed encodings): listed exactly as advertised", raw_ran, "complete for the ten cases");
        }
        // discovery channels read late (three variants, different service names, side by side)
        let mut chan_ran = 0u64;
        if env_ok && why_not.is_none() {
            let results: Vec<Result<Vec<Finding>, String>> = std::thread::scope(|s| {
                let hs: Vec<_> = (0..3u8).map(|v| s.spawn(move || e2e_channel_case(60, v))).collect();
                hs.into_iter().map(|h| h.join().unwrap_or_else(|_| Err("thread panicked".to_string()))).collect()
            });
            for r in results {
                match r {
                    Ok(f) => {
                        chan_ran += 1;
                        t.evals += 1;
                        t.nontrivial += 1;
                        t.transitions += 3;
                        t.outcome(if f.is_empty() { "e2e-faithful" } else { "e2e-unfaithful" });
                        ctx.violations(f);
                    }
                    Err(e) => why_not = Some(format!("services could not be started: {}", e)),
                }
            }
            ctx.space("end to end with a discovery channel read late: a tokio watcher with a bounded channel of capacity 1 left unread while a sync and a tokio peer join 0.6 s apart; a sync watcher with an unbounded channel; a sync watcher whose receiver was dropped; once the application catches up both peers are listed exactly as advertised and each was notified", chan_ran, "complete for the three variants");
        }
        ctx.merge(t);
        ctx.set_extra("e2e_stage", json!({"ran": ran > 0, "cases": ran + chan_ran, "reason": why_not}));
        ctx.space("end to end over loopback multicast: a real watcher and a real peer (sync/sync, tokio/tokio, sync peer with tokio watcher) per instance description; each side must come to list exactly the other's instance; also with the peer joining after the watcher's start-up announcements (late joiner, learns from the reply to its own query)", ran, "complete for the listed descriptions");
    }
    // escape / unescape
    let mut strs: Vec<String> = Vec::new();
    let mut b = Vec::new();
    crate::engine::for_each_string_upto(b"a.\\", ctx.eff_tier().pick(8, 10), &mut b, &mut |x| strs.push(String::from_utf8(x.to_vec()).unwrap()));
    let schunks: Vec<&[String]> = strs.chunks(512).collect();
    par_shards(ctx, &schunks, |ss, t: &mut Tally| {
        for s in ss.iter() {
            t.evals += 1;
            if s.contains('.') || s.contains('\\') {
                t.nontrivial += 1;
            }
            let f = check_escape(s);
            if !f.is_empty() {
                ctx.violations(f);
            }
        }
        t.outcome("escape");
    });
    ctx.space(&format!("escape/unescape: all strings of length <= {} over {{a, '.', '\\'}}", ctx.eff_tier().pick(8, 10)), strs.len() as u64, "complete");
    ctx.sample(json!({"kind": "escape", "s": "a.\\.\\\\"}));
    {
        // helper conversions: every port with a v4 and a v6 address; walking-bit addresses
        let mut cases: Vec<(IpAddr, u16)> = Vec::new();
        for port in 0..=65535u16 {
            cases.push((if port % 2 == 0 { "192.0.2.1".parse().unwrap() } else { "2001:db8::1".parse().unwrap() }, port));
        }
        for bit in 0..32 {
            cases.push((IpAddr::V4(std::net::Ipv4Addr::from(1u32 << bit)), 5353));
            cases.push((IpAddr::V4(std::net::Ipv4Addr::from(!(1u32 << bit))), 5353));
        }
        for bit in 0..128 {
            cases.push((IpAddr::V6(std::net::Ipv6Addr::from(1u128 << bit)), 5353));
        }
        let hchunks: Vec<&[(IpAddr, u16)]> = cases.chunks(2048).collect();
        par_shards(ctx, &hchunks, |cs, t: &mut Tally| {
            for (ip, port) in cs.iter() {
                t.evals += 1;
                t.nontrivial += 1;
                let f = check_helpers(*ip, *port);
                if !f.is_empty() {
                    ctx.violations(f);
                }
            }
            t.outcome("helpers");
        });
        ctx.space("helper conversions (ip_addr_to_resource_record, port_to_srv_record, socket_addr_to_srv_and_address, hashmap_to_txt, with_socket_address, get_socket_addresses, into_records -> from_records): every port 0..=65535, walking-bit IPv4 and IPv6 addresses", cases.len() as u64, "complete");
        ctx.sample(json!({"kind": "helpers", "ip": "192.0.2.1", "port": 443}));
    }
    {
        // every Unicode scalar value, alone and between the two special characters
        let cps: Vec<u32> = (0..=0x10ffffu32).filter(|c| char::from_u32(*c).is_some()).collect();
        let cchunks: Vec<&[u32]> = cps.chunks(8192).collect();
        par_shards(ctx, &cchunks, |cs, t: &mut Tally| {
            for &c in cs.iter() {
                let ch = char::from_u32(c).unwrap();
                for s in [ch.to_string(), format!("a{}.", ch), format!("{}\\{}", ch, ch)] {
                    t.evals += 1;
                    t.nontrivial += 1;
                    let f = check_escape(&s);
                    if !f.is_empty() {
                        ctx.violations(f);
                    }
                }
            }
            t.outcome("escape");
        });
        ctx.space("escape/unescape: every Unicode scalar value c in the strings c, a c '.', c '\\' c", cps.len() as u64 * 3, "complete");
    }
    let _: HashMap<u8, u8> = HashMap::new();
}

pub fn replay(case: &Value) -> Vec<Finding> {
    match case["kind"].as_str().unwrap_or("") {
        "history" => match serde_json::from_value::<Vec<Event>>(case["events"].clone()) {
            Ok(ev) => check_history(&ev),
            Err(e) => vec![finding("C15|replay-unreadable", format!("{}", e), case.clone())],
        },
        "raw-announcement" => raw_announcement_case(case["k"].as_u64().unwrap_or(0) as usize + 500, case["variant"].as_u64().unwrap_or(0) as u8, case["async"].as_bool().unwrap_or(false)).unwrap_or_default(),
        "e2e-channel" => e2e_channel_case(case["k"].as_u64().unwrap_or(0) as usize + 500, case["variant"].as_u64().unwrap_or(0) as u8).unwrap_or_default(),
        "e2e" => match serde_json::from_value::<Desc>(case["desc"].clone()) {
            Ok(d) => e2e_case_scoped(case["k"].as_u64().unwrap_or(0) as usize + 500, &d, case["mode"].as_u64().unwrap_or(0) as u8, case["gap_ms"].as_u64().unwrap_or(120), case["scope"].as_u64().unwrap_or(0) as u8).unwrap_or_default(),
            Err(_) => vec![],
        },
        "escape" => check_escape(case["s"].as_str().unwrap_or("")),
        "helpers" => check_helpers(case["ip"].as_str().unwrap_or("0.0.0.0").parse().unwrap_or(IpAddr::V4(std::net::Ipv4Addr::UNSPECIFIED)), case["port"].as_u64().unwrap_or(0) as u16),
        _ => vec![],
    }
}
