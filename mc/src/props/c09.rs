//! C09 — EDNS(0) data is carried per RFC 6891.
//! Build side: every (rcode, version, udp size, option list, other additional records) is built
//! and the bytes inspected by an independent walker. Parse side: RFC-layout messages produced by
//! the reference encoder, OPT at every index of the additional section.

use super::finding;
use crate::bind::*;
use crate::engine::{guarded, hex, par_shards, Ctx, Finding, Tally};
use crate::gen;
use crate::refmodel::packet::*;
use crate::refmodel::schema::Val;
use crate::refmodel::wire::walk;
use crate::refmodel::B;
use serde_json::{json, Value};
use simple_dns::Packet;

fn others(n: usize) -> Vec<RefRR> {
    let v = vec![
        rr("a.example", typed(1, vec![Val::U32(0x0a000001)])),
        rr("b.example", typed(16, vec![Val::Strs(vec![gen::b(b"x=y")])])),
    ];
    v[..n].to_vec()
}

pub fn option_lists() -> Vec<Vec<(u16, B)>> {
    let codes = [0u16, 1, 0xffff];
    let datas = [gen::b(b""), gen::b(&[0x80]), gen::b(&[1, 2]), gen::bytes_n(300, 5)];
    let mut items = Vec::new();
    for c in codes {
        for d in &datas {
            items.push((c, d.clone()));
        }
    }
    let mut out: Vec<Vec<(u16, B)>> = vec![vec![]];
    for a in &items {
        out.push(vec![a.clone()]);
    }
    // pairs and triples over a reduced item set (every code, empty / 1-byte / long data)
    let red: Vec<(u16, B)> = vec![(0, gen::b(b"")), (1, gen::b(&[0x80])), (0xffff, gen::bytes_n(300, 5)), (1, gen::b(&[1, 2]))];
    for a in &red {
        for b in &red {
            out.push(vec![a.clone(), b.clone()]);
            for c in &red {
                out.push(vec![a.clone(), b.clone(), c.clone()]);
            }
        }
    }
    for n in [5usize, 8, 12, 20] {
        out.push((0..n).map(|j| ((j * 11 % 7) as u16 + if j % 2 == 0 { 0 } else { 0x8000 }, gen::bytes_n([0usize, 1, 7, 8, 127, 128, 255, 256, 1000][j % 9], j as u8))).collect());
    }
    for l in [63usize, 64, 65, 127, 128, 129, 255, 256, 257, 1023, 1024, 4096, 20000] {
        out.push(vec![(10, gen::bytes_n(l, 1))]);
    }
    out
}

pub fn check_build(p: &RefPacket) -> Vec<Finding> {
    let mk = || json!({"kind": "build", "packet": p});
    let opt = p.opt.as_ref().unwrap();
    let mut out = Vec::new();
    for compressed in [false, true] {
        let r = guarded(|| {
            to_lib(p).and_then(|l| if compressed { l.build_bytes_vec_compressed() } else { l.build_bytes_vec() }.map_err(|e| format!("{:?}", e)))
        });
        let bytes = match r {
            Err(pn) => {
                out.push(finding(format!("C09|build|{}", pn.sig()), format!("{:?}", pn), mk()));
                continue;
            }
            Ok(Err(e)) => {
                out.push(finding("C09|build|error", e, mk()));
                continue;
            }
            Ok(Ok(b)) => b,
        };
        let w = match walk(&bytes) {
            Ok(w) => w,
            Err(e) => {
                out.push(finding("C09|build|unwalkable", format!("{:?}: {}", e, hex(&bytes)), mk()));
                continue;
            }
        };
        let opts: Vec<_> = w.records.iter().filter(|r| r.rtype == 41).collect();
        if opts.len() != 1 {
            out.push(finding("C09|build|opt-count", format!("{} OPT records written", opts.len()), mk()));
            continue;
        }
        let o = opts[0];
        let mut bad = |tag: &str, d: String| out.push(finding(format!("C09|build|{}", tag), d, mk()));
        if o.section != 3 {
            bad("opt-section", format!("OPT written in section {}", o.section));
        }
        if w.counts[3] as usize != p.additional.len() + 1 {
            bad("arcount", format!("ARCOUNT {} with {} other additional records", w.counts[3], p.additional.len()));
        }
        if w.end != bytes.len() {
            bad("trailing", format!("{} bytes after the last record", bytes.len() - w.end));
        }
        if !o.name.name.0.is_empty() || bytes[o.start] != 0 {
            bad("owner", format!("OPT owner is {:?}", o.name.name));
        }
        if o.class_raw != opt.udp {
            bad("class-udp", format!("CLASS {} but udp size {}", o.class_raw, opt.udp));
        }
        let exp_ttl = [((p.rcode >> 4) & 0xff) as u8, opt.version, 0, 0];
        if o.ttl.to_be_bytes() != exp_ttl {
            bad("ttl-layout", format!("TTL bytes {} expected {} (ext-rcode, version, flags)", hex(&o.ttl.to_be_bytes()), hex(&exp_ttl)));
        }
        let mut exp_rd = Vec::new();
        encode_options(&opt.options, &mut exp_rd);
        if bytes[o.rdata_start..o.rdata_end()] != exp_rd[..] {
            bad("rdata", format!("options {} expected {}", crate::engine::truncate(&hex(&bytes[o.rdata_start..o.rdata_end()]), 100), crate::engine::truncate(&hex(&exp_rd), 100)));
        }
        if w.flags & 0xf != p.rcode & 0xf {
            bad("header-rcode", format!("header rcode bits {} expected {}", w.flags & 0xf, p.rcode & 0xf));
        }
    }
    out
}

pub fn check_parse(p: &RefPacket, opt_pos: usize) -> Vec<Finding> {
    let mk = || json!({"kind": "parse", "packet": p, "opt_pos": opt_pos});
    let msg = p.encode(opt_pos);
    let r = guarded(|| Packet::parse(&msg).map(|x| observe(&x)));
    match r {
        Err(pn) => vec![finding(format!("C09|parse|{}", pn.sig()), format!("{:?}", pn), mk())],
        Ok(Err(e)) => vec![finding("C09|parse|rejects-rfc-layout", format!("RFC 6891 message rejected: {:?}; {}", e, crate::engine::truncate(&hex(&msg), 300)), mk())],
        Ok(Ok(o)) => {
            let mut exp = p.clone();
            if !NAMED_RCODES.contains(&exp.rcode) {
                exp.rcode = RCODE_RESERVED;
            }
            diff(&exp, &o).into_iter().map(|(tag, d)| finding(format!("C09|parse|{}", tag), d, mk())).collect()
        }
    }
}

pub fn run(ctx: &Ctx) {
    let thorough = ctx.tier == crate::engine::Tier::Thorough;
    ctx.set_rule("build side: 12 named rcodes x versions 0..=255 x all 65536 udp sizes x option lists (one list per size, all lists every 256th size; all lists every 16th size in the thorough tier) (<= 3 options over codes {0,1,0xffff} and data lengths {0,1,2,300}) x 0..=2 other additional records, plain and compressed, inspected by an independent walker; parse side: reference-encoded RFC 6891 messages with the OPT record at every index of the additional section, 12-bit rcodes incl. unnamed ones. non-trivial = non-default version, rcode > 15, options present or OPT not last");
    ctx.assume("RFC 6891 6.1.2/6.1.3: OPT owner root, CLASS = UDP size, TTL = ext-rcode(8) version(8) DO+Z(16); flags word is written as 0 and ignored on input (the library does not expose it)");
    let udp_b: Vec<u16> = vec![0, 1, 0xff, 0x100, 512, 1232, 4096, 0x7fff, 0x8000, 0xfffe, 0xffff];
    let lists = option_lists();
    // build side: rcode x version x (udp, list, others) cycling so that every pair (rcode, version) is covered
    let mut work: Vec<RefPacket> = Vec::new();
    let mut i = 0usize;
    for rc in NAMED_RCODES {
        for ver in 0..=255u8 {
            let udp = udp_b[i % udp_b.len()];
            let list = lists[i % lists.len()].clone();
            let mut p = RefPacket { id: i as u16, flags: F_QR, rcode: rc, opt: Some(RefOpt { udp, version: ver, options: list }), ..Default::default() };
            p.additional = others(i % 3);
            work.push(p);
            i += 1;
        }
    }
    // every udp size (boundary / all) x every option list at fixed rcode/version
    let udps: Vec<u16> = (0..=65535u16).collect();
    for (j, udp) in udps.iter().enumerate() {
        let ls: Vec<&Vec<(u16, B)>> = if j % (if thorough { 16 } else { 256 }) != 0 { vec![&lists[j % lists.len()]] } else { lists.iter().collect() };
        for list in ls {
            for n in 0..3 {
                if thorough && n != j % 3 && j % 256 != 0 {
                    continue;
                }
                let mut p = RefPacket { id: 9, rcode: if n == 1 { 16 } else { 3 }, opt: Some(RefOpt { udp: *udp, version: (j % 7) as u8, options: list.clone() }), ..Default::default() };
                p.additional = others(n);
                work.push(p);
            }
        }
    }
    let chunks: Vec<&[RefPacket]> = work.chunks(256).collect();
    par_shards(ctx, &chunks, |ps, t: &mut Tally| {
        for p in ps.iter() {
            t.evals += 1;
            t.transitions += 2;
            let o = p.opt.as_ref().unwrap();
            if o.version != 0 || p.rcode > 15 || !o.options.is_empty() {
                t.nontrivial += 1;
            }
            let f = check_build(p);
            t.outcome(if f.is_empty() { "build-ok" } else { "build-bad" });
            if !f.is_empty() {
                ctx.violations(f);
            }
        }
    });
    ctx.space("build: 12 rcodes x 256 versions; udp sizes x option lists x 0..=2 other records", work.len() as u64, "complete");
    ctx.sample(json!({"kind": "build", "packet": work[300]}));
    // parse side
    let mut pw: Vec<(RefPacket, usize)> = Vec::new();
    let rcodes12: Vec<u16> = {
        let mut v: Vec<u16> = NAMED_RCODES.to_vec();
        v.extend([11u16, 15, 17, 26, 27, 0x123, 0xff0, 0xfff]);
        v
    };
    let versions: Vec<u8> = if thorough { (0..=255).collect() } else { vec![0, 1, 2, 0x7f, 0x80, 0xff] };
    let mut j = 0usize;
    for rc in &rcodes12 {
        for ver in &versions {
            for n in 0..3usize {
                for pos in 0..=n {
                    let list = lists[j % lists.len()].clone();
                    let mut p = RefPacket { id: j as u16, flags: F_QR | F_RD, rcode: *rc, opt: Some(RefOpt { udp: udp_b[j % udp_b.len()], version: *ver, options: list }), ..Default::default() };
                    p.additional = others(n);
                    if j % 4 == 0 {
                        p.questions.push(RefQ { name: crate::refmodel::RefName::txt("q.example"), qtype: 1, qclass: 1, unicast: false });
                        p.answers = others(1);
                    }
                    pw.push((p, pos));
                    j += 1;
                }
            }
        }
    }
    for list in &lists {
        for udp in &udp_b {
            let p = RefPacket { id: 1, opt: Some(RefOpt { udp: *udp, version: 0, options: list.clone() }), additional: others(1), ..Default::default() };
            pw.push((p.clone(), 0));
            pw.push((p, 1));
        }
    }
    let chunks: Vec<&[(RefPacket, usize)]> = pw.chunks(256).collect();
    par_shards(ctx, &chunks, |ps, t: &mut Tally| {
        for (p, pos) in ps.iter() {
            t.evals += 1;
            t.transitions += 1;
            let o = p.opt.as_ref().unwrap();
            if o.version != 0 || p.rcode > 15 || !o.options.is_empty() || *pos < p.additional.len() {
                t.nontrivial += 1;
            }
            let f = check_parse(p, *pos);
            t.outcome(if f.is_empty() { "parse-ok" } else { "parse-bad" });
            if !f.is_empty() {
                ctx.violations(f);
            }
        }
    });
    ctx.space("parse: 20 12-bit rcodes x versions x 0..=2 other records x every OPT index; option lists x udp sizes", pw.len() as u64, "complete");
    ctx.sample(json!({"kind": "parse", "packet": pw[100].0, "opt_pos": pw[100].1}));
}

pub fn replay(case: &Value) -> Vec<Finding> {
    let p: RefPacket = match serde_json::from_value(case["packet"].clone()) {
        Ok(p) => p,
        Err(e) => return vec![finding("C09|replay-unreadable", format!("{}", e), case.clone())],
    };
    match case["kind"].as_str().unwrap_or("") {
        "build" => check_build(&p),
        "parse" => check_parse(&p, case["opt_pos"].as_u64().unwrap_or(0) as usize),
        _ => vec![],
    }
}
