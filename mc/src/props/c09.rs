//! C09 — EDNS(0) data is carried per RFC 6891.
//! Build side: every (rcode, version, udp size, option list, other additional records) is built
//! and the bytes inspected by an independent walker. Parse side: RFC-layout messages produced by
//! the reference encoder, OPT at every index of the additional section.

use super::finding;
use crate::bind::*;
use crate::engine::{guarded, hex, par_shards, Ctx, Finding, Tally};
use crate::gen;
use crate::refmodel::packet::*;
use crate::refmodel::schema::Val;
use crate::refmodel::wire::walk;
use crate::refmodel::B;
use serde_json::{json, Value};
use simple_dns::Packet;

fn others(n: usize) -> Vec<RefRR> {
    let v = vec![
        rr("a.example", typed(1, vec![Val::U32(0x0a000001)])),
        rr("b.example", typed(16, vec![Val::Strs(vec![gen::b(b"x=y")])])),
    ];
    v[..n].to_vec()
}

pub fn option_lists() -> Vec<Vec<(u16, B)>> {
    let codes = [0u16, 1, 0xffff];
    let datas = [gen::b(b""), gen::b(&[0x80]), gen::b(&[1, 2]), gen::bytes_n(300, 5)];
    let mut items = Vec::new();
    for c in codes {
        for d in &datas {
            items.push((c, d.clone()));
        }
    }
    let mut out: Vec<Vec<(u16, B)>> = vec![vec![]];
    for a in &items {
        out.push(vec![a.clone()]);
    }
    // pairs and triples over a reduced item set (every code, empty / 1-byte / long data)
    let red: Vec<(u16, B)> = vec![(0, gen::b(b"")), (1, gen::b(&[0x80])), (0xffff, gen::bytes_n(300, 5)), (1, gen::b(&[1, 2]))];
    for a in &red {
        for b in &red {
            out.push(vec![a.clone(), b.clone()]);
            for c in &red {
                out.push(vec![a.clone(), b.clone(), c.clone()]);
            }
        }
    }
    for n in [5usize, 8, 12, 20] {
        out.push((0..n).map(|j| ((j * 11 % 7) as u16 + if j % 2 == 0 { 0 } else { 0x8000 }, gen::bytes_n([0usize, 1, 7, 8, 127, 128, 255, 256, 1000][j % 9], j as u8))).collect());
    }
    for l in [63usize, 64, 65, 127, 128, 129, 255, 256, 257, 1023, 1024, 4096, 20000] {
        out.push(vec![(10, gen::bytes_n(l, 1))]);
    }
    out.extend(gen::opt_many_codes().into_iter().map(|o| o.options));
    // options whose payload has an inner structure (client subnet and its neighbours)
    out.extend(gen::structured_options().into_iter().map(|o| vec![o]));
    out
}

pub fn check_build(p: &RefPacket) -> Vec<Finding> {
    let mk = || json!({"kind": "build", "packet": p});
    let mut out = Vec::new();
    // sinks that take only part of what they are offered: per write call, and in a gathered write
    if p.opt.as_ref().map(|o| !o.options.is_empty()).unwrap_or(false) {
        let r = guarded(|| -> Result<Vec<(String, String)>, String> {
            let l = to_lib(p)?;
            let want = l.build_bytes_vec().map_err(|e| format!("{:?}", e))?;
            let mut bad = Vec::new();
            for n in [1usize, 5, 64] {
                let mut w = crate::engine::Gather::new(n);
                let res = l.write_to(&mut w);
                let got = w.buf.into_inner();
                if res.is_err() || got != want {
                    bad.push(("gather-writer".to_string(), format!("write_to into a writer with a gathered write limited to {} bytes per call: result {:?}, {} bytes written, the vector build has {}; first difference at {:?}", n, res.map_err(|e| format!("{:?}", e)), got.len(), want.len(), got.iter().zip(want.iter()).position(|(a, b)| a != b))));
                }
                let mut w = crate::engine::Drip::new(n);
                let res = l.write_to(&mut w);
                let got = w.buf.into_inner();
                if res.is_err() || got != want {
                    bad.push(("drip-writer".to_string(), format!("write_to into a writer accepting {} bytes per call: result {:?}, {} bytes written, the vector build has {}", n, res.map_err(|e| format!("{:?}", e)), got.len(), want.len())));
                }
            }
            Ok(bad)
        });
        match r {
            Err(pn) => out.push(finding(format!("C09|build|writer|{}", pn.sig()), format!("{:?}", pn), mk())),
            Ok(Err(_)) => {}
            Ok(Ok(bad)) => {
                for (t, d) in bad {
                    out.push(finding(format!("C09|build|{}", t), d, mk()));
                }
            }
        }
    }
    for compressed in [false, true] {
        let r = guarded(|| {
            to_lib(p).and_then(|l| if compressed { l.build_bytes_vec_compressed() } else { l.build_bytes_vec() }.map_err(|e| format!("{:?}", e)))
        });
        match r {
            Err(pn) => out.push(finding(format!("C09|build|{}", pn.sig()), format!("{:?}", pn), mk())),
            Ok(Err(e)) => out.push(finding("C09|build|error", e, mk())),
            Ok(Ok(b)) => judge_bytes(p, &b, "build", &mk, &mut out),
        }
    }
    out
}

/// A message with EDNS data is parsed, then edited through the public mutators (response code
/// replaced through rcode_mut, EDNS data replaced or adjusted through opt_mut, on the packet or
/// on a clone of it), then serialised: the bytes must describe the edited packet.
pub fn check_parse_edit(p: &RefPacket, new_rcode: u16, edit: u8) -> Vec<Finding> {
    let mk = || json!({"kind": "parse-edit", "packet": p, "new_rcode": new_rcode, "edit": edit});
    let msg = p.encode(0);
    let mut want = p.clone();
    want.rcode = new_rcode;
    if edit == 2 {
        if let Some(o) = want.opt.as_mut() {
            o.udp = 4000;
            o.version = 3;
        }
    }
    if edit == 3 {
        want.opt = Some(RefOpt { udp: 512, version: 0, options: vec![(10, crate::gen::b(&[9, 9, 9, 9, 9, 9, 9, 9]))] });
    }
    let mut out = Vec::new();
    for compressed in [false, true] {
        let want2 = want.clone();
        let r = guarded(|| -> Result<Vec<u8>, String> {
            let parsed = Packet::parse(&msg).map_err(|e| format!("parse: {:?}", e))?;
            let mut pk = if edit == 1 { parsed.clone() } else { parsed };
            *pk.rcode_mut() = lib_rcode(new_rcode);
            if edit == 2 {
                if let Some(o) = pk.opt_mut().as_mut() {
                    o.udp_packet_size = 4000;
                    o.version = 3;
                }
            }
            if edit == 3 {
                *pk.opt_mut() = Some(lib_opt(want2.opt.as_ref().unwrap()).into_owned());
            }
            if compressed { pk.build_bytes_vec_compressed() } else { pk.build_bytes_vec() }.map_err(|e| format!("build: {:?}", e))
        });
        match r {
            Err(pn) => out.push(finding(format!("C09|parse-edit|{}", pn.sig()), format!("{:?}", pn), mk())),
            Ok(Err(e)) => out.push(finding("C09|parse-edit|error", e, mk())),
            Ok(Ok(b)) => {
                judge_bytes(&want, &b, "parse-edit", &mk, &mut out);
                // and the result parses back to the edited packet
                match guarded(|| Packet::parse(&b).map(|x| observe(&x))) {
                    Ok(Ok(o)) => {
                        if o.rcode != want.rcode || o.opt != want.opt {
                            out.push(finding("C09|parse-edit|reparse", format!("after parse, edit (rcode {} -> {}), serialise, parse: rcode {} EDNS {:?}, expected rcode {} EDNS {:?}", p.rcode, new_rcode, o.rcode, o.opt, want.rcode, want.opt), mk()));
                        }
                    }
                    Ok(Err(e)) => out.push(finding("C09|parse-edit|reparse-error", format!("{:?}", e), mk())),
                    Err(pn) => out.push(finding(format!("C09|parse-edit|{}", pn.sig()), format!("{:?}", pn), mk())),
                }
            }
        }
    }
    out
}

fn judge_bytes(p: &RefPacket, bytes: &[u8], stage: &str, mk: &dyn Fn() -> Value, out: &mut Vec<Finding>) {
    let opt = p.opt.as_ref().unwrap();
    let w = match walk(bytes) {
        Ok(w) => w,
        Err(e) => {
            out.push(finding(format!("C09|{}|unwalkable", stage), format!("{:?}: {}", e, hex(bytes)), mk()));
            return;
        }
    };
    let opts: Vec<_> = w.records.iter().filter(|r| r.rtype == 41).collect();
    if opts.len() != 1 {
        out.push(finding(format!("C09|{}|opt-count", stage), format!("{} OPT records written", opts.len()), mk()));
        return;
    }
    let o = opts[0];
    let mut bad = |tag: &str, d: String| out.push(finding(format!("C09|{}|{}", stage, tag), d, mk()));
    if o.section != 3 {
        bad("opt-section", format!("OPT written in section {}", o.section));
    }
    if w.counts[3] as usize != p.additional.len() + 1 {
        bad("arcount", format!("ARCOUNT {} with {} other additional records", w.counts[3], p.additional.len()));
    }
    if w.end != bytes.len() {
        bad("trailing", format!("{} bytes after the last record", bytes.len() - w.end));
    }
    if !o.name.name.0.is_empty() || bytes[o.start] != 0 {
        bad("owner", format!("OPT owner is {:?}", o.name.name));
    }
    if o.class_raw != opt.udp {
        bad("class-udp", format!("CLASS {} but udp size {}", o.class_raw, opt.udp));
    }
    let exp_ttl = [((p.rcode >> 4) & 0xff) as u8, opt.version, 0, 0];
    if o.ttl.to_be_bytes() != exp_ttl {
        bad("ttl-layout", format!("TTL bytes {} expected {} (ext-rcode, version, flags)", hex(&o.ttl.to_be_bytes()), hex(&exp_ttl)));
    }
    let mut exp_rd = Vec::new();
    encode_options(&opt.options, &mut exp_rd);
    if bytes[o.rdata_start..o.rdata_end()] != exp_rd[..] {
        bad("rdata", format!("options {} expected {}", crate::engine::truncate(&hex(&bytes[o.rdata_start..o.rdata_end()]), 100), crate::engine::truncate(&hex(&exp_rd), 100)));
    }
    if w.flags & 0xf != p.rcode & 0xf {
        bad("header-rcode", format!("header rcode bits {} expected {}", w.flags & 0xf, p.rcode & 0xf));
    }
}

pub fn check_parse(p: &RefPacket, opt_pos: usize) -> Vec<Finding> {
    let mk = || json!({"kind": "parse", "packet": p, "opt_pos": opt_pos});
    let msg = p.encode(opt_pos);
    let r = guarded(|| Packet::parse(&msg).map(|x| observe(&x)));
    match r {
        Err(pn) => vec![finding(format!("C09|parse|{}", pn.sig()), format!("{:?}", pn), mk())],
        Ok(Err(e)) => vec![finding("C09|parse|rejects-rfc-layout", format!("RFC 6891 message rejected: {:?}; {}", e, crate::engine::truncate(&hex(&msg), 300)), mk())],
        Ok(Ok(o)) => {
            let mut exp = p.clone();
            // an unnamed code surfaces as Reserved, or (if the library has a name for it that this
            // harness does not) as its own number
            if !NAMED_RCODES.contains(&exp.rcode) && o.rcode != exp.rcode {
                exp.rcode = RCODE_RESERVED;
            }
            diff(&exp, &o).into_iter().map(|(tag, d)| finding(format!("C09|parse|{}", tag), d, mk())).collect()
        }
    }
}

pub fn run(ctx: &Ctx) {
    let thorough = ctx.tier == crate::engine::Tier::Thorough;
    ctx.set_rule("build side: 12 named rcodes x versions 0..=255 x all 65536 udp sizes x option lists (one list per size, all lists every 2048th size; all lists every 256th size in the thorough tier) (<= 3 options over codes {0,1,0xffff} and data lengths {0,1,2,300}) x 0..=2 other additional records, plain and compressed, inspected by an independent walker; parse side: reference-encoded RFC 6891 messages with the OPT record at every index of the additional section, 12-bit rcodes incl. unnamed ones. non-trivial = non-default version, rcode > 15, options present or OPT not last");
    ctx.assume("RFC 6891 6.1.2/6.1.3: OPT owner root, CLASS = UDP size, TTL = ext-rcode(8) version(8) DO+Z(16); flags word is written as 0 and ignored on input (the library does not expose it)");
    let udp_b: Vec<u16> = vec![0, 1, 0xff, 0x100, 512, 1232, 4096, 0x7fff, 0x8000, 0xfffe, 0xffff];
    let lists = option_lists();
    // build side: rcode x version x (udp, list, others) cycling so that every pair (rcode, version) is covered
    let mut work: Vec<RefPacket> = Vec::new();
    let mut i = 0usize;
    for rc in NAMED_RCODES {
        for ver in 0..=255u8 {
            let udp = udp_b[i % udp_b.len()];
            let list = lists[i % lists.len()].clone();
            let mut p = RefPacket { id: i as u16, flags: F_QR, rcode: rc, opt: Some(RefOpt { udp, version: ver, options: list }), ..Default::default() };
            p.additional = others(i % 3);
            work.push(p);
            i += 1;
        }
    }
    // every udp size (boundary / all) x every option list at fixed rcode/version
    let udps: Vec<u16> = (0..=65535u16).collect();
    for (j, udp) in udps.iter().enumerate() {
        let ls: Vec<&Vec<(u16, B)>> = if j % (if thorough { 256 } else { 2048 }) != 0 { vec![&lists[j % lists.len()]] } else { lists.iter().collect() };
        for list in ls {
            for n in 0..3 {
                if thorough && n != j % 3 && j % 256 != 0 {
                    continue;
                }
                let mut p = RefPacket { id: 9, rcode: if n == 1 { 16 } else { 3 }, opt: Some(RefOpt { udp: *udp, version: (j % 7) as u8, options: list.clone() }), ..Default::default() };
                p.additional = others(n);
                work.push(p);
            }
        }
    }
    let chunks: Vec<&[RefPacket]> = work.chunks(256).collect();
    par_shards(ctx, &chunks, |ps, t: &mut Tally| {
        for p in ps.iter() {
            t.evals += 1;
            t.transitions += 2;
            let o = p.opt.as_ref().unwrap();
            if o.version != 0 || p.rcode > 15 || !o.options.is_empty() {
                t.nontrivial += 1;
            }
            let f = check_build(p);
            t.outcome(if f.is_empty() { "build-ok" } else { "build-bad" });
            if !f.is_empty() {
                ctx.violations(f);
            }
        }
    });
    ctx.space("build: 12 rcodes x 256 versions; udp sizes x option lists x 0..=2 other records", work.len() as u64, "complete");
    {
        // EDNS at the ceilings: an OPT record whose options exceed 65535 bytes of RDATA, and the
        // OPT record as the last entry an additional section can hold
        let cases: Vec<(&'static str, usize)> = super::c04::ceiling_cases().into_iter().filter(|(k, _)| *k == "opt-rdata" || *k == "additional+opt").collect();
        par_shards(ctx, &cases, |(kind, n), t: &mut Tally| {
            t.evals += 1;
            t.nontrivial += 1;
            let f: Vec<Finding> = super::c04::check_ceiling(kind, *n).into_iter().map(|f| Finding { sig: f.sig.replacen("C04|", "C09|", 1), ..f }).collect();
            t.outcome(if f.is_empty() { "ok" } else { "bad" });
            if !f.is_empty() {
                ctx.violations(f);
            }
        });
        ctx.space("EDNS at the 16-bit ceilings: OPT records of 254..600 options of 252 bytes, additional sections of 65533..131073 records plus the OPT record, both vector builds and both writers", cases.len() as u64, "complete");
    }
    ctx.sample(json!({"kind": "build", "packet": work[300]}));
    // parse side
    let mut pw: Vec<(RefPacket, usize)> = Vec::new();
    let rcodes12: Vec<u16> = {
        let mut v: Vec<u16> = NAMED_RCODES.to_vec();
        v.extend([11u16, 15, 17, 26, 27, 0x123, 0xff0, 0xfff]);
        v
    };
    let versions: Vec<u8> = if thorough { (0..=255).collect() } else { vec![0, 1, 2, 0x7f, 0x80, 0xff] };
    let mut j = 0usize;
    for rc in &rcodes12 {
        for ver in &versions {
            for n in 0..3usize {
                for pos in 0..=n {
                    let list = lists[j % lists.len()].clone();
                    let mut p = RefPacket { id: j as u16, flags: F_QR | F_RD, rcode: *rc, opt: Some(RefOpt { udp: udp_b[j % udp_b.len()], version: *ver, options: list }), ..Default::default() };
                    p.additional = others(n);
                    if j % 4 == 0 {
                        p.questions.push(RefQ { name: crate::refmodel::RefName::txt("q.example"), qtype: 1, qclass: 1, unicast: false });
                        p.answers = others(1);
                    }
                    pw.push((p, pos));
                    j += 1;
                }
            }
        }
    }
    // every 12-bit response code (extended byte x header nibble)
    for rc in 0..4096u16 {
        let p = RefPacket { id: rc, flags: F_QR, rcode: rc, opt: Some(RefOpt { udp: 1232, version: 0, options: vec![] }), additional: others((rc % 2) as usize), ..Default::default() };
        pw.push((p, (rc % 2) as usize));
    }
    for list in &lists {
        for udp in &udp_b {
            let p = RefPacket { id: 1, opt: Some(RefOpt { udp: *udp, version: 0, options: list.clone() }), additional: others(1), ..Default::default() };
            pw.push((p.clone(), 0));
            pw.push((p, 1));
        }
    }
    let chunks: Vec<&[(RefPacket, usize)]> = pw.chunks(256).collect();
    par_shards(ctx, &chunks, |ps, t: &mut Tally| {
        for (p, pos) in ps.iter() {
            t.evals += 1;
            t.transitions += 1;
            let o = p.opt.as_ref().unwrap();
            if o.version != 0 || p.rcode > 15 || !o.options.is_empty() || *pos < p.additional.len() {
                t.nontrivial += 1;
            }
            let f = check_parse(p, *pos);
            t.outcome(if f.is_empty() { "parse-ok" } else { "parse-bad" });
            if !f.is_empty() {
                ctx.violations(f);
            }
        }
    });
    ctx.space("parse: 20 12-bit rcodes x versions x 0..=2 other records x every OPT index; every 12-bit rcode 0..=4095; option lists x udp sizes", pw.len() as u64, "complete");
    ctx.sample(json!({"kind": "parse", "packet": pw[100].0, "opt_pos": pw[100].1}));
    // non-initial states: parsed, edited, serialised
    {
        let mut cases: Vec<(RefPacket, u16, u8)> = Vec::new();
        for (k, from) in NAMED_RCODES.iter().enumerate() {
            for to in NAMED_RCODES {
                for edit in 0..4u8 {
                    let mut p = RefPacket { id: 77, flags: F_QR, rcode: *from, opt: Some(RefOpt { udp: 1232, version: (k % 2) as u8, options: lists[k % lists.len()].clone() }), ..Default::default() };
                    p.additional = others(k % 3);
                    p.questions.push(RefQ { name: crate::refmodel::RefName::txt("q.example"), qtype: 1, qclass: 1, unicast: false });
                    cases.push((p, to, edit));
                }
            }
        }
        let chunks: Vec<&[(RefPacket, u16, u8)]> = cases.chunks(64).collect();
        par_shards(ctx, &chunks, |cs, t: &mut Tally| {
            for (p, to, edit) in cs.iter() {
                t.evals += 1;
                t.transitions += 3;
                t.nontrivial += 1;
                let f = check_parse_edit(p, *to, *edit);
                t.outcome(if f.is_empty() { "edit-ok" } else { "edit-bad" });
                if !f.is_empty() {
                    ctx.violations(f);
                }
            }
        });
        ctx.space("parse-edit-serialise: every ordered pair of the 12 named response codes (incl. the extended ones) x {rcode_mut on the packet, on a clone, plus opt_mut field edits, plus a replaced OPT}; output walked independently and parsed back", cases.len() as u64, "complete");
    }
}

pub fn replay(case: &Value) -> Vec<Finding> {
    if case["kind"].as_str() == Some("ceiling") {
        return super::c04::check_ceiling(case["what"].as_str().unwrap_or(""), case["n"].as_u64().unwrap_or(0) as usize).into_iter().map(|f| Finding { sig: f.sig.replacen("C04|", "C09|", 1), ..f }).collect();
    }
    let p: RefPacket = match serde_json::from_value(case["packet"].clone()) {
        Ok(p) => p,
        Err(e) => return vec![finding("C09|replay-unreadable", format!("{}", e), case.clone())],
    };
    match case["kind"].as_str().unwrap_or("") {
        "build" => check_build(&p),
        "parse-edit" => check_parse_edit(&p, case["new_rcode"].as_u64().unwrap_or(0) as u16, case["edit"].as_u64().unwrap_or(0) as u8),
        "parse" => check_parse(&p, case["opt_pos"].as_u64().unwrap_or(0) as usize),
        _ => vec![],
    }
}
