//! One module per property: declared spaces, oracle, signatures, replay.

use crate::engine::{Ctx, Finding};
use serde_json::Value;

pub mod c01;
pub mod c06;
pub mod c08;
pub mod c17;
pub mod c18;
pub mod c19;

pub fn run(ctx: &Ctx) -> bool {
    match ctx.prop.as_str() {
        "C01" => c01::run(ctx),
        "C06" => c06::run(ctx),
        "C08" => c08::run(ctx),
        "C17" => c17::run(ctx),
        "C18" => c18::run(ctx),
        "C19" => c19::run(ctx),
        _ => return false,
    }
    true
}

pub fn replay(prop: &str, case: &Value) -> Option<Vec<Finding>> {
    Some(match prop {
        "C01" => c01::replay(case),
        "C06" => c06::replay(case),
        "C08" => c08::replay(case),
        "C17" => c17::replay(case),
        "C18" => c18::replay(case),
        "C19" => c19::replay(case),
        _ => return None,
    })
}

pub fn finding(sig: impl Into<String>, detail: impl Into<String>, case: Value) -> Finding {
    Finding { sig: sig.into(), detail: detail.into(), case }
}
