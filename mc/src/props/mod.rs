//! One module per property: declared spaces, oracle, signatures, replay.

use crate::engine::{Ctx, Finding};
use serde_json::Value;

pub mod c08;

pub fn run(ctx: &Ctx) -> bool {
    match ctx.prop.as_str() {
        "C08" => c08::run(ctx),
        _ => return false,
    }
    true
}

pub fn replay(prop: &str, case: &Value) -> Option<Vec<Finding>> {
    Some(match prop {
        "C08" => c08::replay(case),
        _ => return None,
    })
}

pub fn finding(sig: impl Into<String>, detail: impl Into<String>, case: Value) -> Finding {
    Finding { sig: sig.into(), detail: detail.into(), case }
}
