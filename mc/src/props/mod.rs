//! One module per property: declared spaces, oracle, signatures, replay.

use crate::engine::{Ctx, Finding};
use serde_json::Value;

macro_rules! props {
    ($(($id:literal, $m:ident)),* $(,)?) => {
        $(pub mod $m;)*
        pub fn run(ctx: &Ctx) -> bool {
            let mdns = uses_logging(ctx.prop.as_str());
            if mdns {
                crate::engine::set_logging(false);
            }
            match ctx.prop.as_str() {
                $($id => $m::run(ctx),)*
                _ => return false,
            }
            if mdns && !crate::engine::secondary_profile() {
                // the library logs through the `log` facade: the same spaces once more with
                // every logging statement evaluated (first build profile only: of the four
                // combinations of build profile and log level, release + TRACE is left out)
                ctx.second_pass();
                match ctx.prop.as_str() {
                    $($id => $m::run(ctx),)*
                    _ => return false,
                }
            }
            true
        }
        pub fn replay(prop: &str, case: &Value) -> Option<Vec<Finding>> {
            let once = |prop: &str| -> Option<Vec<Finding>> {
                Some(match prop {
                    $($id => $m::replay(case),)*
                    _ => return None,
                })
            };
            if !uses_logging(prop) {
                return once(prop);
            }
            crate::engine::set_logging(false);
            let f = once(prop)?;
            if !f.is_empty() {
                return Some(f);
            }
            crate::engine::set_logging(true);
            let f = once(prop);
            crate::engine::set_logging(false);
            f
        }
    };
}

props!(
    ("C01", c01),
    ("C02", c02),
    ("C03", c03),
    ("C04", c04),
    ("C05", c05),
    ("C06", c06),
    ("C07", c07),
    ("C08", c08),
    ("C09", c09),
    ("C10", c10),
    ("C11", c11),
    ("C12", c12),
    ("C13", c13),
    ("C14", c14),
    ("C15", c15),
    ("C16", c16),
    ("C17", c17),
    ("C18", c18),
    ("C19", c19),
    ("C20", c20),
);

pub mod longev;

/// The simple-mdns properties: that crate logs through the `log` facade, whose process-wide
/// level is part of the environment.
fn uses_logging(prop: &str) -> bool {
    matches!(prop, "C13" | "C14" | "C15" | "C16" | "C20")
}

pub fn finding(sig: impl Into<String>, detail: impl Into<String>, case: Value) -> Finding {
    Finding { sig: sig.into(), detail: detail.into(), case }
}
