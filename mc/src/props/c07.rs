//! C07 — emitted compression pointers are valid and used where allowed.
//! Same packets as C03; the compressed output (written from offset 0 and from non-zero offsets
//! of a cursor) is audited by an independent, schema-aware walker.

use super::finding;
use crate::bind::*;
use crate::engine::{guarded, Ctx, Finding};
use crate::refmodel::packet::*;
use crate::refmodel::schema::{self, decode_vals, Comp};
use crate::refmodel::wire::{decode_name, walk, NameDec};
use crate::refmodel::RefName;
use serde_json::Value;
use std::io::Cursor;

#[derive(Clone, Copy, PartialEq, Eq, Debug)]
enum Pos {
    Question,
    Owner,
    Rdata(Comp, u16),
}

/// Audit one compressed message (already cut to start at its first byte).
pub fn audit(p: &RefPacket, msg: &[u8]) -> Vec<(String, String)> {
    let mut bad: Vec<(String, String)> = Vec::new();
    // 1. the output must decode, per the RFCs, to the intended packet
    match decode_packet(msg) {
        Err(e) => {
            bad.push(("undecodable".into(), format!("reference decoder fails on the compressed output: {:?}", e)));
            return bad;
        }
        Ok((d, w)) => {
            if w.end != msg.len() {
                bad.push(("trailing-bytes".into(), format!("{} bytes after the last entry", msg.len() - w.end)));
            }
            let mut exp = p.clone();
            // OPT placement is free; compare content
            if d != exp {
                exp.id = d.id;
                for (tag, det) in diff(p, &d) {
                    bad.push((format!("expands-wrong|{}", tag), format!("pointer expansion gives a different packet: {}", det)));
                }
                if bad.is_empty() {
                    bad.push(("expands-wrong".into(), "decoded packet differs".into()));
                }
                return bad;
            }
        }
    }
    // 2. locate every name occurrence
    let w = match walk(msg) {
        Ok(w) => w,
        Err(_) => return bad,
    };
    let mut occ: Vec<(usize, Pos, NameDec)> = Vec::new();
    for q in &w.questions {
        occ.push((q.start, Pos::Question, q.name.clone()));
    }
    for r in &w.records {
        occ.push((r.start, Pos::Owner, r.name.clone()));
        if r.rdlen == 0 || r.rtype == 41 {
            continue;
        }
        if let Some(sch) = schema::schema(r.rtype) {
            if let Ok(d) = decode_vals(sch, msg, r.rdata_start, r.rdata_end()) {
                for (off, comp, _) in d.names {
                    if let Ok(nd) = decode_name(&msg[..r.rdata_end()], off) {
                        occ.push((off, Pos::Rdata(comp, r.rtype), nd));
                    }
                }
            }
        }
    }
    // 3. audit pointers in message order
    let mut label_starts: Vec<usize> = Vec::new();
    let mut whole: Vec<(RefName, usize, bool)> = Vec::new(); // (name, offset of first label, compressible position)
    for (off, pos, nd) in &occ {
        let compressible = matches!(pos, Pos::Question | Pos::Owner | Pos::Rdata(Comp::Rfc1035, _));
        if let Some((pp, target)) = nd.pointers.first() {
            if *target >= *pp {
                bad.push(("pointer-not-backwards".into(), format!("pointer at {} targets {}", pp, target)));
            }
            if !label_starts.contains(target) {
                bad.push(("pointer-target-not-a-label-start".into(), format!("pointer at {} targets {}, which is not the start of a label of an earlier-written name", pp, target)));
            }
            if let Pos::Rdata(Comp::Never, ty) = pos {
                let mn = schema::schema(*ty).map(|s| s.mnemonic).unwrap_or("?");
                bad.push((format!("compressed-forbidden|{}", mn), format!("{} RDATA name at {} contains a compression pointer", mn, off)));
            }
        }
        if compressible && !nd.name.0.is_empty() && nd.inplace_labels() > 0 {
            if let Some((_, at, _)) = whole.iter().find(|(n, at, c)| *n == nd.name && *c && *at <= 16383) {
                bad.push((
                    "repeat-not-compressed".into(),
                    format!("name {:?} at {} is written with {} labels in place although the same name was written at {} in a compressible position", nd.name, off, nd.inplace_labels(), at),
                ));
            }
        }
        // record what this occurrence wrote in place
        let inplace = nd.inplace_labels();
        for lo in nd.label_offsets.iter().take(inplace) {
            label_starts.push(*lo);
        }
        if inplace > 0 {
            whole.push((nd.name.clone(), *off, compressible));
            // suffixes written in place are whole names too (their remaining labels begin there)
            for k in 1..inplace {
                whole.push((RefName(nd.name.0[k..].to_vec()), nd.label_offsets[k], false));
            }
        }
    }
    bad
}

pub fn check_packet(p: &RefPacket, case: &dyn Fn() -> Value, offsets: &[usize]) -> Vec<Finding> {
    let mut out = Vec::new();
    for &k in offsets {
        let r = guarded(|| -> Result<Vec<u8>, String> {
            let l = to_lib(p)?;
            if k == usize::MAX {
                return l.build_bytes_vec_compressed().map_err(|e| format!("{:?}", e));
            }
            let mut cur = Cursor::new(vec![0xeeu8; k]);
            cur.set_position(k as u64);
            l.write_compressed_to(&mut cur).map_err(|e| format!("{:?}", e))?;
            let v = cur.into_inner();
            Ok(v[k..].to_vec())
        });
        let how = if k == usize::MAX { "vec".to_string() } else { format!("cursor@{}", if k == 0 { "0" } else { "k" }) };
        match r {
            Err(pn) => out.push(finding(format!("C07|{}|{}", how, pn.sig()), format!("{:?}", pn), case())),
            Ok(Err(e)) => out.push(finding(format!("C07|{}|write-error", how), format!("write_compressed_to (start offset {}) failed: {}", k, e), case())),
            Ok(Ok(msg)) => {
                for (tag, d) in audit(p, &msg) {
                    out.push(finding(format!("C07|{}|{}", how, tag), format!("start offset {}: {}", if k == usize::MAX { 0 } else { k }, d), case()));
                }
            }
        }
    }
    out
}

pub fn run(ctx: &Ctx) {
    ctx.set_rule("every packet of the C03 spaces is written compressed by build_bytes_vec_compressed and by write_compressed_to on a cursor starting at offsets {0,1,2,12,300}; an independent schema-aware walker decodes the output per the RFCs (must equal the intended packet), locates every name occurrence and checks each pointer: strictly backwards, target is the start of a label written in place earlier, no pointer inside SRV/NAPTR/KX/RRSIG/NSEC/IPSECKEY/SVCB/HTTPS RDATA, and a whole name repeated in a compressible position (question, owner, RFC 1035 RDATA) is a bare pointer when its earlier occurrence starts at <= 16383. non-trivial = the output contains at least one pointer");
    ctx.assume("suffix sharing between different names is allowed but not demanded; RP/AFSDB/RT/NSAP-PTR RDATA names may or may not be compressed");
    let offs: Vec<usize> = vec![usize::MAX, 0, 1, 2, 12, 300];
    super::c03::for_each_space(ctx, &|p, case, t| {
        t.evals += 1;
        t.transitions += offs.len() as u64;
        let f = check_packet(p, case, &offs);
        let has_ptr = guarded(|| to_lib(p).ok().and_then(|l| Some(l.build_bytes_vec_compressed().ok()?.len() < l.build_bytes_vec().ok()?.len())).unwrap_or(false)).unwrap_or(false);
        if has_ptr {
            t.nontrivial += 1;
        }
        t.outcome(if f.is_empty() { "valid" } else { "invalid" });
        if !f.is_empty() {
            ctx.violations(f);
        }
    });
}

pub fn replay(case: &Value) -> Vec<Finding> {
    match super::c03::case_packet(case) {
        Some(p) => check_packet(&p, &|| case.clone(), &[usize::MAX, 0, 1, 2, 12, 300]),
        None => vec![finding("C07|replay-unreadable", "case not understood".to_string(), case.clone())],
    }
}
