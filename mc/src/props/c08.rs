//! C08 — header bits are read and written per RFC 1035 section 4.1.1.
//! Exhaustive over all 65536 flag words (parse, peek, re-serialise), all 128x128 flag-set pairs
//! for the set/remove/has algebra, all named opcodes x rcodes x flag subsets on the build side.

use super::finding;
use crate::bind::*;
use crate::engine::{guarded, par_shards, Ctx, Finding, Tally};
use crate::refmodel::packet::*;
use serde_json::{json, Value};
use simple_dns::{header_buffer, Packet};

fn subsets() -> Vec<u16> {
    (0..128u16)
        .map(|m| ALL_FLAGS.iter().enumerate().filter(|(i, _)| m & (1 << i) != 0).map(|(_, b)| *b).sum())
        .collect()
}

fn header(id: u16, word: u16, counts: [u16; 4]) -> Vec<u8> {
    let mut h = Vec::with_capacity(12);
    h.extend_from_slice(&id.to_be_bytes());
    h.extend_from_slice(&word.to_be_bytes());
    for c in counts {
        h.extend_from_slice(&c.to_be_bytes());
    }
    h
}

/// An observed opcode / rcode agrees with the raw field when it is that number, or when the
/// number has no name in this harness' tables and the library reports its Reserved variant
/// (so a library that grows further named variants, correctly numbered, still agrees).
fn op_ok(observed: u8, raw: u8) -> bool {
    observed == raw || (observed == OPCODE_RESERVED && named_opcode(raw) == OPCODE_RESERVED)
}
fn rc_ok(observed: u16, raw: u16) -> bool {
    observed == raw || (observed == RCODE_RESERVED && !NAMED_RCODES.contains(&raw))
}

fn named_opcode(n: u8) -> u8 {
    if NAMED_OPCODES.contains(&n) {
        n
    } else {
        OPCODE_RESERVED
    }
}

fn named_rcode4(n: u16) -> u16 {
    if n <= 10 {
        n
    } else {
        RCODE_RESERVED
    }
}

pub fn check_parse(word: u16, id: u16) -> Vec<Finding> {
    let case = json!({"kind": "parse", "word": word, "id": id});
    let h = header(id, word, [0; 4]);
    let mut out = Vec::new();
    let r = guarded(|| Packet::parse(&h).map(|p| observe(&p)));
    match r {
        Err(p) => out.push(finding(format!("C08|parse|{}", p.sig()), format!("{:?}", p), case)),
        Ok(Err(e)) => {
            if word & F_Z == 0 {
                out.push(finding(
                    "C08|parse|valid-header-rejected",
                    format!("flags word {:#06x} (Z clear) rejected: {:?}", word, e),
                    case,
                ));
            }
        }
        Ok(Ok(o)) => {
            if word & F_Z != 0 {
                out.push(finding("C08|parse|z-bit-accepted", format!("flags word {:#06x} has Z set but parsed", word), case));
            } else {
                let exp_flags = word & FLAG_MASK;
                let exp_op = named_opcode(((word >> 11) & 0xf) as u8);
                let exp_rc = named_rcode4(word & 0xf);
                if o.id != id {
                    out.push(finding("C08|parse|id", format!("id {} read as {}", id, o.id), case.clone()));
                }
                if o.flags != exp_flags {
                    out.push(finding(
                        format!("C08|parse|flags|bits{:#06x}", o.flags ^ exp_flags),
                        format!("word {:#06x}: flags read {:#06x}, RFC says {:#06x}", word, o.flags, exp_flags),
                        case.clone(),
                    ));
                }
                if !op_ok(o.opcode, ((word >> 11) & 0xf) as u8) {
                    out.push(finding("C08|parse|opcode", format!("word {:#06x}: opcode read {}, RFC field {}", word, o.opcode, exp_op), case.clone()));
                }
                if !rc_ok(o.rcode, word & 0xf) {
                    out.push(finding("C08|parse|rcode", format!("word {:#06x}: rcode read {}, RFC field {}", word, o.rcode, exp_rc), case.clone()));
                }
                if o.opt.is_some() || !o.questions.is_empty() || !o.answers.is_empty() {
                    out.push(finding("C08|parse|phantom-content", "bare header parsed with content".to_string(), case));
                }
            }
        }
    }
    out
}

/// into_reply on a parsed header: the reply carries the query's id and OPCODE (RFC 1035 4.1.1:
/// "set by the originator of a query and copied into the response") and has the QR bit set, in
/// the packet's accessors and in the bits both serialisers write.
pub fn check_into_reply(word: u16, id: u16) -> Vec<Finding> {
    let case = json!({"kind": "into-reply", "word": word, "id": id});
    let h = header(id, word & !F_Z, [0; 4]);
    let r = guarded(|| -> Result<Vec<(String, String)>, String> {
        let mut bad = Vec::new();
        let p = Packet::parse(&h).map_err(|e| format!("{:?}", e))?;
        let before = observe(&p);
        let reply = p.into_reply();
        let after = observe(&reply);
        if after.id != before.id {
            bad.push(("into-reply|id".to_string(), format!("id {} became {}", before.id, after.id)));
        }
        if after.opcode != before.opcode {
            bad.push(("into-reply|opcode".to_string(), format!("word {:#06x}: opcode {} became {}", word, before.opcode, after.opcode)));
        }
        if after.flags & F_QR == 0 {
            bad.push(("into-reply|qr".to_string(), "the reply does not have the response bit".to_string()));
        }
        for compressed in [false, true] {
            let bytes = if compressed { reply.build_bytes_vec_compressed() } else { reply.build_bytes_vec() }.map_err(|e| format!("{:?}", e))?;
            if bytes.len() < 12 {
                bad.push(("into-reply|short".to_string(), "reply shorter than a header".to_string()));
                continue;
            }
            let w = u16::from_be_bytes([bytes[2], bytes[3]]);
            let written_op = ((w >> 11) & 0xf) as u8;
            if bytes[..2] != h[..2] || w & F_QR == 0 || !op_ok(before.opcode, written_op) || (before.opcode != OPCODE_RESERVED && written_op != ((word >> 11) & 0xf) as u8) {
                bad.push(("into-reply|written-bits".to_string(), format!("query word {:#06x} id {:#06x}: reply written with id {:02x}{:02x} and flags word {:#06x}", word, id, bytes[0], bytes[1], w)));
            }
        }
        Ok(bad)
    });
    match r {
        Err(pn) => vec![finding(format!("C08|into-reply|{}", pn.sig()), format!("{:?}", pn), case)],
        Ok(Err(e)) => vec![finding("C08|into-reply|error", e, case)],
        Ok(Ok(bad)) => bad.into_iter().map(|(t, d)| finding(format!("C08|{}", t), d, case.clone())).collect(),
    }
}

/// A header announcing `counts` entries followed by exactly those entries (cut 0), or by the
/// questions only (1), by all but the last byte (2), by the questions and one record (3): whenever
/// the parser accepts, the packet's four counts and the peeks are the header's counts.
pub fn check_parse_counts(word: u16, counts: [u16; 4], cut: u8) -> Vec<Finding> {
    let case = json!({"kind": "parse-counts", "word": word, "counts": counts, "cut": cut});
    let mut m = header(0x0c08, word, counts);
    for i in 0..counts[0] {
        m.extend_from_slice(&[1, b'q' + (i % 3) as u8, 0, 0, 1, 0, 1]);
    }
    let after_questions = m.len();
    let mut after_first = m.len();
    let nrec = counts[1] as usize + counts[2] as usize + counts[3] as usize;
    for i in 0..nrec {
        if counts[0] > 0 {
            m.extend_from_slice(&[0xc0, 12]); // the first question's name
        } else {
            m.push(0);
        }
        m.extend_from_slice(&[0, 1, 0, 1, 0, 0, 0, 60, 0, 4, 10, 0, 0, i as u8]);
        if i == 0 {
            after_first = m.len();
        }
    }
    let full = m.len();
    let keep = match cut {
        0 => full,
        1 => after_questions,
        2 => full.saturating_sub(1).max(12),
        _ => after_first,
    };
    m.truncate(keep);
    let complete = keep == full;
    let mut out = Vec::new();
    let r = guarded(|| Packet::parse(&m).map(|p| (p.questions.len(), p.answers.len(), p.name_servers.len(), p.additional_records.len() + usize::from(p.opt().is_some()))));
    match r {
        Err(p) => out.push(finding(format!("C08|parse-counts|{}", p.sig()), format!("{:?}", p), case)),
        Ok(Err(_)) => {
            if complete && word & F_Z == 0 && (counts[0] == 0 || true) {
                out.push(finding("C08|parse-counts|complete-message-rejected", format!("word {:#06x} counts {:?}: complete message rejected", word, counts), case));
            }
        }
        Ok(Ok((q, a, n, ar))) => {
            let want = (counts[0] as usize, counts[1] as usize, counts[2] as usize, counts[3] as usize);
            if (q, a, n, ar) != want {
                out.push(finding(
                    if complete { "C08|parse-counts|counts-differ" } else { "C08|parse-counts|truncated-accepted" },
                    format!("word {:#06x}: header counts {:?}, parsed packet holds {:?} ({} of {} bytes present)", word, counts, (q, a, n, ar), keep, full),
                    case.clone(),
                ));
            }
            let peeks = (header_buffer::questions(&m).ok(), header_buffer::answers(&m).ok(), header_buffer::name_servers(&m).ok(), header_buffer::additional_records(&m).ok());
            if peeks != (Some(counts[0]), Some(counts[1]), Some(counts[2]), Some(counts[3])) {
                out.push(finding("C08|parse-counts|peeks", format!("peeks {:?} vs header {:?}", peeks, counts), case));
            }
        }
    }
    out
}

/// set_id changes the id and nothing else, on built and on parsed packets.
pub fn check_set_id(word: u16, new_id: u16) -> Vec<Finding> {
    let case = json!({"kind": "set-id", "word": word, "id": new_id});
    let h = header(0x1234, word & !F_Z, [0; 4]);
    let r = guarded(|| -> Result<Vec<(String, String)>, String> {
        let mut bad = Vec::new();
        let mut p = Packet::parse(&h).map_err(|e| format!("{:?}", e))?;
        let before = observe(&p);
        p.set_id(new_id);
        let after = observe(&p);
        if p.id() != new_id || after.id != new_id {
            bad.push(("set-id|id".to_string(), format!("set_id({}) then id() = {}", new_id, p.id())));
        }
        if after.flags != before.flags || after.opcode != before.opcode || after.rcode != before.rcode {
            bad.push(("set-id|other-fields".to_string(), format!("set_id changed flags/opcode/rcode: {:?} -> {:?}", (before.flags, before.opcode, before.rcode), (after.flags, after.opcode, after.rcode))));
        }
        let bytes = p.build_bytes_vec().map_err(|e| format!("{:?}", e))?;
        if bytes.len() < 12 || bytes[..2] != new_id.to_be_bytes() || (before.opcode != OPCODE_RESERVED && before.rcode != RCODE_RESERVED && bytes[2..12] != h[2..12]) {
            bad.push(("set-id|bytes".to_string(), format!("header after set_id({}) is {}, was {}", new_id, crate::engine::hex(&bytes[..bytes.len().min(12)]), crate::engine::hex(&h))));
        }
        Ok(bad)
    });
    match r {
        Err(p) => vec![finding(format!("C08|set-id|{}", p.sig()), format!("{:?}", p), case)],
        Ok(Err(e)) => vec![finding("C08|set-id|error", e, case)],
        Ok(Ok(bad)) => bad.into_iter().map(|(t, d)| finding(format!("C08|{}", t), d, case.clone())).collect(),
    }
}

pub fn check_peek(word: u16, id: u16, counts: [u16; 4], subs: &[u16]) -> Vec<Finding> {
    let case = json!({"kind": "peek", "word": word, "id": id, "counts": counts});
    let h = header(id, word, counts);
    let mut out = Vec::new();
    let r = guarded(|| {
        let mut bad: Vec<(String, String)> = Vec::new();
        let mut chk = |name: &str, got: Result<u32, String>, exp: u32| match got {
            Ok(g) if g == exp => {}
            Ok(g) => bad.push((name.to_string(), format!("{} read {} expected {}", name, g, exp))),
            Err(e) => bad.push((name.to_string(), format!("{} returned Err({}) on a 12-byte header", name, e))),
        };
        let e = |r: simple_dns::Result<u16>| r.map(|v| v as u32).map_err(|e| format!("{:?}", e));
        chk("id", e(header_buffer::id(&h)), id as u32);
        chk("questions", e(header_buffer::questions(&h)), counts[0] as u32);
        chk("answers", e(header_buffer::answers(&h)), counts[1] as u32);
        chk("name_servers", e(header_buffer::name_servers(&h)), counts[2] as u32);
        chk("additional_records", e(header_buffer::additional_records(&h)), counts[3] as u32);
        chk(
            "opcode",
            header_buffer::opcode(&h).map(|o| if op_ok(opcode_num(o), ((word >> 11) & 0xf) as u8) { named_opcode(((word >> 11) & 0xf) as u8) as u32 } else { opcode_num(o) as u32 }).map_err(|e| format!("{:?}", e)),
            named_opcode(((word >> 11) & 0xf) as u8) as u32,
        );
        chk(
            "rcode",
            header_buffer::rcode(&h).map(|o| if rc_ok(rcode_num(o), word & 0xf) { named_rcode4(word & 0xf) as u32 } else { rcode_num(o) as u32 }).map_err(|e| format!("{:?}", e)),
            named_rcode4(word & 0xf) as u32,
        );
        for s in subs {
            let exp = word & s == *s;
            chk(
                "has_flags",
                header_buffer::has_flags(&h, lib_flags(*s)).map(|b| b as u32).map_err(|e| format!("{:?}", e)),
                exp as u32,
            );
        }
        bad
    });
    match r {
        Err(p) => out.push(finding(format!("C08|peek|{}", p.sig()), format!("{:?}", p), case)),
        Ok(bad) => {
            for (n, d) in bad {
                out.push(finding(format!("C08|peek|{}", n), format!("word {:#06x}: {}", word, d), case.clone()));
            }
        }
    }
    out
}

pub fn check_algebra(a: u16, b: u16, opcode: u8, rcode: u16, subs: Option<&[u16]>) -> Vec<Finding> {
    let case = json!({"kind": "algebra", "a": a, "b": b, "opcode": opcode, "rcode": rcode});
    let mut out = Vec::new();
    let r = guarded(|| {
        let mut bad: Vec<(String, String)> = Vec::new();
        let id = 0x1234u16;
        let mk = || {
            let mut p = Packet::new_query(id);
            p.set_flags(lib_flags(a));
            *p.opcode_mut() = lib_opcode(opcode);
            *p.rcode_mut() = lib_rcode(rcode);
            p
        };
        for (op, exp) in [("set", a | b), ("remove", a & !b)] {
            let mut p = mk();
            if op == "set" {
                p.set_flags(lib_flags(b));
            } else {
                p.remove_flags(lib_flags(b));
            }
            let o = observe(&p);
            if o.flags != exp {
                bad.push((format!("{}-flags", op), format!("{} {:#06x} on {:#06x} gives {:#06x}, expected {:#06x}", op, b, a, o.flags, exp)));
            }
            if o.id != id || o.opcode != opcode || o.rcode != rcode {
                bad.push((format!("{}-disturbs", op), format!("{} flags changed id/opcode/rcode: {:?}", op, (o.id, o.opcode, o.rcode))));
            }
            if let Some(subs) = subs {
                for s in subs {
                    if p.has_flags(lib_flags(*s)) != (exp & s == *s) {
                        bad.push(("has".into(), format!("has_flags({:#06x}) on {:#06x} wrong", s, exp)));
                    }
                }
            }
            // serialise: bits must land in RFC positions
            match p.build_bytes_vec() {
                Ok(bytes) if bytes.len() >= 4 => {
                    let w = u16::from_be_bytes([bytes[2], bytes[3]]);
                    let expw = exp | ((opcode as u16) << 11) | (rcode & 0xf);
                    if w != expw {
                        bad.push((format!("{}-wire", op), format!("after {}: wire word {:#06x}, RFC layout {:#06x}", op, w, expw)));
                    }
                }
                Ok(_) => bad.push(("short".into(), "output shorter than a header".into())),
                Err(e) => bad.push(("build-err".into(), format!("{:?}", e))),
            }
        }
        bad
    });
    match r {
        Err(p) => out.push(finding(format!("C08|algebra|{}", p.sig()), format!("{:?}", p), case)),
        Ok(bad) => {
            for (n, d) in bad {
                out.push(finding(format!("C08|algebra|{}", n), d, case.clone()));
            }
        }
    }
    out
}

/// A serialisation that fails part-way (a LOC record with a version the writer refuses) through
/// each entry point, on this thread: whatever it leaves behind must not leak into later outputs.
pub fn provoke_failed_builds() {
    use simple_dns::rdata::{RData, LOC};
    use simple_dns::{Name, ResourceRecord, CLASS};
    let _ = guarded(|| {
        let mut p = Packet::new_reply(0xdead);
        p.set_flags(simple_dns::PacketFlag::AUTHORITATIVE_ANSWER | simple_dns::PacketFlag::RECURSION_DESIRED);
        p.answers.push(ResourceRecord::new(Name::new_unchecked("ok.example"), CLASS::IN, 1, RData::A(simple_dns::rdata::A { address: 0x01010101 })));
        p.answers.push(ResourceRecord::new(
            Name::new_unchecked("bad.example"),
            CLASS::IN,
            1,
            RData::LOC(LOC { version: 1, size: 0, horizontal_precision: 0, vertical_precision: 0, latitude: 0, longitude: 0, altitude: 0 }),
        ));
        let a = p.build_bytes_vec().is_err();
        let b = p.build_bytes_vec_compressed().is_err();
        let mut cur = std::io::Cursor::new(Vec::new());
        let c = p.write_to(&mut cur).is_err();
        let mut cur = std::io::Cursor::new(Vec::new());
        let d = p.write_compressed_to(&mut cur).is_err();
        (a, b, c, d)
    });
}

pub fn check_build(flags: u16, opcode: u8, rcode: u16, id: u16, n: [usize; 4]) -> Vec<Finding> {
    if (flags as usize + opcode as usize + rcode as usize + n[0]) % 3 == 0 {
        provoke_failed_builds();
    }
    let case = json!({"kind": "build", "flags": flags, "opcode": opcode, "rcode": rcode, "id": id, "n": n});
    let mut p = RefPacket { id, flags, opcode, rcode, ..Default::default() };
    for _ in 0..n[0] {
        p.questions.push(RefQ { name: crate::refmodel::RefName::txt("a"), qtype: 1, qclass: 1, unicast: false });
    }
    let r = crate::refmodel::packet::rr("a", typed(1, vec![crate::refmodel::schema::Val::U32(1)]));
    for _ in 0..n[1] {
        p.answers.push(r.clone());
    }
    for _ in 0..n[2] {
        p.authority.push(r.clone());
    }
    for _ in 0..n[3] {
        p.additional.push(r.clone());
    }
    let mut out = Vec::new();
    // the same header through writers that accept only a few bytes per call, and into fixed buffers
    {
        struct Drip {
            buf: std::io::Cursor<Vec<u8>>,
            n: usize,
        }
        impl std::io::Write for Drip {
            fn write(&mut self, b: &[u8]) -> std::io::Result<usize> {
                let k = b.len().min(self.n);
                std::io::Write::write(&mut self.buf, &b[..k])
            }
            fn flush(&mut self) -> std::io::Result<()> {
                Ok(())
            }
        }
        impl std::io::Seek for Drip {
            fn seek(&mut self, p: std::io::SeekFrom) -> std::io::Result<u64> {
                std::io::Seek::seek(&mut self.buf, p)
            }
        }
        let r = guarded(|| -> Result<Vec<(String, String)>, String> {
            let l = to_lib(&p)?;
            let reference = l.build_bytes_vec().map_err(|e| format!("{:?}", e))?;
            let mut bad = Vec::new();
            for chunk in [1usize, 2, 3, 5, 11, 12, 13] {
                for compressed in [false, true] {
                    let mut w = Drip { buf: std::io::Cursor::new(Vec::new()), n: chunk };
                    let res = if compressed { l.write_compressed_to(&mut w) } else { l.write_to(&mut w) };
                    let got = w.buf.into_inner();
                    if res.is_err() || got.len() < 12 || got[..12] != reference[..12] {
                        bad.push(("drip-writer".to_string(), format!("writer accepting {} bytes per call ({}): header {} expected {}", chunk, if compressed { "compressed" } else { "plain" }, crate::engine::hex(&got[..got.len().min(12)]), crate::engine::hex(&reference[..12]))));
                    }
                }
            }
            for cap in 0..12usize {
                let mut buf = vec![0u8; cap];
                let mut cur = std::io::Cursor::new(&mut buf[..]);
                if l.write_to(&mut cur).is_ok() {
                    bad.push(("short-buffer-ok".to_string(), format!("{}-byte buffer: header written 'successfully'", cap)));
                }
            }
            Ok(bad)
        });
        match r {
            Err(pn) => out.push(finding(format!("C08|build|{}", pn.sig()), format!("{:?}", pn), case.clone())),
            Ok(Err(e)) => out.push(finding("C08|build|error", e, case.clone())),
            Ok(Ok(bad)) => {
                for (t, d) in bad {
                    out.push(finding(format!("C08|build|{}", t), d, case.clone()));
                }
            }
        }
    }
    // the compressed entry point writes the same header
    {
        let exp = header(id, flags | ((opcode as u16) << 11) | (rcode & 0xf), [n[0] as u16, n[1] as u16, n[2] as u16, n[3] as u16]);
        match guarded(|| to_lib(&p).and_then(|l| l.build_bytes_vec_compressed().map_err(|e| format!("{:?}", e)))) {
            Err(pn) => out.push(finding(format!("C08|build-compressed|{}", pn.sig()), format!("{:?}", pn), case.clone())),
            Ok(Err(e)) => out.push(finding("C08|build-compressed|error", e, case.clone())),
            Ok(Ok(bytes)) => {
                if bytes.len() < 12 || bytes[..12] != exp[..] {
                    out.push(finding("C08|build-compressed|header", format!("build_bytes_vec_compressed header {} expected {}", crate::engine::hex(&bytes[..bytes.len().min(12)]), crate::engine::hex(&exp)), case.clone()));
                }
            }
        }
    }
    let res = guarded(|| to_lib(&p).and_then(|l| l.build_bytes_vec().map_err(|e| format!("{:?}", e))));
    match res {
        Err(pn) => out.push(finding(format!("C08|build|{}", pn.sig()), format!("{:?}", pn), case)),
        Ok(Err(e)) => out.push(finding("C08|build|error", e, case)),
        Ok(Ok(bytes)) => {
            let exp = header(
                id,
                flags | ((opcode as u16) << 11) | (rcode & 0xf),
                [n[0] as u16, n[1] as u16, n[2] as u16, n[3] as u16],
            );
            if bytes.len() < 12 || bytes[..12] != exp[..] {
                let got = &bytes[..bytes.len().min(12)];
                let which = if got.len() == 12 && got[2..4] != exp[2..4] {
                    "flags-word"
                } else if got.len() == 12 && got[..2] != exp[..2] {
                    "id"
                } else {
                    "counts"
                };
                out.push(finding(
                    format!("C08|build|{}", which),
                    format!("header {} expected {}", crate::engine::hex(got), crate::engine::hex(&exp)),
                    case,
                ));
            }
        }
    }
    out
}

/// Counts written for messages that carry EDNS: the packet's OPT (set through opt_mut or
/// parsed) and / or OPT records placed in the additional section by hand, among ordinary
/// records. Whatever the writer decides to emit, the four counts in the header must be the
/// numbers of entries that follow, for both serialisers, as built and after a parse.
pub fn check_build_edns(pattern: &[u8], with_opt: bool, n_answers: usize) -> Vec<Finding> {
    let case = json!({"kind": "build-edns", "pattern": pattern, "with_opt": with_opt, "answers": n_answers});
    let mut p = RefPacket { id: 0x0e08, flags: F_QR, ..Default::default() };
    if with_opt {
        p.opt = Some(RefOpt { udp: 1232, version: 0, options: vec![(10, crate::refmodel::B(vec![1, 2, 3, 4, 5, 6, 7, 8]))] });
    }
    let r = crate::refmodel::packet::rr("a", typed(1, vec![crate::refmodel::schema::Val::U32(1)]));
    for _ in 0..n_answers {
        p.answers.push(r.clone());
    }
    for (i, k) in pattern.iter().enumerate() {
        if *k == 0 {
            p.additional.push(r.clone());
        } else {
            p.additional.push(RefRR { name: crate::refmodel::RefName::root(), class: 1, cache_flush: false, ttl: 0, rdata: RefRData::StrayOpt(RefOpt { udp: 512 + i as u16, version: 0, options: if *k == 2 { vec![(3, crate::refmodel::B(b"ns".to_vec()))] } else { vec![] } }) });
        }
    }
    let judge = |bytes: &[u8], what: &str, bad: &mut Vec<(String, String)>| match crate::refmodel::wire::walk(bytes) {
        Err(e) => bad.push((format!("{}|unwalkable", what), format!("{}: output does not walk ({:?}): {}", what, e, crate::engine::truncate(&crate::engine::hex(bytes), 300)))),
        Ok(w) => {
            if w.end != bytes.len() {
                bad.push((format!("{}|counts-smaller-than-content", what), format!("{}: header counts {:?} but {} bytes follow the last counted entry: {}", what, w.counts, bytes.len() - w.end, crate::engine::truncate(&crate::engine::hex(bytes), 300))));
            }
            if w.counts[1] as usize != n_answers {
                bad.push((format!("{}|ancount", what), format!("{}: ANCOUNT {} for {} answers", what, w.counts[1], n_answers)));
            }
        }
    };
    let res = guarded(|| -> Result<Vec<(String, String)>, String> {
        let mut bad = Vec::new();
        let l = to_lib(&p)?;
        let plain = l.build_bytes_vec().map_err(|e| format!("{:?}", e))?;
        let comp = l.build_bytes_vec_compressed().map_err(|e| format!("{:?}", e))?;
        judge(&plain, "plain", &mut bad);
        judge(&comp, "compressed", &mut bad);
        let mut cur = std::io::Cursor::new(Vec::new());
        l.write_compressed_to(&mut cur).map_err(|e| format!("{:?}", e))?;
        judge(&cur.into_inner(), "write_compressed_to", &mut bad);
        let mut v = Vec::new();
        l.write_to(&mut std::io::Cursor::new(&mut v)).map_err(|e| format!("{:?}", e))?;
        judge(&v, "write_to", &mut bad);
        if plain.len() >= 12 && comp.len() >= 12 && plain[..12] != comp[..12] {
            bad.push(("writers-disagree".into(), format!("plain header {} compressed header {}", crate::engine::hex(&plain[..12]), crate::engine::hex(&comp[..12]))));
        }
        // the same message after a parse
        if let Ok(again) = Packet::parse(&plain) {
            if let Ok(b) = again.build_bytes_vec() {
                judge(&b, "parsed|plain", &mut bad);
            }
            if let Ok(b) = again.build_bytes_vec_compressed() {
                judge(&b, "parsed|compressed", &mut bad);
            }
        }
        Ok(bad)
    });
    match res {
        Err(pn) => vec![finding(format!("C08|build-edns|{}", pn.sig()), format!("{:?}", pn), case)],
        Ok(Err(e)) => vec![finding("C08|build-edns|error", e, case)],
        Ok(Ok(bad)) => bad.into_iter().map(|(t, d)| finding(format!("C08|build-edns|{}", t), d, case.clone())).collect(),
    }
}

pub fn check_reser(word: u16, id: u16) -> Vec<Finding> {
    let case = json!({"kind": "reser", "word": word, "id": id});
    let h = header(id, word, [0; 4]);
    let mut out = Vec::new();
    let r = guarded(|| Packet::parse(&h).ok().map(|p| p.build_bytes_vec().map_err(|e| format!("{:?}", e))));
    match r {
        Err(p) => out.push(finding(format!("C08|reser|{}", p.sig()), format!("{:?}", p), case)),
        Ok(None) => {}
        Ok(Some(Err(e))) => out.push(finding("C08|reser|build-error", e, case)),
        Ok(Some(Ok(bytes))) => {
            if bytes.len() != 12 {
                out.push(finding("C08|reser|length", format!("bare header re-serialised to {} bytes", bytes.len()), case));
                return out;
            }
            let w = u16::from_be_bytes([bytes[2], bytes[3]]);
            let mut mask = FLAG_MASK | F_Z;
            if NAMED_OPCODES.contains(&(((word >> 11) & 0xf) as u8)) {
                mask |= 0x7800;
            }
            if (word & 0xf) <= 10 {
                mask |= 0xf;
            }
            if bytes[..2] != h[..2] {
                out.push(finding("C08|reser|id", "id changed".to_string(), case.clone()));
            }
            if (w ^ word) & mask != 0 {
                out.push(finding(
                    "C08|reser|word",
                    format!("word {:#06x} re-serialised as {:#06x} (compared under mask {:#06x})", word, w, mask),
                    case.clone(),
                ));
            }
            if bytes[4..] != [0u8; 8] {
                out.push(finding("C08|reser|counts", "counts changed".to_string(), case));
            }
        }
    }
    out
}

/// Parse a header, edit it through the public mutators, serialise: only the edited field may change.
/// `flagop`: 0 none, 1 set_flags(b), 2 remove_flags(b).
pub fn check_parse_edit(word: u16, new_opcode: Option<u8>, new_rcode: Option<u16>, flagop: u8, b: u16) -> Vec<Finding> {
    let case = json!({"kind": "parse-edit", "word": word, "opcode": new_opcode, "rcode": new_rcode, "flagop": flagop, "b": b});
    let h = header(0x4321, word, [0; 4]);
    let r = guarded(|| -> Option<Result<(Vec<u8>, RefPacket), String>> {
        let mut p = Packet::parse(&h).ok()?;
        if let Some(o) = new_opcode {
            *p.opcode_mut() = lib_opcode(o);
        }
        if let Some(rc) = new_rcode {
            *p.rcode_mut() = lib_rcode(rc);
        }
        match flagop {
            1 => p.set_flags(lib_flags(b)),
            2 => p.remove_flags(lib_flags(b)),
            _ => {}
        }
        let o = observe(&p);
        Some(p.build_bytes_vec().map(|v| (v, o)).map_err(|e| format!("{:?}", e)))
    });
    let mut out = Vec::new();
    match r {
        Err(pn) => out.push(finding(format!("C08|parse-edit|{}", pn.sig()), format!("{:?}", pn), case)),
        Ok(None) => {}
        Ok(Some(Err(e))) => out.push(finding("C08|parse-edit|build-error", e, case)),
        Ok(Some(Ok((bytes, o)))) => {
            let w = u16::from_be_bytes([bytes[2], bytes[3]]);
            let exp_flags = match flagop {
                1 => (word & FLAG_MASK) | b,
                2 => (word & FLAG_MASK) & !b,
                _ => word & FLAG_MASK,
            };
            if o.flags != exp_flags {
                out.push(finding("C08|parse-edit|flags-observed", format!("word {:#06x} flagop {} {:#06x}: flags observed {:#06x} expected {:#06x}", word, flagop, b, o.flags, exp_flags), case.clone()));
            }
            let mut mask = FLAG_MASK | F_Z;
            let mut exp = exp_flags;
            let op = new_opcode.unwrap_or(((word >> 11) & 0xf) as u8);
            if NAMED_OPCODES.contains(&op) {
                mask |= 0x7800;
                exp |= (op as u16) << 11;
            }
            let rc = new_rcode.unwrap_or(word & 0xf);
            if rc <= 10 {
                mask |= 0xf;
                exp |= rc;
            }
            if (w ^ exp) & mask != 0 {
                let which = if (w ^ exp) & 0x7800 & mask != 0 {
                    "opcode-bits"
                } else if (w ^ exp) & 0xf & mask != 0 {
                    "rcode-bits"
                } else {
                    "flag-bits"
                };
                out.push(finding(
                    format!("C08|parse-edit|{}", which),
                    format!("parsed word {:#06x}, then opcode:={:?} rcode:={:?} flagop {} {:#06x}: serialised word {:#06x}, expected {:#06x} under mask {:#06x}", word, new_opcode, new_rcode, flagop, b, w, exp, mask),
                    case,
                ));
            }
        }
    }
    out
}

/// A header followed by an OPT record: flags and opcode are read from the header alone, the
/// response code is the header's low four bits under the OPT's extended byte, whatever the
/// EDNS version and payload size are.
pub fn check_parse_opt(word: u16, ext: u8, version: u8) -> Vec<Finding> {
    let case = json!({"kind": "parse-opt", "word": word, "ext": ext, "version": version});
    let mut h = header(0x0bad, word, [0, 0, 0, 1]);
    h.extend_from_slice(&[0, 0, 41, 0x10, 0x00, ext, version, 0, 0, 0, 0]);
    let r = guarded(|| Packet::parse(&h).map(|p| observe(&p)));
    let mut out = Vec::new();
    match r {
        Err(pn) => out.push(finding(format!("C08|parse-opt|{}", pn.sig()), format!("{:?}", pn), case)),
        Ok(Err(e)) => {
            if word & F_Z == 0 {
                out.push(finding("C08|parse-opt|rejected", format!("header {:#06x} + OPT rejected: {:?}", word, e), case));
            }
        }
        Ok(Ok(o)) => {
            if word & F_Z != 0 {
                out.push(finding("C08|parse-opt|z-bit-accepted", "Z set but parsed".to_string(), case));
                return out;
            }
            if o.flags != word & FLAG_MASK {
                out.push(finding("C08|parse-opt|flags", format!("word {:#06x} with OPT: flags {:#06x}", word, o.flags), case.clone()));
            }
            if !op_ok(o.opcode, ((word >> 11) & 0xf) as u8) {
                out.push(finding("C08|parse-opt|opcode", format!("word {:#06x} with OPT: opcode {}", word, o.opcode), case.clone()));
            }
            let full = ((ext as u16) << 4) | (word & 0xf);
            let exp = if NAMED_RCODES.contains(&full) { full } else { RCODE_RESERVED };
            if !rc_ok(o.rcode, full) {
                out.push(finding(
                    "C08|parse-opt|rcode",
                    format!("word {:#06x}, OPT ext-rcode {} version {:#04x}: rcode read {}, header low bits {} under extended byte give {}", word, ext, version, o.rcode, word & 0xf, exp),
                    case,
                ));
            }
        }
    }
    out
}

pub fn run(ctx: &Ctx) {
    ctx.set_rule("exhaustive products over header words/ids/counts, flag-set pairs, named opcode x rcode x flag subsets; non-trivial = header accepted by the parser or packet built (Z-bit words count as trivial rejections)");
    ctx.assume("RFC 1035 4.1.1 bit positions and RFC 2535/4035 AD/CD positions as transcribed in refmodel::packet");
    let subs = subsets();
    let ids = [0u16, 1, 0x1234, 0xffff];
    // space 1: parse, all words x ids
    let words: Vec<u16> = (0..=65535u16).collect();
    let shards: Vec<&[u16]> = words.chunks(1024).collect();
    par_shards(ctx, &shards, |ws, t: &mut Tally| {
        for &w in ws.iter() {
            for id in ids {
                t.evals += 1;
                if w & F_Z == 0 {
                    t.nontrivial += 1;
                }
                let f = check_parse(w, id);
                t.outcome(if w & F_Z != 0 { "parse:z" } else { "parse:ok" });
                ctx.violations(f);
                t.evals += 1;
                let f = check_reser(w, id);
                if w & F_Z == 0 {
                    t.nontrivial += 1;
                }
                ctx.violations(f);
            }
        }
    });
    ctx.space("parse+reserialise: 65536 flag words x 4 ids", 65536 * 4 * 2, "complete");
    // space 1a: set_id
    par_shards(ctx, &shards, |ws, t: &mut Tally| {
        for &w in ws.iter() {
            if w & F_Z != 0 {
                continue;
            }
            for id in [0u16, 1, 0x00ff, 0xff00, 0xffff, w] {
                t.evals += 1;
                t.nontrivial += 1;
                let f = check_set_id(w, id);
                if !f.is_empty() {
                    t.outcome("set-id:bad");
                    ctx.violations(f);
                }
            }
        }
    });
    ctx.space("set_id: every flag word with Z clear x 6 ids, on a parsed header; id changes, nothing else does", 32768 * 6, "complete");
    // space 1b: headers followed by their entries, complete and cut
    let tuples: [[u16; 4]; 6] = [[1, 0, 0, 0], [1, 3, 1, 0], [1, 1, 1, 1], [0, 2, 0, 0], [2, 0, 0, 1], [3, 2, 2, 2]];
    par_shards(ctx, &shards, |ws, t: &mut Tally| {
        for &w in ws.iter() {
            for c in tuples {
                for cut in 0..4u8 {
                    t.evals += 1;
                    if w & F_Z == 0 {
                        t.nontrivial += 1;
                    }
                    let f = check_parse_counts(w, c, cut);
                    if !f.is_empty() {
                        t.outcome("parse-counts:bad");
                        ctx.violations(f);
                    }
                }
            }
        }
    });
    ctx.space("parse with content: 65536 flag words x 6 count tuples x {complete, cut after the questions, cut one byte short, cut after the first record}", 65536 * 6 * 4, "complete");
    // space 2: peeks, all words x 81 count tuples
    let cvals = [0u16, 1, 0xffff];
    let single: Vec<u16> = ALL_FLAGS.to_vec();
    par_shards(ctx, &shards, |ws, t: &mut Tally| {
        for &w in ws.iter() {
            let mut ci = 0usize;
            for a in cvals {
                for b in cvals {
                    for c in cvals {
                        for d in cvals {
                            t.evals += 1;
                            t.nontrivial += 1;
                            // all 128 subsets for one count tuple per word, single flags otherwise
                            let s: &[u16] = if ci == (w as usize % 81) { &subs } else { &single };
                            ci += 1;
                            let f = check_peek(w, ids[(w as usize + ci) % 4], [a, b, c, d], s);
                            ctx.violations(f);
                        }
                    }
                }
            }
        }
        t.outcome("peek");
    });
    ctx.space("peeks: 65536 words x {0,1,0xffff}^4 counts (all 128 flag subsets once per word)", 65536 * 81, "complete");
    // space 3: algebra, 128 x 128 x opcodes x rcodes
    let ops: Vec<u8> = NAMED_OPCODES.to_vec();
    let rcs: Vec<u16> = NAMED_RCODES.iter().copied().filter(|r| *r < 16).collect();
    let pairs: Vec<(u16, u16)> = subs.iter().flat_map(|a| subs.iter().map(move |b| (*a, *b))).collect();
    let pshards: Vec<&[(u16, u16)]> = pairs.chunks(256).collect();
    par_shards(ctx, &pshards, |ps, t: &mut Tally| {
        for &(a, b) in ps.iter() {
            for &op in &ops {
                for &rc in &rcs {
                    t.evals += 1;
                    t.nontrivial += 1;
                    let with_has = op == 0 && rc == 0;
                    let f = check_algebra(a, b, op, rc, if with_has { Some(&subs) } else { None });
                    ctx.violations(f);
                }
            }
        }
        t.outcome("algebra");
    });
    ctx.space("algebra: 128 x 128 flag-set pairs x 5 opcodes x 11 rcodes (has_flags on all 128 subsets at opcode 0 / rcode 0)", (128 * 128 * ops.len() * rcs.len()) as u64, "complete");
    // space 1b: the same words followed by an OPT record
    par_shards(ctx, &shards, |ws, t: &mut Tally| {
        for &w in ws.iter() {
            for ext in [0u8, 1] {
                for version in [0x00u8, 0x01, 0x10, 0xf0, 0xff] {
                    t.evals += 1;
                    if w & F_Z == 0 {
                        t.nontrivial += 1;
                    }
                    let f = check_parse_opt(w, ext, version);
                    if !f.is_empty() {
                        ctx.violations(f);
                    }
                }
            }
        }
        t.outcome("parse-opt");
    });
    ctx.space("parse with OPT: 65536 flag words x extended rcode {0,1} x EDNS version {00,01,10,f0,ff}", 65536 * 10, "complete");
    // space 3b: parse, edit through the mutators, serialise
    par_shards(ctx, &shards, |ws, t: &mut Tally| {
        for &w in ws.iter() {
            if w & F_Z != 0 {
                continue;
            }
            for &op in &ops {
                t.evals += 1;
                t.nontrivial += 1;
                ctx.violations(check_parse_edit(w, Some(op), None, 0, 0));
            }
            for &rc in &rcs {
                t.evals += 1;
                t.nontrivial += 1;
                ctx.violations(check_parse_edit(w, None, Some(rc), 0, 0));
            }
            for &b in ALL_FLAGS.iter().chain([FLAG_MASK, 0].iter()) {
                for flagop in [1u8, 2] {
                    t.evals += 1;
                    t.nontrivial += 1;
                    ctx.violations(check_parse_edit(w, None, None, flagop, b));
                }
            }
            t.evals += 1;
            ctx.violations(check_parse_edit(w, Some(ops[(w as usize) % ops.len()]), Some(rcs[(w as usize / 5) % rcs.len()]), 1 + (w & 1) as u8, subs[(w as usize) % 128]));
        }
        t.outcome("parse-edit");
    });
    ctx.space("parse-edit-serialise: every flag word with Z clear, then each named opcode / each named rcode / set and remove of each single flag, all flags and no flags / one combined edit", 32768 * (5 + 11 + 18 + 1), "complete");
    // space 4: build side
    let mut n = 0u64;
    let mut t = Tally::default();
    for (i, &f) in subs.iter().enumerate() {
        for &op in &NAMED_OPCODES {
            for &rc in &NAMED_RCODES {
                t.evals += 1;
                t.nontrivial += 1;
                n += 1;
                ctx.violations(check_build(f, op, rc, ids[i % 4], [0; 4]));
            }
        }
    }
    for a in 0..3usize {
        for b in 0..3usize {
            for c in 0..3usize {
                for d in 0..3usize {
                    t.evals += 1;
                    t.nontrivial += 1;
                    n += 1;
                    ctx.violations(check_build(F_QR | F_RD, 0, 0, 0xabcd, [a, b, c, d]));
                }
            }
        }
    }
    t.outcome("build");
    ctx.merge(t);
    ctx.space("build: 128 flag subsets x 5 opcodes x 12 rcodes, and {0,1,2}^4 section sizes", n, "complete");
    {
        let mut t = Tally::default();
        let mut n = 0u64;
        let mut pats: Vec<Vec<u8>> = Vec::new();
        let mut b = Vec::new();
        crate::engine::for_each_string_upto(&[0u8, 1, 2], 4, &mut b, &mut |x| pats.push(x.to_vec()));
        for pat in &pats {
            for with_opt in [false, true] {
                for na in [0usize, 1] {
                    t.evals += 1;
                    t.nontrivial += 1;
                    n += 1;
                    ctx.violations(check_build_edns(pat, with_opt, na));
                }
            }
        }
        t.outcome("build");
        ctx.merge(t);
        ctx.space("counts with EDNS: additional sections of <= 4 entries over {ordinary record, hand-placed OPT record, hand-placed OPT with an option} x packet OPT set / unset x 0..=1 answers; both serialisers, a writer, and again after a parse: the header counts are the numbers of entries that follow", n, "complete");
    }
    {
        // into_reply on every flags word (reserved bit clear)
        let words: Vec<u16> = (0..=65535u16).filter(|w| w & F_Z == 0).collect();
        let shards: Vec<&[u16]> = words.chunks(1024).collect();
        par_shards(ctx, &shards, |ws, t: &mut Tally| {
            for &w in ws.iter() {
                t.evals += 1;
                t.nontrivial += 1;
                let f = check_into_reply(w, [0u16, 0x1234, 0xffff][(w % 3) as usize]);
                t.outcome("build");
                if !f.is_empty() {
                    ctx.violations(f);
                }
            }
        });
        ctx.space("into_reply on every flags word with the reserved bit clear: the reply keeps id and OPCODE and has QR set, in the accessors and in the bytes both serialisers write", words.len() as u64, "complete");
    }
    {
        // the four counts at the last values a 16-bit field can hold, and one past them
        let cases: Vec<(&'static str, usize)> = super::c04::ceiling_cases().into_iter().filter(|(k, _)| !k.ends_with("rdata")).collect();
        par_shards(ctx, &cases, |(kind, n), t: &mut Tally| {
            t.evals += 1;
            t.nontrivial += 1;
            let f: Vec<Finding> = super::c04::check_ceiling(kind, *n).into_iter().map(|f| Finding { sig: f.sig.replacen("C04|", "C08|", 1), ..f }).collect();
            t.outcome("build");
            if !f.is_empty() {
                ctx.violations(f);
            }
        });
        ctx.space("counts at the ceiling: sections of 65533..131073 entries (each section, additional with OPT) through both vector builds and both writers: the counts written are the numbers of entries that follow, a refusal is allowed only beyond 65535", cases.len() as u64, "complete");
    }
    ctx.sample(json!({"kind": "parse", "word": 0x8180, "id": 0x1234}));
    ctx.sample(json!({"kind": "peek", "word": 0x7bff, "id": 1, "counts": [0, 1, 65535, 0]}));
    ctx.sample(json!({"kind": "algebra", "a": F_QR | F_AD, "b": F_AD | F_CD, "opcode": 5, "rcode": 9}));
    ctx.sample(json!({"kind": "build", "flags": F_AA | F_TC, "opcode": 4, "rcode": 16, "id": 0xffff, "n": [0, 0, 0, 0]}));
}

pub fn replay(case: &Value) -> Vec<Finding> {
    if case["kind"].as_str() == Some("set-id") {
        return check_set_id(case["word"].as_u64().unwrap_or(0) as u16, case["id"].as_u64().unwrap_or(0) as u16);
    }
    if case["kind"].as_str() == Some("parse-counts") {
        let c: Vec<u16> = case["counts"].as_array().map(|a| a.iter().map(|x| x.as_u64().unwrap_or(0) as u16).collect()).unwrap_or_default();
        if c.len() == 4 {
            return check_parse_counts(case["word"].as_u64().unwrap_or(0) as u16, [c[0], c[1], c[2], c[3]], case["cut"].as_u64().unwrap_or(0) as u8);
        }
    }
    let g = |k: &str| case[k].as_u64().unwrap_or(0);
    let subs = subsets();
    match case["kind"].as_str().unwrap_or("") {
        "parse" => check_parse(g("word") as u16, g("id") as u16),
        "reser" => check_reser(g("word") as u16, g("id") as u16),
        "peek" => {
            let c: Vec<u16> = case["counts"].as_array().map(|a| a.iter().map(|x| x.as_u64().unwrap_or(0) as u16).collect()).unwrap_or_default();
            check_peek(g("word") as u16, g("id") as u16, [c[0], c[1], c[2], c[3]], &subs)
        }
        "parse-opt" => check_parse_opt(g("word") as u16, g("ext") as u8, g("version") as u8),
        "parse-edit" => check_parse_edit(
            g("word") as u16,
            case["opcode"].as_u64().map(|x| x as u8),
            case["rcode"].as_u64().map(|x| x as u16),
            g("flagop") as u8,
            g("b") as u16,
        ),
        "algebra" => check_algebra(g("a") as u16, g("b") as u16, g("opcode") as u8, g("rcode") as u16, Some(&subs)),
        "ceiling" => super::c04::check_ceiling(case["what"].as_str().unwrap_or(""), case["n"].as_u64().unwrap_or(0) as usize).into_iter().map(|f| Finding { sig: f.sig.replacen("C04|", "C08|", 1), ..f }).collect(),
        "into-reply" => check_into_reply(g("word") as u16, g("id") as u16),
        "build-edns" => {
            let pat: Vec<u8> = case["pattern"].as_array().map(|a| a.iter().map(|x| x.as_u64().unwrap_or(0) as u8).collect()).unwrap_or_default();
            check_build_edns(&pat, case["with_opt"].as_bool().unwrap_or(false), case["answers"].as_u64().unwrap_or(0) as usize)
        }
        "build" => {
            let c: Vec<usize> = case["n"].as_array().map(|a| a.iter().map(|x| x.as_u64().unwrap_or(0) as usize).collect()).unwrap_or_default();
            check_build(g("flags") as u16, g("opcode") as u8, g("rcode") as u16, g("id") as u16, [c[0], c[1], c[2], c[3]])
        }
        _ => vec![],
    }
}
