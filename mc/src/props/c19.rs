//! C19 — TXT text and attribute conversions are lossless.

use super::finding;
use crate::bind::*;
use crate::engine::{guarded, par_shards, Ctx, Finding, Tally};
use crate::refmodel::packet::*;
use crate::refmodel::schema::Val;
use crate::refmodel::wire;
use serde_json::{json, Value};
use simple_dns::rdata::{RData, TXT};
use simple_dns::{CharacterString, Name, Packet, ResourceRecord, CLASS};
use std::collections::HashMap;
use std::convert::TryFrom;

type Attrs = HashMap<String, Option<String>>;

/// Send a TXT through the wire (build a packet, parse it back) and return the parsed TXT's strings.
fn through_wire(txt: &TXT) -> Result<(Vec<Vec<u8>>, Vec<u8>), String> {
    let mut p = Packet::new_reply(7);
    p.answers.push(ResourceRecord::new(Name::new_unchecked("t.local"), CLASS::IN, 10, RData::TXT(txt.clone())));
    let bytes = p.build_bytes_vec().map_err(|e| format!("build: {:?}", e))?;
    let q = Packet::parse(&bytes).map_err(|e| format!("parse of own output: {:?}", e))?;
    match q.answers.first().map(|r| &r.rdata) {
        Some(RData::TXT(t)) => Ok((t.verif_strings().iter().map(|s| s.to_vec()).collect(), bytes)),
        other => Err(format!("TXT came back as {:?}", other.map(|r| r.type_code()))),
    }
}

fn wire_txt<'a>(bytes: &'a [u8]) -> Result<TXT<'a>, String> {
    let q = Packet::parse(bytes).map_err(|e| format!("{:?}", e))?;
    match q.answers.into_iter().next().map(|r| r.rdata) {
        Some(RData::TXT(t)) => Ok(t),
        _ => Err("no TXT".into()),
    }
}

pub fn check_split(s: &str) -> Vec<Finding> {
    let case = json!({"kind": "split", "s": s});
    let r = guarded(|| {
        let mut bad: Vec<(String, String)> = Vec::new();
        let txt = match TXT::try_from(s) {
            Ok(t) => t,
            Err(e) => {
                bad.push(("split-err".into(), format!("TXT::try_from(&str) of {} bytes failed: {:?}", s.len(), e)));
                return bad;
            }
        };
        let pieces: Vec<Vec<u8>> = txt.verif_strings().iter().map(|x| x.to_vec()).collect();
        if let Some(p) = pieces.iter().find(|p| p.len() > 255) {
            bad.push(("piece-too-long".into(), format!("piece of {} bytes", p.len())));
        }
        let cat: Vec<u8> = pieces.concat();
        if cat != s.as_bytes() {
            bad.push(("pieces".into(), format!("pieces do not concatenate to the input ({} vs {} bytes)", cat.len(), s.len())));
        }
        match String::try_from(txt.clone()) {
            Ok(j) if j == s => {}
            Ok(j) => bad.push(("join".into(), format!("join gives {} bytes, input {} bytes; first difference at {:?}", j.len(), s.len(), j.bytes().zip(s.bytes()).position(|(a, b)| a != b)))),
            Err(e) => bad.push(("join-err".into(), format!("join failed: {:?}", e))),
        }
        // a record's RDATA is at most 65535 bytes: beyond that only the in-memory conversions are demanded
        if s.len() + pieces.len() > 65535 {
            return bad;
        }
        match through_wire(&txt) {
            Ok((ws, bytes)) => {
                if ws.concat() != s.as_bytes() {
                    bad.push(("wire-join".into(), "strings parsed back from the wire do not concatenate to the input".into()));
                }
                match wire_txt(&bytes).and_then(|t| String::try_from(t).map_err(|e| format!("{:?}", e))) {
                    Ok(j) if j == s => {}
                    other => bad.push(("wire-join".into(), format!("join after wire: {:?}", other.map(|x| x.len())))),
                }
            }
            Err(e) => bad.push(("wire".into(), e)),
        }
        bad
    });
    match r {
        Err(p) => vec![finding(format!("C19|split|{}", p.sig()), format!("{:?}", p), case)],
        Ok(bad) => bad.into_iter().map(|(n, d)| finding(format!("C19|split|{}", n), d, case.clone())).collect(),
    }
}

fn attrs_json(a: &Attrs) -> Value {
    let mut v: Vec<(String, Option<String>)> = a.iter().map(|(k, v)| (k.clone(), v.clone())).collect();
    v.sort();
    json!(v)
}

fn attrs_from_json(v: &Value) -> Vec<(String, Option<String>)> {
    v.as_array()
        .map(|a| {
            a.iter()
                .map(|e| (e[0].as_str().unwrap_or("").to_string(), e[1].as_str().map(|s| s.to_string())))
                .collect()
        })
        .unwrap_or_default()
}

fn entry_len(k: &str, v: &Option<String>) -> usize {
    k.len() + v.as_ref().map(|v| v.len() + 1).unwrap_or(0)
}

pub fn check_map(entries: &[(String, Option<String>)]) -> Vec<Finding> {
    let map: Attrs = entries.iter().cloned().collect();
    let case = json!({"kind": "map", "entries": attrs_json(&map)});
    let fits = map.iter().all(|(k, v)| entry_len(k, v) <= 255);
    let r = guarded(|| {
        let mut bad: Vec<(String, String)> = Vec::new();
        match TXT::try_from(map.clone()) {
            Err(e) => {
                if fits {
                    bad.push(("map-rejected".into(), format!("map within limits rejected: {:?}", e)));
                }
            }
            Ok(txt) => {
                if !fits {
                    bad.push(("overlong-accepted".into(), "an entry longer than 255 bytes was accepted instead of refused".into()));
                    if txt.verif_strings().iter().any(|s| s.len() > 255) {
                        return bad;
                    }
                } else {
                    let back = txt.attributes();
                    if back != map {
                        bad.push(("attributes".into(), format!("attributes() = {} expected {}", attrs_json(&back), attrs_json(&map))));
                    }
                    match through_wire(&txt) {
                        Ok((_, bytes)) => match wire_txt(&bytes) {
                            Ok(t) => {
                                let back = t.attributes();
                                if back != map {
                                    bad.push(("wire-attributes".into(), format!("after the wire attributes() = {} expected {}", attrs_json(&back), attrs_json(&map))));
                                }
                            }
                            Err(e) => bad.push(("wire".into(), e)),
                        },
                        Err(e) => bad.push(("wire".into(), e)),
                    }
                }
            }
        }
        bad
    });
    match r {
        Err(p) => vec![finding(format!("C19|map|{}", p.sig()), format!("{:?}", p), case)],
        Ok(bad) => bad.into_iter().map(|(n, d)| finding(format!("C19|map|{}", n), d, case.clone())).collect(),
    }
}

/// reference for TXT::attributes over raw strings: split at the first '=', first key wins
fn ref_attributes(strings: &[String]) -> Attrs {
    let mut m = Attrs::new();
    for s in strings {
        let (k, v) = match s.find('=') {
            Some(i) => (s[..i].to_string(), Some(s[i + 1..].to_string())),
            None => (s.clone(), None),
        };
        if k.is_empty() {
            continue; // RFC 6763 6.4: strings with an empty key are ignored
        }
        m.entry(k).or_insert(v);
    }
    m
}

pub fn check_strings(strings: &[String]) -> Vec<Finding> {
    let case = json!({"kind": "strings", "strings": strings});
    let exp = ref_attributes(strings);
    let r = guarded(|| {
        let mut bad: Vec<(String, String)> = Vec::new();
        let mut txt = TXT::new();
        for s in strings {
            match txt.add_string(s) {
                Ok(()) => {}
                Err(e) => {
                    bad.push(("add_string".into(), format!("{:?}", e)));
                    return bad;
                }
            }
        }
        // only the wholly empty string is required to contribute nothing; how "=v" (empty key
        // with a value) is treated is not fixed by the property, so that key is not compared
        let lenient = strings.iter().any(|s| s.starts_with('='));
        let mut got = txt.attributes();
        if lenient {
            got.remove("");
        }
        if got != exp {
            bad.push(("attributes".into(), format!("attributes() of {:?} = {} expected {}", strings, attrs_json(&got), attrs_json(&exp))));
        }
        if let Ok((_, bytes)) = through_wire(&txt) {
            if let Ok(t) = wire_txt(&bytes) {
                let mut got = t.attributes();
                if lenient {
                    got.remove("");
                }
                // a TXT with no strings is written as one empty string; it must still read back as no attributes
                if got != exp {
                    bad.push(("wire-attributes".into(), format!("after the wire attributes() of {:?} = {} expected {}", strings, attrs_json(&got), attrs_json(&exp))));
                }
            }
        }
        bad
    });
    match r {
        Err(p) => vec![finding(format!("C19|strings|{}", p.sig()), format!("{:?}", p), case)],
        Ok(bad) => bad.into_iter().map(|(n, d)| finding(format!("C19|strings|{}", n), d, case.clone())).collect(),
    }
}

/// reference for long_attributes: split at ';' then at the first '=' (characters, not bytes).
/// Returns key -> set of admissible values (all occurrences), empty keys dropped.
fn ref_long(s: &str) -> HashMap<String, Vec<Option<String>>> {
    let mut m: HashMap<String, Vec<Option<String>>> = HashMap::new();
    for part in s.split(';') {
        let (k, v) = match part.find('=') {
            Some(i) => (&part[..i], Some(part[i + 1..].to_string())),
            None => (part, None),
        };
        if k.is_empty() {
            continue;
        }
        m.entry(k.to_string()).or_default().push(v);
    }
    m
}

pub fn check_long(s: &str) -> Vec<Finding> {
    let case = json!({"kind": "long", "s": s});
    let exp = ref_long(s);
    let r = guarded(|| {
        let mut bad: Vec<(String, String)> = Vec::new();
        let txt = match TXT::try_from(s) {
            Ok(t) => t,
            Err(e) => {
                bad.push(("split-err".into(), format!("{:?}", e)));
                return bad;
            }
        };
        match txt.long_attributes() {
            Err(e) => bad.push(("long-err".into(), format!("long_attributes failed on valid UTF-8: {:?}", e))),
            Ok(mut got) => {
                got.remove("");
                let mut gk: Vec<&String> = got.keys().collect();
                let mut ek: Vec<&String> = exp.keys().collect();
                gk.sort();
                ek.sort();
                if gk != ek {
                    bad.push(("long-keys".into(), format!("long_attributes({:?}) keys {:?} expected {:?}", s, gk, ek)));
                } else {
                    for (k, v) in &got {
                        if !exp[k].contains(v) {
                            bad.push(("long-value".into(), format!("long_attributes({:?})[{:?}] = {:?} expected one of {:?}", s, k, v, exp[k])));
                        } else if exp[k][0] != *v {
                            bad.push(("long-first-wins".into(), format!("long_attributes({:?})[{:?}] = {:?}, first occurrence is {:?}", s, k, v, exp[k][0])));
                        }
                    }
                }
            }
        }
        bad
    });
    match r {
        Err(p) => vec![finding(format!("C19|long|{}", p.sig()), format!("{:?}", p), case)],
        Ok(bad) => bad.into_iter().map(|(n, d)| finding(format!("C19|long|{}", n), d, case.clone())).collect(),
    }
}

/// character-string construction at byte length n through every constructor
pub fn check_cs(n: usize, fill: u8) -> Vec<Finding> {
    let case = json!({"kind": "cs", "n": n, "fill": fill});
    let bytes: Vec<u8> = (0..n).map(|i| if i % 7 == 0 { fill } else { b'a' + (i % 26) as u8 }).collect();
    let ascii: String = (0..n).map(|i| (b'a' + (i % 26) as u8) as char).collect();
    let exp_ok = n <= 255;
    let r = guarded(|| {
        let mut bad: Vec<(String, String)> = Vec::new();
        let mut chk = |name: &str, ok: bool| {
            if ok != exp_ok {
                bad.push((format!("ctor-{}", name), format!("{} with {} bytes: ok={} expected {}", name, n, ok, exp_ok)));
            }
        };
        let c1 = CharacterString::new(&bytes);
        chk("new", c1.is_ok());
        chk("try_from-str", CharacterString::try_from(ascii.as_str()).is_ok());
        chk("try_from-string", CharacterString::try_from(ascii.clone()).is_ok());
        chk("txt-add_string", TXT::new().add_string(&ascii).is_ok());
        chk("txt-with_string", TXT::new().with_string(&ascii).is_ok());
        let mut m = Attrs::new();
        if n >= 1 {
            m.insert(ascii.clone(), None);
            chk("txt-from-map-key", TXT::try_from(m).is_ok());
        }
        if n >= 2 {
            let mut m = Attrs::new();
            m.insert("k".into(), Some(ascii[..n - 2].to_string()));
            chk("txt-from-map-kv", TXT::try_from(m).is_ok());
        }
        // whatever was accepted must appear on the wire with its exact length
        if let Ok(c) = c1 {
            let txt = TXT::new().with_char_string(c);
            match through_wire(&txt) {
                Ok((ws, wire_bytes)) => {
                    if ws.len() != 1 || ws[0] != bytes {
                        bad.push(("wire-content".into(), format!("{}-byte string came back as {:?} strings of lengths {:?}", n, ws.len(), ws.iter().map(|w| w.len()).collect::<Vec<_>>())));
                    }
                    // independent look at the bytes: RDLENGTH = n + 1 and length octet = n
                    if let Ok(w) = wire::walk(&wire_bytes) {
                        let rr = &w.records[0];
                        if rr.rdlen != n + 1 || wire_bytes[rr.rdata_start] as usize != n {
                            bad.push(("wire-framing".into(), format!("RDLENGTH {} / length octet {} for a {}-byte string", rr.rdlen, wire_bytes[rr.rdata_start], n)));
                        }
                    } else {
                        bad.push(("wire-framing".into(), "output does not walk".into()));
                    }
                }
                Err(e) => {
                    if exp_ok {
                        bad.push(("wire".into(), e));
                    }
                }
            }
        }
        bad
    });
    match r {
        Err(p) => vec![finding(format!("C19|cs|{}", p.sig()), format!("{:?}", p), case)],
        Ok(bad) => bad.into_iter().map(|(n, d)| finding(format!("C19|cs|{}", n), d, case.clone())).collect(),
    }
}

/// Content, not size: a short byte string with arbitrary content must be accepted by every
/// constructor that takes bytes / text, keep its exact bytes, and survive the wire.
pub fn check_content(bytes: &[u8]) -> Vec<Finding> {
    let case = json!({"kind": "content", "bytes": crate::engine::hex(bytes)});
    let r = guarded(|| {
        let mut bad: Vec<(String, String)> = Vec::new();
        match CharacterString::new(bytes) {
            Ok(c) => {
                if c.verif_bytes() != bytes {
                    bad.push(("content-changed".into(), format!("CharacterString::new({:?}) holds {:?}", bytes, c.verif_bytes())));
                }
            }
            Err(e) => bad.push(("content-rejected".into(), format!("CharacterString::new({:?}) refused: {:?}", bytes, e))),
        }
        if let Ok(s) = std::str::from_utf8(bytes) {
            if CharacterString::try_from(s).is_err() || CharacterString::try_from(s.to_string()).is_err() {
                bad.push(("content-rejected".into(), format!("CharacterString::try_from({:?}) refused", s)));
            }
            match TXT::new().with_string(s) {
                Ok(t) => {
                    let got: Vec<Vec<u8>> = t.verif_strings().iter().map(|x| x.to_vec()).collect();
                    if got != vec![bytes.to_vec()] {
                        bad.push(("content-changed".into(), format!("TXT::with_string({:?}) holds {:?}", s, got)));
                    }
                }
                Err(e) => bad.push(("content-rejected".into(), format!("TXT::with_string({:?}) refused: {:?}", s, e))),
            }
            match TXT::try_from(s) {
                Ok(t) => match String::try_from(t) {
                    Ok(j) if j == s => {}
                    other => bad.push(("content-join".into(), format!("split/join of {:?} gives {:?}", s, other))),
                },
                Err(e) => bad.push(("content-rejected".into(), format!("TXT::try_from({:?}) refused: {:?}", s, e))),
            }
        }
        bad
    });
    match r {
        Err(p) => vec![finding(format!("C19|content|{}", p.sig()), format!("{:?}", p), case)],
        Ok(bad) => {
            let mut seen = std::collections::BTreeSet::new();
            bad.into_iter().filter(|(n, _)| seen.insert(n.clone())).map(|(n, d)| finding(format!("C19|{}", n), d, case.clone())).collect()
        }
    }
}

const CHARS: [&str; 8] = ["a", "é", "€", "😀", "\u{13b}", "\u{23d}", ";", "="];

pub fn run(ctx: &Ctx) {
    ctx.set_rule("strings a^n·c·t (n around 0, 254/255, 508/510 and 762/765; c and tails over {a,é,€,😀,U+013B,U+023D,;,=}) through split/join in memory and over the wire; all attribute maps of <=3 entries over 3 keys (two differing only in letter case) x 6 values plus 254/255/256-byte entries; all raw string lists of <=3 strings over a small alphabet for attributes(); all strings of length <= L over {a,A,;,=,U+013B,U+023D} through long_attributes; byte strings of every length 0..=300 through every constructor. non-trivial = the case exercises chunking (>=254 bytes), a non-empty map, a separator character, or a boundary length 250..=260");
    ctx.assume("RFC 6763 6.4 reading of attributes: split at the first '=', strings with an empty key are ignored; Unicode scalar values compared as characters");
    let thorough = ctx.tier == crate::engine::Tier::Thorough;
    // space 1: split/join
    let mut ns: Vec<usize> = (0..=3).collect();
    ns.extend(250..=258);
    ns.extend(505..=513);
    if thorough {
        ns.extend(758..=768);
        ns.extend(1014..=1022);
    }
    let mut tails: Vec<String> = vec![String::new()];
    for a in CHARS {
        tails.push(a.to_string());
        for b in CHARS {
            tails.push(format!("{}{}", a, b));
        }
    }
    let cases: Vec<(usize, &str)> = ns.iter().flat_map(|n| CHARS.iter().map(move |c| (*n, *c))).collect();
    par_shards(ctx, &cases, |(n, c), t: &mut Tally| {
        for tail in &tails {
            let s = format!("{}{}{}", "a".repeat(*n), c, tail);
            t.evals += 1;
            if s.len() >= 254 {
                t.nontrivial += 1;
            }
            let f = check_split(&s);
            if !f.is_empty() {
                ctx.violations(f);
            }
        }
        t.outcome("split");
    });
    ctx.space("split/join: a^n · c · tail, n in the boundary set, c in 8 characters, 73 tails", (cases.len() * tails.len()) as u64 + 1, "complete");
    ctx.violations(check_split(""));
    {
        let lens: Vec<usize> = (0..=800).collect();
        par_shards(ctx, &lens, |n, t: &mut Tally| {
            for s in [format!("{}€", "a".repeat(*n)), format!("{}é{}", "b".repeat(n / 2), "c".repeat(n - n / 2)), "é".repeat(*n)] {
                t.evals += 1;
                if s.len() >= 254 {
                    t.nontrivial += 1;
                }
                let f = check_split(&s);
                if !f.is_empty() {
                    ctx.violations(f);
                }
            }
        });
        ctx.space("split/join: every length 0..=800 with a multi-byte character at the end, in the middle, and all multi-byte", 801 * 3, "complete");
    }
    {
        // long texts: around the sizes where the chunk count or the total RDATA size crosses a
        // power of two or the 16-bit limit, and far beyond (in memory only past 65535 bytes of RDATA)
        let mut lens: Vec<usize> = Vec::new();
        for c in [4096usize, 16384, 32768, 64516, 64770, 65024, 65278, 65535, 65536, 65792] {
            lens.extend(c - 6..=c + 6);
        }
        lens.extend([70000usize, 100_000, 131_072, 1 << 20]);
        par_shards(ctx, &lens, |n, t: &mut Tally| {
            for s in ["a".repeat(*n), format!("{}é", "a".repeat(*n - 2)), "€".repeat(*n / 3)] {
                t.evals += 1;
                t.nontrivial += 1;
                let mut f = check_split(&s);
                for x in f.iter_mut() {
                    // keep the artefact small: the case is fully described by its shape
                    x.case = json!({"kind": "split-long", "n": n, "shape": if s.starts_with('€') { 2 } else if s.ends_with('é') { 1 } else { 0 }});
                }
                if !f.is_empty() {
                    ctx.violations(f);
                }
            }
        });
        ctx.space("split/join of long texts: 13 lengths around each of 4096, 16384, 32768, 64516, 64770, 65024, 65278, 65535, 65536, 65792 and 70000, 100000, 131072, 2^20 bytes, three contents (through the wire while the RDATA fits 65535 bytes)", lens.len() as u64 * 3, "complete");
    }
    ctx.sample(json!({"kind": "split", "s": format!("{}é😀", "a".repeat(253))}));
    // space 2: attribute maps
    let keys = ["k", "K", "kk"];
    let long250 = "v".repeat(250);
    let values: Vec<Option<String>> = vec![None, Some("".into()), Some("v".into()), Some("a=b".into()), Some(";".into()), Some(long250)];
    let mut maps: Vec<Vec<(String, Option<String>)>> = vec![vec![]];
    // every assignment key -> (absent from map | one of the values)
    let opts = values.len() + 1;
    for code in 0..opts.pow(3) {
        let mut m = Vec::new();
        let mut c = code;
        for k in keys {
            let o = c % opts;
            c /= opts;
            if o > 0 {
                m.push((k.to_string(), values[o - 1].clone()));
            }
        }
        if !m.is_empty() {
            maps.push(m);
        }
    }
    for total in [253usize, 254, 255, 256, 257, 300] {
        // key-only entry and key=value entry of exactly `total` bytes
        maps.push(vec![("k".repeat(total), None)]);
        maps.push(vec![("k".to_string(), Some("v".repeat(total - 2)))]);
        maps.push(vec![("é".repeat(total / 2) + if total % 2 == 1 { "x" } else { "" }, None)]);
    }
    let mut t = Tally::default();
    for m in &maps {
        t.evals += 1;
        if !m.is_empty() {
            t.nontrivial += 1;
        }
        ctx.violations(check_map(m));
    }
    t.outcome("map");
    ctx.space("attribute maps: every assignment of {absent,None,\"\",v,a=b,;,250 bytes} to keys {k,j,kk} + 18 boundary-length entries", maps.len() as u64, "complete");
    ctx.sample(json!({"kind": "map", "entries": [["j", null], ["k", ""], ["kk", "a=b"]]}));
    // space 3: raw string lists (duplicates, empty keys, order)
    let atoms = ["k", "k=", "k=1", "k=2", "K=3", "=v", "", "k=a=b"];
    let mut lists: Vec<Vec<String>> = vec![vec![]];
    for a in atoms {
        lists.push(vec![a.to_string()]);
        for b in atoms {
            lists.push(vec![a.to_string(), b.to_string()]);
            if thorough {
                for c in atoms {
                    lists.push(vec![a.to_string(), b.to_string(), c.to_string()]);
                }
            }
        }
    }
    for l in &lists {
        t.evals += 1;
        if l.len() >= 2 {
            t.nontrivial += 1;
        }
        ctx.violations(check_strings(l));
    }
    for n in [5usize, 16, 31, 32, 33, 34, 40, 61, 64, 65, 100, 128, 129, 200, 300] {
        // n keys with a first value, then the same keys again with a second value (and once more bare)
        let mut l: Vec<String> = (0..n).map(|i| format!("key{:03}=first", (i * 37) % n)).collect();
        l.extend((0..n).map(|i| format!("key{:03}=second", (i * 11) % n)));
        l.extend((0..n).map(|i| format!("key{:03}", i)));
        t.evals += 1;
        t.nontrivial += 1;
        ctx.violations(check_strings(&l));
        // bare first, valued later
        let mut l2: Vec<String> = (0..n).map(|i| format!("k{}", i)).collect();
        l2.extend((0..n).rev().map(|i| format!("k{}=late", i)));
        t.evals += 1;
        ctx.violations(check_strings(&l2));
        // the same through long_attributes (one semicolon-separated string)
        let joined = l.iter().map(|s| s.as_str()).collect::<Vec<_>>().join(";");
        t.evals += 1;
        ctx.violations(check_long(&joined));
    }
    // neighbours: a string of every length 250..=255 (key=value, bare key, "key=") next to short
    // strings with and without '=', in every order of up to three strings
    let mut n_adj = 0u64;
    for len in 250..=255usize {
        let longs = [format!("k={}", "v".repeat(len - 2)), "b".repeat(len), format!("{}=", "e".repeat(len - 1))];
        let shorts = ["flag", "x=y", "k", "z="];
        for long in &longs {
            for a in shorts {
                for l in [vec![long.clone(), a.to_string()], vec![a.to_string(), long.clone()]] {
                    n_adj += 1;
                    t.evals += 1;
                    t.nontrivial += 1;
                    ctx.violations(check_strings(&l));
                }
                for b in shorts {
                    for l in [vec![long.clone(), a.to_string(), b.to_string()], vec![a.to_string(), long.clone(), b.to_string()], vec![a.to_string(), b.to_string(), long.clone()]] {
                        n_adj += 1;
                        t.evals += 1;
                        t.nontrivial += 1;
                        ctx.violations(check_strings(&l));
                    }
                }
            }
            // and as a map entry next to value-less keys (the TXT is built by the library, in its own order)
            if long.contains('=') && !long.ends_with('=') {
                for extra in 1..=5usize {
                    let mut entries: Vec<(String, Option<String>)> = vec![("k".to_string(), Some("v".repeat(len - 2)))];
                    for j in 0..extra {
                        entries.push((format!("f{}{}", j, "x".repeat(j)), None));
                    }
                    n_adj += 1;
                    t.evals += 1;
                    t.nontrivial += 1;
                    ctx.violations(check_map(&entries));
                }
            }
        }
    }
    t.outcome("strings");
    ctx.space("attributes(): every list of <= 2 (3 thorough) raw strings over 8 atoms incl. duplicates and empty keys", lists.len() as u64, "complete");
    ctx.space("attributes(): a string of every length 250..=255 (key=value, bare key, key with an empty value) before / between / after one or two short strings with and without '='; the 250..=255-byte entry in a map next to 1..=5 value-less keys", n_adj, "complete");
    ctx.sample(json!({"kind": "strings", "strings": ["k=1", "k=2"]}));
    ctx.merge(t);
    // space 4: long_attributes
    let la = ["a", "A", ";", "=", "\u{13b}", "\u{23d}"];
    let l = ctx.tier.pick(5usize, 6usize);
    let shards: Vec<String> = la.iter().flat_map(|a| la.iter().map(move |b| format!("{}{}", a, b))).collect();
    let total = std::sync::atomic::AtomicU64::new(0);
    par_shards(ctx, &shards, |prefix, t: &mut Tally| {
        let mut stack = vec![prefix.clone()];
        let mut n = 0u64;
        while let Some(s) = stack.pop() {
            t.evals += 1;
            n += 1;
            if s.contains(';') || s.contains('=') {
                t.nontrivial += 1;
            }
            let f = check_long(&s);
            if !f.is_empty() {
                ctx.violations(f);
            }
            if s.chars().count() < l {
                for a in la {
                    stack.push(format!("{}{}", s, a));
                }
            }
        }
        t.outcome("long");
        total.fetch_add(n, std::sync::atomic::Ordering::Relaxed);
    });
    let mut t = Tally::default();
    for s in ["", "a", "A", ";", "=", "\u{13b}", "\u{23d}"] {
        t.evals += 1;
        ctx.violations(check_long(s));
    }
    ctx.space(&format!("long_attributes: all strings of length <= {} over {{a,A,;,=,U+013B,U+023D}}", l), total.load(std::sync::atomic::Ordering::Relaxed) + 6, "complete");
    ctx.sample(json!({"kind": "long", "s": "a=\u{13b};a\u{23d}=a"}));
    // space 5: character-string construction
    for n in 0..=300usize {
        for fill in [0x00u8, 0xff] {
            t.evals += 1;
            if (250..=260).contains(&n) {
                t.nontrivial += 1;
            }
            ctx.violations(check_cs(n, fill));
        }
    }
    t.outcome("cs");
    ctx.space("character-string construction: every length 0..=300 x 2 fills x 7 constructors + wire framing", 602, "complete");
    ctx.sample(json!({"kind": "cs", "n": 256, "fill": 255}));
    ctx.merge(t);
    // content sweeps: every byte string of length <= 2 and, at length 3, every (first, last) pair of
    // special bytes around every middle byte (thorough: every byte string of length 3)
    {
        let thorough = ctx.tier == crate::engine::Tier::Thorough;
        let specials: Vec<u8> = (0x20u8..0x30).chain(0x3a..0x41).chain(0x5b..0x61).chain(0x7b..0x80).chain([0x00, 0x0a, 0x09, 0x80, 0xc3, 0xff, b'a', b'0']).collect();
        let firsts: Vec<u8> = if thorough { (0..=255u8).collect() } else { specials.clone() };
        let total = std::sync::atomic::AtomicU64::new(0);
        let shards: Vec<u8> = firsts.clone();
        par_shards(ctx, &shards, |a, t: &mut Tally| {
            let mut n = 0u64;
            let lasts: Vec<u8> = if thorough { (0..=255u8).collect() } else { specials.clone() };
            for m in 0..=255u8 {
                for z in &lasts {
                    n += 1;
                    t.evals += 1;
                    t.nontrivial += 1;
                    let f = check_content(&[*a, m, *z]);
                    if !f.is_empty() {
                        ctx.violations(f);
                    }
                }
            }
            total.fetch_add(n, std::sync::atomic::Ordering::Relaxed);
            t.outcome("content");
        });
        let mut t = Tally::default();
        let mut n = 0u64;
        for a in 0..=255u8 {
            t.evals += 1;
            n += 1;
            ctx.violations(check_content(&[a]));
            for b2 in 0..=255u8 {
                t.evals += 1;
                n += 1;
                ctx.violations(check_content(&[a, b2]));
            }
        }
        ctx.violations(check_content(&[]));
        // quoted / escaped shapes of lengths 4..=8 over {", \, a, =}
        let mut b = Vec::new();
        crate::engine::for_each_string_upto(b"\"\\a=;", 7, &mut b, &mut |x| {
            if x.len() >= 4 {
                n += 1;
                t.evals += 1;
                let f = check_content(x);
                if !f.is_empty() {
                    ctx.violations(f);
                }
            }
        });
        // attribute maps keyed by words with a conventional meaning, in several letter cases, alone and together
        {
            let words = ["txtvers", "TxtVers", "TXTVERS", "txtverS", "path", "Path", "PATH", "rp", "RP", "ty", "note", "Note", "pdl", "adminurl", "AdminURL", "u", "U", "priority", "UUID", "uuid"];
            for (i, a) in words.iter().enumerate() {
                for v in [None, Some(String::new()), Some("1".to_string())] {
                    t.evals += 1;
                    n += 1;
                    ctx.violations(check_map(&[(a.to_string(), v.clone())]));
                    let b2 = words[(i + 1) % words.len()];
                    if !b2.eq_ignore_ascii_case(a) {
                        t.evals += 1;
                        n += 1;
                        ctx.violations(check_map(&[(a.to_string(), v.clone()), (b2.to_string(), Some("x".to_string()))]));
                    }
                }
            }
        }
        // attribute maps whose keys and values are wrapped in each ASCII character
        for c in 0x20u8..0x7f {
            if c == b'=' {
                continue;
            }
            let ch = c as char;
            for (k, v) in [(format!("{}k{}", ch, ch), Some(format!("{}v{}", ch, ch))), (format!("k{}", ch), Some(format!("{}", ch))), (format!("{}k", ch), None)] {
                t.evals += 1;
                n += 1;
                ctx.violations(check_map(&[(k, v)]));
            }
        }
        t.outcome("content");
        ctx.merge(t);
        ctx.space(&format!("content: every byte string of length <= 2, every 3-byte string with {} first / last bytes x all middle bytes, every string of length 4..=7 over {{\", \\, a, =, ;}}, attribute maps with keys / values wrapped in every printable ASCII character; through CharacterString::new / try_from, TXT::with_string, TXT::try_from(&str) + join, TXT::try_from(map) + attributes", if thorough { "all 256" } else { "58 special" }), total.load(std::sync::atomic::Ordering::Relaxed) + n, "complete");
        ctx.sample(json!({"kind": "content", "bytes": "226b223d227622"}));
    }
}

pub fn replay(case: &Value) -> Vec<Finding> {
    if case["kind"].as_str() == Some("split-long") {
        let n = case["n"].as_u64().unwrap_or(0) as usize;
        let s = match case["shape"].as_u64().unwrap_or(0) {
            0 => "a".repeat(n),
            1 => format!("{}é", "a".repeat(n.saturating_sub(2))),
            _ => "€".repeat(n / 3),
        };
        return check_split(&s);
    }
    match case["kind"].as_str().unwrap_or("") {
        "split" => check_split(case["s"].as_str().unwrap_or("")),
        "map" => check_map(&attrs_from_json(&case["entries"])),
        "strings" => {
            let l: Vec<String> = case["strings"].as_array().map(|a| a.iter().map(|x| x.as_str().unwrap_or("").to_string()).collect()).unwrap_or_default();
            check_strings(&l)
        }
        "long" => check_long(case["s"].as_str().unwrap_or("")),
        "content" => check_content(&crate::engine::unhex(case["bytes"].as_str().unwrap_or(""))),
        "cs" => check_cs(case["n"].as_u64().unwrap_or(0) as usize, case["fill"].as_u64().unwrap_or(0) as u8),
        _ => vec![],
    }
}

#[allow(dead_code)]
fn _unused(_: &RefPacket, _: Val) {
    let _ = observe;
}
