//! C04 — serialised messages are well-framed and all writers agree.
//! Packets x {plain, compressed} x writer configurations (Vec, growable cursor at offsets over
//! empty / pre-filled storage, fixed slices and cursors of every capacity 0..=len+2, chunking and
//! failing writers at every byte).

use super::finding;
use crate::bind::*;
use crate::engine::{guarded, hex, par_shards, Ctx, Finding, Tally};
use crate::gen;
use crate::refmodel::packet::*;
use serde_json::{json, Value};
use simple_dns::Packet;
use std::io::{Cursor, Seek, SeekFrom, Write};

struct Chunk {
    inner: Cursor<Vec<u8>>,
    n: usize,
}
impl Write for Chunk {
    fn write(&mut self, buf: &[u8]) -> std::io::Result<usize> {
        let k = buf.len().min(self.n);
        self.inner.write(&buf[..k])
    }
    fn flush(&mut self) -> std::io::Result<()> {
        Ok(())
    }
}
impl Seek for Chunk {
    fn seek(&mut self, pos: SeekFrom) -> std::io::Result<u64> {
        self.inner.seek(pos)
    }
}

struct FailAt {
    inner: Cursor<Vec<u8>>,
    limit: u64,
}
impl Write for FailAt {
    fn write(&mut self, buf: &[u8]) -> std::io::Result<usize> {
        let pos = self.inner.position();
        if buf.is_empty() {
            return Ok(0);
        }
        if pos >= self.limit {
            return Err(std::io::Error::new(std::io::ErrorKind::Other, "injected write failure"));
        }
        let k = (buf.len() as u64).min(self.limit - pos) as usize;
        self.inner.write(&buf[..k])
    }
    fn flush(&mut self) -> std::io::Result<()> {
        Ok(())
    }
}
impl Seek for FailAt {
    fn seek(&mut self, pos: SeekFrom) -> std::io::Result<u64> {
        self.inner.seek(pos)
    }
}

const FILL: u8 = 0xee;

fn write_mode<T: Write + Seek>(p: &Packet, compressed: bool, out: &mut T) -> simple_dns::Result<()> {
    if compressed {
        p.write_compressed_to(out)
    } else {
        p.write_to(out)
    }
}

pub fn check_packet(p: &RefPacket, case: &dyn Fn() -> Value, all_caps: bool) -> Vec<Finding> {
    let mut out: Vec<Finding> = Vec::new();
    // a serialisation that failed earlier on this thread must leave no trace in later outputs
    if (p.id as usize + p.answers.len() + p.additional.len()) % 2 == 0 {
        super::c08::provoke_failed_builds();
    }
    let lib = match guarded(|| to_lib(p)) {
        Ok(Ok(l)) => l,
        Ok(Err(e)) => return vec![finding("C04|construct", e, case())],
        Err(pn) => return vec![finding(format!("C04|construct|{}", pn.sig()), format!("{:?}", pn), case())],
    };
    for compressed in [false, true] {
        let mode = if compressed { "compressed" } else { "plain" };
        let reference = guarded(|| if compressed { lib.build_bytes_vec_compressed() } else { lib.build_bytes_vec() });
        let exp = match reference {
            Err(pn) => {
                out.push(finding(format!("C04|{}|vec|{}", mode, pn.sig()), format!("{:?}", pn), case()));
                continue;
            }
            Ok(Err(e)) => {
                out.push(finding(format!("C04|{}|vec|error", mode), format!("{:?}", e), case()));
                continue;
            }
            Ok(Ok(b)) => b,
        };
        // the same call again and again gives the same bytes; two messages written back to back
        // into one writer are two copies of those bytes
        {
            let again = guarded(|| {
                let mut all_same = true;
                for _ in 0..3 {
                    let b = if compressed { lib.build_bytes_vec_compressed() } else { lib.build_bytes_vec() };
                    all_same &= b.as_ref().ok() == Some(&exp);
                }
                let mut cur = Cursor::new(Vec::new());
                let r1 = write_mode(&lib, compressed, &mut cur);
                let r2 = write_mode(&lib, compressed, &mut cur);
                let r3 = write_mode(&lib, compressed, &mut cur);
                (all_same, r1.is_ok() && r2.is_ok() && r3.is_ok(), cur.into_inner())
            });
            match again {
                Err(pn) => out.push(finding(format!("C04|{}|repeat|{}", mode, pn.sig()), format!("{:?}", pn), case())),
                Ok((same, ok, v)) => {
                    if !same {
                        out.push(finding(format!("C04|{}|repeat|bytes-change", mode), "calling the vector-returning function again gives other bytes".to_string(), case()));
                    }
                    let n = exp.len();
                    if !ok || v.len() != 3 * n || v[..n] != exp[..] || v[n..2 * n] != exp[..] || v[2 * n..] != exp[..] {
                        out.push(finding(format!("C04|{}|repeat|back-to-back", mode), format!("three messages written back to back into one cursor: ok={}, {} bytes for 3 x {}, copies equal to the vector-returning call: {} {} {}", ok, v.len(), n, v.len() >= n && v[..n] == exp[..], v.len() >= 2 * n && v[n..2 * n] == exp[..], v.len() >= 3 * n && v[2 * n..3 * n] == exp[..]), case()));
                    }
                }
            }
        }
        // (a) framing, judged by the reference decoder
        match decode_packet(&exp) {
            Err(e) => {
                let tag = match &e {
                    PktErr::Surplus { code, .. } => format!("rdlength-too-large|TYPE{}", code),
                    PktErr::Rdata { code, .. } => format!("rdlength-too-small-or-bad-rdata|TYPE{}", code),
                    PktErr::Walk(_) => "counts-or-lengths".to_string(),
                    PktErr::ZBit => "zbit".to_string(),
                };
                out.push(finding(format!("C04|{}|framing|{}", mode, tag), format!("output is not well-framed: {:?}: {}", e, crate::engine::truncate(&hex(&exp), 400)), case()));
            }
            Ok((d, w)) => {
                if w.end != exp.len() {
                    out.push(finding(format!("C04|{}|framing|trailing-bytes", mode), format!("{} bytes follow the last entry counted by the header", exp.len() - w.end), case()));
                }
                let n_opt = w.records.iter().filter(|r| r.rtype == 41).count();
                if n_opt != usize::from(p.opt.is_some()) {
                    out.push(finding(format!("C04|{}|framing|opt-count", mode), format!("{} OPT records for opt={}", n_opt, p.opt.is_some()), case()));
                }
                let exp_counts = [p.questions.len(), p.answers.len(), p.authority.len(), p.additional.len() + usize::from(p.opt.is_some())];
                if w.counts.iter().map(|c| *c as usize).collect::<Vec<_>>() != exp_counts {
                    out.push(finding(format!("C04|{}|framing|counts", mode), format!("header counts {:?}, entries {:?}", w.counts, exp_counts), case()));
                }
                for (tag, det) in diff(p, &d) {
                    out.push(finding(format!("C04|{}|framing|content|{}", mode, tag), det, case()));
                }
            }
        }
        let len = exp.len();
        let mut report = |cfg: &str, tag: &str, det: String| {
            out.push(finding(format!("C04|{}|{}|{}", mode, cfg, tag), format!("[{} {}] {}", mode, cfg, det), case()));
        };
        // growable cursors: (prefill length, start position)
        let mut cfgs: Vec<(usize, usize)> = vec![(0, 0), (2, 2), (1, 1), (12, 12), (300, 300), (len + 50, 0), (len + 50, 7), (len, 0), (len.saturating_sub(1), 0), (5, 2), (len + 2, 2)];
        cfgs.dedup();
        for (m, k) in cfgs {
            let r = guarded(|| {
                let mut cur = Cursor::new(vec![FILL; m]);
                cur.set_position(k as u64);
                let res = write_mode(&lib, compressed, &mut cur);
                let pos = cur.position();
                (res.map_err(|e| format!("{:?}", e)), pos, cur.into_inner())
            });
            let cfg = if m == 0 { "cursor-empty".to_string() } else if m == k { "cursor-at-end-of-prefix".to_string() } else { "cursor-over-prefilled".to_string() };
            match r {
                Err(pn) => report(&cfg, &pn.sig(), format!("prefill {} start {}: {:?}", m, k, pn)),
                Ok((Err(e), _, _)) => report(&cfg, "error-with-room", format!("prefill {} start {}: growable writer, yet {}", m, k, e)),
                Ok((Ok(()), pos, v)) => {
                    if pos as usize != k + len {
                        report(&cfg, "final-position", format!("prefill {} start {}: final position {} expected {}", m, k, pos, k + len));
                    }
                    if v.len() < k + len || v[k..k + len] != exp[..] {
                        report(&cfg, "bytes-differ", format!("prefill {} start {}: bytes differ from the vector-returning function ({} vs {} bytes)", m, k, v.len().saturating_sub(k), len));
                    } else {
                        if v[..k].iter().any(|b| *b != FILL) {
                            report(&cfg, "prefix-clobbered", format!("prefill {} start {}: bytes before the start offset changed", m, k));
                        }
                        if v.len() > k + len && (v.len() != m || v[k + len..].iter().any(|b| *b != FILL)) {
                            report(&cfg, "suffix-clobbered", format!("prefill {} start {}: bytes after the message changed (storage {} bytes)", m, k, v.len()));
                        }
                    }
                }
            }
        }
        // Vec<u8> (plain only: no Seek)
        if !compressed {
            for pre in [0usize, 3] {
                let r = guarded(|| {
                    let mut v = vec![FILL; pre];
                    let res = lib.write_to(&mut v);
                    (res.map_err(|e| format!("{:?}", e)), v)
                });
                match r {
                    Err(pn) => report("vec-writer", &pn.sig(), format!("{:?}", pn)),
                    Ok((Err(e), _)) => report("vec-writer", "error-with-room", e),
                    Ok((Ok(()), v)) => {
                        if v.len() != pre + len || v[pre..] != exp[..] || v[..pre].iter().any(|b| *b != FILL) {
                            report("vec-writer", "bytes-differ", format!("Vec with {} existing bytes: result {} bytes", pre, v.len()));
                        }
                    }
                }
            }
        }
        // fixed capacity: every capacity 0..=len+2 (or a boundary subset)
        let caps: Vec<usize> = if all_caps { (0..=len + 2).collect() } else { vec![0, 1, 11, 12, 13, len / 2, len.saturating_sub(2), len.saturating_sub(1), len, len + 1, len + 2] };
        for c in caps {
            // Cursor<&mut [u8]> at offset 0 and at offset 2
            for k in [0usize, 2] {
                let r = guarded(|| {
                    let mut buf = vec![FILL; c + k];
                    let (res, pos) = {
                        let mut cur = Cursor::new(&mut buf[..]);
                        cur.set_position(k as u64);
                        let res = write_mode(&lib, compressed, &mut cur);
                        (res.map_err(|e| format!("{:?}", e)), cur.position())
                    };
                    (res, pos, buf)
                });
                let cfg = if k == 0 { "fixed-cursor" } else { "fixed-cursor-at-2" };
                match r {
                    Err(pn) => report(cfg, &pn.sig(), format!("capacity {}: {:?}", c, pn)),
                    Ok((Ok(()), pos, buf)) => {
                        if c < len {
                            report(cfg, "ok-but-too-small", format!("capacity {} < message length {} but Ok was returned (silent truncation)", c, len));
                        } else if buf[k..k + len] != exp[..] || pos as usize != k + len {
                            report(cfg, "bytes-differ", format!("capacity {}: bytes or final position differ", c));
                        } else if buf[..k].iter().any(|b| *b != FILL) || buf[k + len..].iter().any(|b| *b != FILL) {
                            report(cfg, "clobbered", format!("capacity {}: bytes outside the message changed", c));
                        }
                    }
                    Ok((Err(e), _, _)) => {
                        if c >= len {
                            report(cfg, "error-with-room", format!("capacity {} >= message length {} but {}", c, len, e));
                        }
                    }
                }
            }
            // &mut [u8] (plain only)
            if !compressed {
                let r = guarded(|| {
                    let mut buf = vec![FILL; c];
                    let (res, left) = {
                        let mut s: &mut [u8] = &mut buf[..];
                        let res = lib.write_to(&mut s);
                        (res.map_err(|e| format!("{:?}", e)), s.len())
                    };
                    (res, left, buf)
                });
                match r {
                    Err(pn) => report("fixed-slice", &pn.sig(), format!("capacity {}: {:?}", c, pn)),
                    Ok((Ok(()), left, buf)) => {
                        if c < len {
                            report("fixed-slice", "ok-but-too-small", format!("capacity {} < message length {} but Ok was returned", c, len));
                        } else if buf[..len] != exp[..] || left != c - len || buf[len..].iter().any(|b| *b != FILL) {
                            report("fixed-slice", "bytes-differ", format!("capacity {}: bytes differ or slack not preserved", c));
                        }
                    }
                    Ok((Err(e), _, _)) => {
                        if c >= len {
                            report("fixed-slice", "error-with-room", format!("capacity {} >= {} but {}", c, len, e));
                        }
                    }
                }
            }
        }
        // chunking writer: short writes must be retried, result identical
        for n in [1usize, 2, 7] {
            let r = guarded(|| {
                let mut w = Chunk { inner: Cursor::new(Vec::new()), n };
                let res = write_mode(&lib, compressed, &mut w);
                (res.map_err(|e| format!("{:?}", e)), w.inner.into_inner())
            });
            match r {
                Err(pn) => report("chunk-writer", &pn.sig(), format!("chunk {}: {:?}", n, pn)),
                Ok((Err(e), _)) => report("chunk-writer", "error", format!("writer accepting {} bytes per call: {}", n, e)),
                Ok((Ok(()), v)) => {
                    if v != exp {
                        report("chunk-writer", "bytes-differ", format!("writer accepting {} bytes per call produced {} bytes, expected {}", n, v.len(), len));
                    }
                }
            }
        }
        // failing writer at every byte
        let fails: Vec<usize> = if all_caps { (0..=len).collect() } else { vec![0, 1, 11, 12, 13, len / 2, len.saturating_sub(1), len] };
        for n in fails {
            let r = guarded(|| {
                let mut w = FailAt { inner: Cursor::new(Vec::new()), limit: n as u64 };
                let res = write_mode(&lib, compressed, &mut w);
                (res.map_err(|e| format!("{:?}", e)), w.inner.into_inner())
            });
            match r {
                Err(pn) => report("failing-writer", &pn.sig(), format!("fail at {}: {:?}", n, pn)),
                Ok((Ok(()), v)) => {
                    if n < len {
                        report("failing-writer", "error-swallowed", format!("writer failing at byte {} of {}: Ok returned with {} bytes written", n, len, v.len()));
                    } else if v != exp {
                        report("failing-writer", "bytes-differ", "bytes differ".to_string());
                    }
                }
                Ok((Err(e), _)) => {
                    if n >= len {
                        report("failing-writer", "error-with-room", format!("limit {} >= {}: {}", n, len, e));
                    }
                }
            }
        }
    }
    out
}

/// Non-initial states: a packet obtained from the parser, then edited through the public API,
/// must serialise to a well-framed message whose content is the edited packet.
/// edits: 0 none, 1 push question, 2 push answer, 3 append a string to every TXT, 4 set OPT, 5 clear OPT,
/// 6 remove the first answer, 7 change the first record's owner name
pub fn check_parse_edit(seed: &RefPacket, edit: u8) -> Vec<Finding> {
    let mk = || json!({"kind": "parse-edit", "packet": seed, "edit": edit});
    let wire = seed.encode_compressed(0, true);
    let r = guarded(|| -> Option<Vec<(String, String)>> {
        let mut p = Packet::parse(&wire).ok()?;
        match edit {
            1 => p.questions.push(simple_dns::Question::new(simple_dns::Name::new_unchecked("added.example"), simple_dns::TYPE::A.into(), simple_dns::CLASS::IN.into(), true)),
            2 => p.answers.push(simple_dns::ResourceRecord::new(simple_dns::Name::new_unchecked("added.example"), simple_dns::CLASS::IN, 77, simple_dns::rdata::RData::A(simple_dns::rdata::A { address: 0x01020304 }))),
            3 => {
                for r in p.answers.iter_mut().chain(p.additional_records.iter_mut()) {
                    if let simple_dns::rdata::RData::TXT(t) = &mut r.rdata {
                        t.add_char_string(simple_dns::CharacterString::new(b"added=1").unwrap());
                    }
                }
            }
            4 => *p.opt_mut() = Some(lib_opt(&RefOpt { udp: 1400, version: 0, options: vec![(10, crate::refmodel::B(vec![1, 2, 3]))] }).into_owned()),
            5 => *p.opt_mut() = None,
            6 => {
                if !p.answers.is_empty() {
                    p.answers.remove(0);
                }
            }
            7 => {
                if let Some(r) = p.answers.first_mut() {
                    r.name = simple_dns::Name::new_unchecked("renamed.example.com");
                }
            }
            _ => {}
        }
        let mut exp = observe(&p);
        if exp.opt.is_none() && exp.rcode > 15 && exp.rcode != RCODE_RESERVED {
            // a 12-bit rcode without EDNS is not representable: only its low four bits are carried
            exp.rcode &= 0xf;
        }
        let mut bad = Vec::new();
        for compressed in [false, true] {
            let mode = if compressed { "compressed" } else { "plain" };
            match if compressed { p.build_bytes_vec_compressed() } else { p.build_bytes_vec() } {
                Err(e) => bad.push((format!("{}|build-error", mode), format!("{:?}", e))),
                Ok(bytes) => match decode_packet(&bytes) {
                    Err(e) => bad.push((format!("{}|framing", mode), format!("edited packet serialises to an ill-framed message: {:?}", e))),
                    Ok((d, w)) => {
                        if w.end != bytes.len() {
                            bad.push((format!("{}|trailing-bytes", mode), "bytes after the last entry".into()));
                        }
                        for (tag, det) in diff(&exp, &d) {
                            bad.push((format!("{}|content|{}", mode, tag), det));
                        }
                    }
                },
            }
        }
        Some(bad)
    });
    match r {
        Err(pn) => vec![finding(format!("C04|parse-edit|{}", pn.sig()), format!("{:?}", pn), mk())],
        Ok(None) => vec![],
        Ok(Some(bad)) => bad.into_iter().map(|(t, d)| finding(format!("C04|parse-edit|{}", t), format!("edit {}: {}", edit, d), mk())).collect(),
    }
}

/// Records obtained through the library's other constructors (TXT from a string of any length,
/// TXT from an attribute map, in-place edits), framed between a question and a trailing A record.
pub fn check_constructed(kind: &str, n: usize) -> Vec<Finding> {
    use simple_dns::rdata::{RData, TXT};
    use simple_dns::Name;
    let case = json!({"kind": "constructed", "ctor": kind, "n": n});
    let text: String = match kind {
        "txt-from-str" => (0..n).map(|i| (b'a' + (i % 23) as u8) as char).collect(),
        "txt-from-str-utf8" => (0..n).map(|i| if i % 5 == 2 { 'é' } else { 'x' }).collect(),
        "txt-failed-add" => "y".repeat(256 + n * 13),
        _ => String::new(),
    };
    let r = guarded(|| -> Result<Vec<(String, String)>, String> {
        if kind == "svcb-replace" {
            // the same SvcParamKey set twice (the second call replaces the first), every
            // combination of setter and of first / second value size
            use simple_dns::rdata::{HTTPS, SVCB};
            use simple_dns::CharacterString;
            let setter = n % 7;
            let (first, second) = ((n / 7) % 3, (n / 21) % 3);
            let https = (n / 63) % 2 == 1;
            let mut s = SVCB::new(1, Name::new_unchecked("svc.example"));
            s.set_port(8443);
            for v in [first, second] {
                let k = v + 1;
                match setter {
                    0 => s.set_mandatory((0..k as u16).map(|i| i + 1)).map_err(|e| format!("{:?}", e))?,
                    1 => s.set_alpn((0..k).map(|i| CharacterString::new(["h2", "http/1.1", "h3"][i].as_bytes()).unwrap())).map_err(|e| format!("{:?}", e))?,
                    2 => s.set_no_default_alpn(),
                    3 => s.set_port(k as u16),
                    4 => s.set_ipv4hint((0..k as u32).map(|i| 0x0a000001 + i)).map_err(|e| format!("{:?}", e))?,
                    5 => s.set_ipv6hint((0..k as u128).map(|i| 1 + i)).map_err(|e| format!("{:?}", e))?,
                    _ => s.set_param(7, vec![0x55u8; k * 5]).map_err(|e| format!("{:?}", e))?,
                }
            }
            let rdata = if https { RData::HTTPS(HTTPS(s)) } else { RData::SVCB(s) };
            return frame_check(rdata);
        }
        let txt: TXT = match kind {
            "txt-failed-add" => {
                // a rejected add_string / with_string must leave the record as it was
                let mut t = TXT::new();
                for i in 0..(n % 5) {
                    t.add_string(["k=v", "", "abc", "flag"][i % 4]).map_err(|e| format!("{:?}", e))?;
                }
                if t.add_string(text.as_str()).is_ok() {
                    return Err(format!("add_string accepted {} bytes", text.len()));
                }
                t.add_string("after=1").map_err(|e| format!("{:?}", e))?;
                if n % 2 == 1 {
                    if t.add_string(text.as_str()).is_ok() {
                        return Err("second over-long add_string accepted".to_string());
                    }
                }
                t
            }
            "txt-from-str" | "txt-from-str-utf8" => TXT::try_from(text.as_str()).map_err(|e| format!("TXT::try_from(&str) of {} bytes: {:?}", text.len(), e))?,
            "txt-from-map" => {
                let mut m = std::collections::HashMap::new();
                for i in 0..n {
                    m.insert(format!("key{:03}", i), if i % 3 == 0 { None } else { Some("v".repeat(i % 200)) });
                }
                TXT::try_from(m).map_err(|e| format!("TXT::try_from(map) with {} entries: {:?}", n, e))?
            }
            _ => {
                let mut t = TXT::new();
                for i in 0..n {
                    t = t.with_string(if i % 2 == 0 { "abc" } else { "" }).map_err(|e| format!("{:?}", e))?;
                }
                t
            }
        };
        frame_check(RData::TXT(txt))
    });
    fn frame_check(rdata: simple_dns::rdata::RData) -> Result<Vec<(String, String)>, String> {
        use simple_dns::rdata::{RData, A};
        use simple_dns::{Name, Question, ResourceRecord, CLASS, QCLASS, QTYPE, TYPE};
        let mut bad = Vec::new();
        let mut p = Packet::new_reply(7);
        p.questions.push(Question::new(Name::new_unchecked("t.example.com"), QTYPE::TYPE(TYPE::TXT), QCLASS::CLASS(CLASS::IN), false));
        p.answers.push(ResourceRecord::new(Name::new_unchecked("t.example.com"), CLASS::IN, 60, rdata));
        p.additional_records.push(ResourceRecord::new(Name::new_unchecked("t.example.com"), CLASS::IN, 61, RData::A(A { address: 0x01020304 })));
        let plain = p.build_bytes_vec().map_err(|e| format!("build_bytes_vec: {:?}", e))?;
        let comp = p.build_bytes_vec_compressed().map_err(|e| format!("build_bytes_vec_compressed: {:?}", e))?;
        let mut cur = Cursor::new(Vec::new());
        p.write_to(&mut cur).map_err(|e| format!("write_to: {:?}", e))?;
        if cur.into_inner() != plain {
            bad.push(("writer-differs".to_string(), "write_to(Cursor) differs from build_bytes_vec".to_string()));
        }
        for (mode, bytes) in [("plain", &plain), ("compressed", &comp)] {
            match decode_packet(bytes) {
                Err(e) => bad.push((format!("{}|framing", mode), format!("{} output not well-framed: {:?}", mode, e))),
                Ok((d, w)) => {
                    if w.end != bytes.len() {
                        bad.push((format!("{}|trailing-bytes", mode), format!("{} bytes after the last counted entry", bytes.len() - w.end)));
                    }
                    if w.counts != [1, 1, 0, 1] {
                        bad.push((format!("{}|counts", mode), format!("{:?}", w.counts)));
                    }
                    if d.additional.len() != 1 || d.additional[0].rdata != typed(1, vec![crate::refmodel::schema::Val::U32(0x01020304)]) {
                        bad.push((format!("{}|following-record", mode), "the A record after the TXT record does not decode as written".to_string()));
                    }
                }
            }
            if Packet::parse(bytes).is_err() {
                bad.push((format!("{}|unparseable", mode), "the library rejects its own output".to_string()));
            }
        }
        Ok(bad)
    }
    match r {
        Err(pn) => vec![finding(format!("C04|constructed|{}|{}", kind, pn.sig()), format!("{:?}", pn), case)],
        Ok(Err(e)) => {
            // refusing is allowed only where the input cannot be represented
            let refusable = kind == "txt-from-map" || kind == "txt-strings" && n == 0;
            if refusable || e.contains("build_bytes_vec") && n == 0 {
                vec![]
            } else {
                vec![finding(format!("C04|constructed|{}|error", kind), e, case)]
            }
        }
        Ok(Ok(bad)) => bad.into_iter().map(|(t, d)| finding(format!("C04|constructed|{}|{}", kind, t), d, case.clone())).collect(),
    }
}

/// The same domain name obtained through different API paths (Name::new, new_unchecked,
/// try_from, parsed from the wire, `longer.without(suffix)`, and owned copies of each), used as
/// owner name and inside the RDATA of every common name-bearing type: whatever the path, both
/// serialisers write the name's bytes, a correct RDLENGTH, and the record that follows intact.
pub fn check_name_variants(text: &str, path: u8, rtype: u16) -> Vec<Finding> {
    use simple_dns::rdata::{RData, A, CNAME, MX, NS, PTR, SOA, SRV};
    use simple_dns::{Name, Question, ResourceRecord, CLASS, QCLASS, QTYPE, TYPE};
    use std::convert::TryFrom;
    let case = json!({"kind": "name-variant", "text": text, "path": path, "rtype": rtype});
    let want_name = crate::refmodel::RefName::txt(text);
    // the message the derived name is parsed from (paths 3 and 6 take it from here)
    let carrier: Vec<u8> = {
        let mut p = RefPacket { id: 1, flags: F_QR, ..Default::default() };
        let mut longer = want_name.0.clone();
        longer.extend(crate::refmodel::RefName::txt("zone.test").0);
        p.answers.push(rr(text, typed(12, vec![crate::refmodel::schema::Val::Name(crate::refmodel::RefName(longer))])));
        p.encode(0)
    };
    let r = guarded(|| -> Result<Vec<(String, String)>, String> {
        let mut bad = Vec::new();
        let parsed_carrier = Packet::parse(&carrier).map_err(|e| format!("carrier: {:?}", e))?;
        let suffix = Name::new_unchecked("zone.test");
        let long_text = format!("{}.zone.test", text);
        let derived: Name<'static> = match path {
            0 => Name::new(text).map_err(|e| format!("{:?}", e))?.into_owned(),
            1 => Name::new_unchecked(text).into_owned(),
            2 => Name::try_from(text).map_err(|e| format!("{:?}", e))?.into_owned(),
            3 => parsed_carrier.answers[0].name.clone().into_owned(),
            4 => Name::new_unchecked(&long_text).without(&suffix).ok_or("without returned None")?.into_owned(),
            5 => Name::new(&long_text).map_err(|e| format!("{:?}", e))?.without(&suffix).ok_or("without returned None")?.clone().into_owned(),
            _ => match &parsed_carrier.answers[0].rdata {
                RData::PTR(p) => p.0.without(&suffix).ok_or("without returned None")?.into_owned(),
                _ => return Err("carrier shape".into()),
            },
        };
        let other = Name::new_unchecked("other.example");
        let rdata = match rtype {
            12 => RData::PTR(PTR(derived.clone())),
            2 => RData::NS(NS(derived.clone())),
            5 => RData::CNAME(CNAME(derived.clone())),
            15 => RData::MX(MX { preference: 10, exchange: derived.clone() }),
            33 => RData::SRV(SRV { priority: 1, weight: 2, port: 3, target: derived.clone() }),
            _ => RData::SOA(SOA { mname: derived.clone(), rname: other.clone(), serial: 1, refresh: 2, retry: 3, expire: 4, minimum: 5 }),
        };
        let mut p = Packet::new_reply(7);
        p.questions.push(Question::new(derived.clone(), QTYPE::TYPE(TYPE::A), QCLASS::CLASS(CLASS::IN), false));
        p.answers.push(ResourceRecord::new(derived.clone(), CLASS::IN, 60, rdata));
        p.additional_records.push(ResourceRecord::new(Name::new_unchecked("after.example"), CLASS::IN, 61, RData::A(A { address: 0x01020304 })));
        let plain = p.build_bytes_vec().map_err(|e| format!("build_bytes_vec: {:?}", e))?;
        let comp = p.build_bytes_vec_compressed().map_err(|e| format!("build_bytes_vec_compressed: {:?}", e))?;
        for (mode, bytes) in [("plain", &plain), ("compressed", &comp)] {
            match decode_packet(bytes) {
                Err(e) => bad.push((format!("{}|framing", mode), format!("{} output not well-framed: {:?}: {}", mode, e, crate::engine::truncate(&crate::engine::hex(bytes), 300)))),
                Ok((d, w)) => {
                    if w.end != bytes.len() || w.counts != [1, 1, 0, 1] {
                        bad.push((format!("{}|counts-or-trailing", mode), format!("counts {:?}, {} bytes after the last entry", w.counts, bytes.len() - w.end)));
                    }
                    let got_q = d.questions.first().map(|q| q.name.clone());
                    let got_o = d.answers.first().map(|r| r.name.clone());
                    if got_q.as_ref() != Some(&want_name) || got_o.as_ref() != Some(&want_name) {
                        bad.push((format!("{}|name", mode), format!("question / owner name written as {:?} / {:?}, expected {:?}", got_q, got_o, want_name)));
                    }
                    let rd_ok = match d.answers.first().map(|r| &r.rdata) {
                        Some(RefRData::Typed { code, vals }) => *code == rtype && vals.iter().any(|v| matches!(v, crate::refmodel::schema::Val::Name(n) if *n == want_name)),
                        _ => false,
                    };
                    if !rd_ok {
                        bad.push((format!("{}|rdata-name", mode), format!("RDATA decodes as {:?}", d.answers.first().map(|r| &r.rdata))));
                    }
                    if d.additional.len() != 1 || d.additional[0].rdata != typed(1, vec![crate::refmodel::schema::Val::U32(0x01020304)]) {
                        bad.push((format!("{}|following-record", mode), "the A record after the name-bearing record does not decode as written".to_string()));
                    }
                }
            }
            if Packet::parse(bytes).is_err() {
                bad.push((format!("{}|unparseable", mode), "the library rejects its own output".to_string()));
            }
        }
        Ok(bad)
    });
    match r {
        Err(pn) => vec![finding(format!("C04|name-variant|{}", pn.sig()), format!("{:?}", pn), case)],
        Ok(Err(e)) => vec![finding("C04|name-variant|setup", e, case)],
        Ok(Ok(bad)) => bad.into_iter().map(|(t, d)| finding(format!("C04|name-variant|{}", t), d, case.clone())).collect(),
    }
}

pub fn name_variant_cases() -> Vec<(&'static str, u8, u16)> {
    let mut v = Vec::new();
    for text in ["a", "a.b", "host.example.com", "x.y.z.local", "_http._tcp.local", "w.zone.test", "zone.test.a"] {
        for path in 0..7u8 {
            for rtype in [12u16, 2, 5, 15, 33, 6] {
                v.push((text, path, rtype));
            }
        }
    }
    v
}

/// Buffering writers (std's BufWriter over a growable and over a fixed sink): when a write
/// call returns Ok the sink itself - looked at without an extra flush by the caller - holds the
/// message the vector-returning function gives; a sink one byte too small makes the call fail.
pub fn check_buffered(p: &RefPacket) -> Vec<Finding> {
    use std::io::BufWriter;
    let case = json!({"kind": "buffered", "packet": p});
    let r = guarded(|| -> Result<Vec<(String, String)>, String> {
        let mut bad = Vec::new();
        let l = to_lib(p)?;
        for compressed in [false, true] {
            let mode = if compressed { "compressed" } else { "plain" };
            let want = if compressed { l.build_bytes_vec_compressed() } else { l.build_bytes_vec() }.map_err(|e| format!("{:?}", e))?;
            for cap in [1usize, 7, 64, 8192] {
                let mut w = BufWriter::with_capacity(cap, Cursor::new(Vec::new()));
                let res = write_mode(&l, compressed, &mut w);
                let sink: Vec<u8> = w.get_ref().get_ref().clone();
                match res {
                    Err(e) => bad.push((format!("{}|bufwriter|error", mode), format!("BufWriter({}) over a growable cursor: {:?}", cap, e))),
                    Ok(()) => {
                        if sink != want {
                            bad.push((format!("{}|bufwriter|sink-differs-after-ok", mode), format!("BufWriter({}) over a growable cursor: the call returned Ok, the sink holds {} bytes, the message has {} (unflushed tail: {} bytes)", cap, sink.len(), want.len(), w.buffer().len())));
                        }
                    }
                }
            }
            if !want.is_empty() {
                for cap in [1usize, 64, 8192] {
                    let mut store = vec![0u8; want.len() - 1];
                    let mut w = BufWriter::with_capacity(cap, Cursor::new(&mut store[..]));
                    let res = write_mode(&l, compressed, &mut w);
                    if res.is_ok() {
                        bad.push((format!("{}|bufwriter|short-sink-ok", mode), format!("BufWriter({}) over a fixed sink of {} bytes: Ok returned for a message of {} bytes", cap, want.len() - 1, want.len())));
                    }
                    // the buffer is dropped with whatever it still holds; errors at that point are lost by design of BufWriter
                    let _ = w.into_parts();
                }
            }
        }
        Ok(bad)
    });
    match r {
        Err(pn) => vec![finding(format!("C04|buffered|{}", pn.sig()), format!("{:?}", pn), case)],
        Ok(Err(_)) => vec![],
        Ok(Ok(bad)) => bad.into_iter().map(|(t, d)| finding(format!("C04|{}", t), d, case.clone())).collect(),
    }
}

/// Packets at and just beyond what the 16-bit fields of the wire format can express: a record
/// whose RDATA has about 65535 bytes (TXT of `n` 255-byte strings: 256 n bytes; an OPT with `n`
/// options of 252 bytes), a section with `n` entries. Every serialiser either returns an error
/// (allowed only when the packet cannot be represented) or writes a message whose counts and
/// RDLENGTHs describe what follows.
pub fn check_ceiling(kind: &str, n: usize) -> Vec<Finding> {
    use simple_dns::rdata::{RData, A, OPT, OPTCode, TXT};
    use simple_dns::{Name, Question, ResourceRecord, CLASS, QCLASS, QTYPE, TYPE};
    let case = json!({"kind": "ceiling", "what": kind, "n": n});
    let r = guarded(|| -> Result<Vec<(String, String)>, String> {
        let mut bad = Vec::new();
        let mut p = Packet::new_reply(9);
        let filler = "s".repeat(255);
        let optdata = vec![7u8; 252];
        let arec = || ResourceRecord::new(Name::new_unchecked("a"), CLASS::IN, 1, RData::A(A { address: 1 }));
        let mut expect = [0usize; 4];
        let representable;
        match kind {
            "txt-rdata" => {
                let mut t = TXT::new();
                for _ in 0..n {
                    t.add_string(&filler).map_err(|e| format!("add_string: {:?}", e))?;
                }
                p.answers.push(ResourceRecord::new(Name::new_unchecked("t.example"), CLASS::IN, 60, RData::TXT(t)));
                p.additional_records.push(arec());
                expect = [0, 1, 0, 1];
                representable = n * 256 <= 65535;
            }
            "opt-rdata" => {
                let mut o = OPT { opt_codes: Vec::new(), udp_packet_size: 1232, version: 0 };
                for i in 0..n {
                    o.opt_codes.push(OPTCode { code: i as u16, data: std::borrow::Cow::Borrowed(&optdata[..]) });
                }
                *p.opt_mut() = Some(o);
                p.additional_records.push(arec());
                expect = [0, 0, 0, 2];
                representable = n * 256 <= 65535;
            }
            "questions" => {
                for _ in 0..n {
                    p.questions.push(Question::new(Name::new_unchecked("q"), QTYPE::TYPE(TYPE::A), QCLASS::CLASS(CLASS::IN), false));
                }
                expect[0] = n;
                representable = n <= 65535;
            }
            "answers" | "authority" | "additional" | "additional+opt" => {
                let (sec, idx) = match kind {
                    "answers" => (&mut p.answers, 1),
                    "authority" => (&mut p.name_servers, 2),
                    _ => (&mut p.additional_records, 3),
                };
                for _ in 0..n {
                    sec.push(arec());
                }
                expect[idx] = n;
                if kind == "additional+opt" {
                    *p.opt_mut() = Some(OPT { opt_codes: Vec::new(), udp_packet_size: 1232, version: 0 });
                    expect[3] += 1;
                }
                representable = expect[idx] <= 65535;
            }
            _ => return Err(format!("unknown kind {}", kind)),
        }
        let mut outputs: Vec<(&str, Result<Vec<u8>, String>)> = Vec::new();
        outputs.push(("build_bytes_vec", p.build_bytes_vec().map_err(|e| format!("{:?}", e))));
        outputs.push(("build_bytes_vec_compressed", p.build_bytes_vec_compressed().map_err(|e| format!("{:?}", e))));
        let mut cur = Cursor::new(Vec::new());
        outputs.push(("write_to", p.write_to(&mut cur).map(|_| cur.into_inner()).map_err(|e| format!("{:?}", e))));
        let mut cur = Cursor::new(Vec::new());
        outputs.push(("write_compressed_to", p.write_compressed_to(&mut cur).map(|_| cur.into_inner()).map_err(|e| format!("{:?}", e))));
        for (mode, out) in outputs {
            match out {
                Err(e) => {
                    if representable {
                        bad.push((format!("{}|refuses-representable", mode), format!("{} returns {} for a packet the wire format can express", mode, e)));
                    }
                }
                Ok(bytes) => match crate::refmodel::wire::walk(&bytes) {
                    Err(e) => bad.push((format!("{}|ill-framed", mode), format!("{} returned Ok for {} = {} but the {} bytes written do not walk: {:?}", mode, kind, n, bytes.len(), e))),
                    Ok(w) => {
                        let counts = [w.counts[0] as usize, w.counts[1] as usize, w.counts[2] as usize, w.counts[3] as usize];
                        if counts != expect {
                            bad.push((format!("{}|counts-wrapped", mode), format!("{} returned Ok for {} = {}: header counts {:?}, entries written {:?}", mode, kind, n, counts, expect)));
                        } else if w.end != bytes.len() {
                            bad.push((format!("{}|ill-framed", mode), format!("{} returned Ok for {} = {}: {} bytes follow the last counted entry (a length field wrapped)", mode, kind, n, bytes.len() - w.end)));
                        }
                    }
                },
            }
        }
        Ok(bad)
    });
    match r {
        Err(pn) => vec![finding(format!("C04|ceiling|{}|{}", kind, pn.sig()), format!("{:?}", pn), case)],
        Ok(Err(e)) => vec![finding(format!("C04|ceiling|{}|setup", kind), e, case)],
        Ok(Ok(bad)) => bad.into_iter().map(|(t, d)| finding(format!("C04|ceiling|{}|{}", kind, t), d, case.clone())).collect(),
    }
}

pub fn ceiling_cases() -> Vec<(&'static str, usize)> {
    let mut v = Vec::new();
    for n in [254usize, 255, 256, 257, 300, 600] {
        v.push(("txt-rdata", n));
        v.push(("opt-rdata", n));
    }
    for kind in ["questions", "answers", "authority", "additional", "additional+opt"] {
        for n in [65533usize, 65534, 65535, 65536, 65537, 70000, 131072, 131073] {
            v.push((kind, n));
        }
    }
    v
}

pub fn run(ctx: &Ctx) {
    let thorough = ctx.tier == crate::engine::Tier::Thorough;
    ctx.set_rule("packets (header/record/question families with <= 1 deviation, section shapes, a 1/16 stride (quick) or 1/2 stride (thorough) of the 4-slot name-sharing space) x {plain, compressed} x writer configurations: Vec, growable cursor over 11 prefill/start combinations, fixed cursor at offsets 0 and 2 and fixed slice at every capacity 0..=len+2, chunking writers {1,2,7}, failing writer at every byte 0..=len; (a) output decoded strictly by the reference decoder, (b) bytes equal the vector-returning function and nothing outside them changes, (c) too small or failing => Err, enough room => Ok. non-trivial = packet has at least one record");
    ctx.assume("'final position' of a cursor is start + message length; Vec<u8> and &mut [u8] are Write-only and therefore exercised with write_to only");
    let mut space = gen::packet_space(1, false, 2);
    let n1 = space.len();
    let total = gen::sharing_space_size(4);
    let stride = if thorough { 2 } else { 16 };
    let mut idx = 0u64;
    while idx < total {
        space.push(gen::sharing_case(4, idx));
        idx += stride * 7 + 1; // coprime walk over the space
    }
    space.extend(gen::many_and_sized_packets().into_iter().filter(|p| p.encode(0).len() <= 2100));
    for (o, v) in [(16380usize, 0usize), (16384, 1), (16390, 2)] {
        space.push(gen::straddle_packet(o, v));
    }
    let chunks: Vec<(usize, &[RefPacket])> = space.chunks(32).enumerate().collect();
    par_shards(ctx, &chunks, |(ci, ps), t: &mut Tally| {
        for (j, p) in ps.iter().enumerate() {
            t.evals += 1;
            if p.sections().iter().any(|s| !s.is_empty()) {
                t.nontrivial += 1;
            }
            let big = p.encode(0).len() > 3000;
            let f = check_packet(p, &|| json!({"kind": "packet", "packet": p, "n": ci * 32 + j}), !big);
            t.transitions += 2 * (if big { 60 } else { 5 * p.encode(0).len() as u64 + 40 });
            t.outcome(if f.is_empty() { "agree" } else { "disagree" });
            if !f.is_empty() {
                ctx.violations(f);
            }
        }
    });
    // the full size sweep with the cheaper writer set
    let sweep = gen::size_sweep_packets();
    let schunks: Vec<(usize, &[RefPacket])> = sweep.chunks(64).enumerate().collect();
    par_shards(ctx, &schunks, |(ci, ps), t: &mut Tally| {
        for (j, p) in ps.iter().enumerate() {
            t.evals += 1;
            t.nontrivial += 1;
            t.transitions += 120;
            let f = check_packet(p, &|| json!({"kind": "packet", "packet": p, "sweep": ci * 64 + j}), false);
            t.outcome(if f.is_empty() { "agree" } else { "disagree" });
            if !f.is_empty() {
                ctx.violations(f);
            }
        }
    });
    ctx.space("size sweep: every string length 0..=255, tail length 0..=600, label count 1..=127, label length 1..=63, name length 3..=255, list sizes, 2..400 distinct repeated names, through the non-quadratic writer configurations", sweep.len() as u64, "complete");
    // other constructors
    let mut cons: Vec<(&str, usize)> = Vec::new();
    cons.extend((0..=1400usize).map(|n| ("txt-from-str", n)));
    cons.extend((0..=700usize).map(|n| ("txt-from-str-utf8", n)));
    cons.extend((0..=60usize).map(|n| ("txt-from-map", n)));
    cons.extend((0..=80usize).map(|n| ("txt-strings", n)));
    cons.extend((0..=40usize).map(|n| ("txt-failed-add", n)));
    cons.extend((0..126usize).map(|n| ("svcb-replace", n)));
    let cchunks: Vec<&[(&str, usize)]> = cons.chunks(64).collect();
    par_shards(ctx, &cchunks, |cs, t: &mut Tally| {
        for (k, n) in cs.iter() {
            t.evals += 1;
            t.nontrivial += 1;
            t.transitions += 3;
            let f = check_constructed(k, *n);
            t.outcome(if f.is_empty() { "agree" } else { "disagree" });
            if !f.is_empty() {
                ctx.violations(f);
            }
        }
    });
    ctx.space("other constructors: TXT::try_from(&str) for every length 0..=1400 (ASCII) and 0..=700 characters (mixed UTF-8), TXT from attribute maps of 0..=60 entries, TXT of 0..=80 strings, TXT after rejected add_string calls (a failed mutator must leave the record as it was), SVCB/HTTPS with each typed setter called twice with every pair of value sizes; framing of the record and of the record after it", cons.len() as u64, "complete");
    ctx.sample(json!({"kind": "constructed", "ctor": "txt-from-str", "n": 509}));
    // non-initial states: parsed, then edited
    let edits: Vec<(usize, u8)> = (0..n1).flat_map(|i| (0u8..8).map(move |e| (i, e))).collect();
    let echunks: Vec<&[(usize, u8)]> = edits.chunks(256).collect();
    let space_ref = &space;
    par_shards(ctx, &echunks, |es, t: &mut Tally| {
        for (i, e) in es.iter() {
            t.evals += 1;
            t.transitions += 2;
            t.nontrivial += 1;
            let f = check_parse_edit(&space_ref[*i], *e);
            t.outcome(if f.is_empty() { "edited-ok" } else { "edited-bad" });
            if !f.is_empty() {
                ctx.violations(f);
            }
        }
    });
    ctx.space("non-initial states: every packet of the first family parsed from its compressed reference encoding, then one of 8 edits (push question / answer, append to TXT, set / clear OPT, remove, rename), then serialised and decoded strictly", edits.len() as u64, "complete");
    {
        let cases = name_variant_cases();
        par_shards(ctx, &cases, |(text, path, rtype), t: &mut Tally| {
            t.evals += 1;
            t.nontrivial += 1;
            t.transitions += 2;
            let f = check_name_variants(text, *path, *rtype);
            t.outcome(if f.is_empty() { "framed" } else { "ill-framed" });
            if !f.is_empty() {
                ctx.violations(f);
            }
        });
        ctx.space("names obtained through different API paths (Name::new, new_unchecked, try_from, parsed from the wire, longer.without(suffix) on built and on parsed names, owned copies) x 7 names x {PTR, NS, CNAME, MX, SRV, SOA}: as question, owner and RDATA name, both serialisers, the following record intact", cases.len() as u64, "complete");
    }
    {
        let firsts: Vec<&RefPacket> = space[..n1].iter().collect();
        let chunks: Vec<&[&RefPacket]> = firsts.chunks(64).collect();
        par_shards(ctx, &chunks, |ps, t: &mut Tally| {
            for p in ps.iter() {
                t.evals += 1;
                t.nontrivial += 1;
                t.transitions += 14;
                let f = check_buffered(p);
                t.outcome(if f.is_empty() { "framed" } else { "ill-framed" });
                if !f.is_empty() {
                    ctx.violations(f);
                }
            }
        });
        ctx.space("buffering writers: every packet of the first family through write_to / write_compressed_to into std::io::BufWriter (capacities 1, 7, 64, 8192) over a growable cursor (the sink must hold the whole message when the call returns Ok) and over a fixed sink one byte too small (the call must fail)", n1 as u64, "complete");
    }
    {
        let cases = ceiling_cases();
        par_shards(ctx, &cases, |(kind, n), t: &mut Tally| {
            t.evals += 1;
            t.nontrivial += 1;
            t.transitions += 4;
            let f = check_ceiling(kind, *n);
            t.outcome(if f.is_empty() { "framed" } else { "ill-framed" });
            if !f.is_empty() {
                ctx.violations(f);
            }
        });
        ctx.space("16-bit ceilings: a TXT record of 254..600 full strings and an OPT of 254..600 options (RDATA of 65024..153600 bytes), sections of 65533..131073 entries (questions, answers, authority, additional, additional with OPT), through both vector builds and both writers: Ok only with counts and lengths that describe what was written, Err only for what the format cannot express", cases.len() as u64, "complete");
    }
    ctx.space("packets: header/record/question families and section shapes", n1 as u64, "complete");
    ctx.space(&format!("packets: name-sharing space (4 slots) at stride {}, 3 straddle packets", stride * 7 + 1), (space.len() - n1) as u64, "complete for the stride");
    ctx.sample(json!({"kind": "packet", "packet": space[n1 / 2]}));
    ctx.sample(json!({"kind": "packet", "packet": space[n1 + 5]}));
}

pub fn replay(case: &Value) -> Vec<Finding> {
    if case["kind"].as_str() == Some("name-variant") {
        return check_name_variants(case["text"].as_str().unwrap_or("a"), case["path"].as_u64().unwrap_or(0) as u8, case["rtype"].as_u64().unwrap_or(12) as u16);
    }
    if case["kind"].as_str() == Some("buffered") {
        return match serde_json::from_value::<RefPacket>(case["packet"].clone()) {
            Ok(p) => check_buffered(&p),
            Err(_) => vec![],
        };
    }
    if case["kind"].as_str() == Some("ceiling") {
        return check_ceiling(case["what"].as_str().unwrap_or(""), case["n"].as_u64().unwrap_or(0) as usize);
    }
    match serde_json::from_value::<RefPacket>(case["packet"].clone()) {
        _ if case["kind"].as_str() == Some("constructed") => check_constructed(case["ctor"].as_str().unwrap_or(""), case["n"].as_u64().unwrap_or(0) as usize),
        Ok(p) if case["kind"].as_str() == Some("parse-edit") => check_parse_edit(&p, case["edit"].as_u64().unwrap_or(0) as u8),
        Ok(p) => check_packet(&p, &|| case.clone(), true),
        Err(e) => vec![finding("C04|replay-unreadable", format!("{}", e), case.clone())],
    }
}
