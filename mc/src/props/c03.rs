//! C03 — name compression is transparent.
//! Name-sharing space (every assignment of 15 small names to 4/5 name slots x 21 record kinds),
//! 16 KiB straddle family, messages grown to 64 KiB; compressed and plain serialisations must
//! parse to the same packet and the compressed one must not be longer.

use super::finding;
use crate::bind::*;
use crate::engine::{guarded, par_shards, Ctx, Finding, Tally};
use crate::gen;
use crate::refmodel::packet::*;
use serde_json::{json, Value};
use simple_dns::Packet;

pub fn check_packet(p: &RefPacket, case: &dyn Fn() -> Value) -> Vec<Finding> {
    let r = guarded(|| -> Result<(RefPacket, RefPacket, usize, usize), (String, String)> {
        let l = to_lib(p).map_err(|e| ("construct".to_string(), e))?;
        let plain = l.build_bytes_vec().map_err(|e| ("plain-build-error".to_string(), format!("{:?}", e)))?;
        let comp = l.build_bytes_vec_compressed().map_err(|e| ("compressed-build-error".to_string(), format!("build_bytes_vec_compressed failed: {:?}", e)))?;
        // the writer-based compressed entry point behind a prefix (a TCP length, an earlier message)
        for k in [2usize, 300] {
            let mut cur = std::io::Cursor::new(vec![0xeeu8; k]);
            cur.set_position(k as u64);
            l.write_compressed_to(&mut cur).map_err(|e| ("compressed-writer-error".to_string(), format!("write_compressed_to at offset {}: {:?}", k, e)))?;
            let v = cur.into_inner();
            if v.len() < k || v[k..] != comp[..] {
                let parsed_same = Packet::parse(&v[k.min(v.len())..]).map(|x| observe(&x)).ok() == Packet::parse(&plain).map(|x| observe(&x)).ok();
                return Err((if parsed_same { "compressed-writer-bytes-differ".to_string() } else { "compressed-writer-at-offset-differs".to_string() }, format!("write_compressed_to into a cursor positioned at {} gives {} bytes, build_bytes_vec_compressed {} bytes; parses to the same packet: {}", k, v.len().saturating_sub(k), comp.len(), parsed_same)));
            }
        }
        let a = Packet::parse(&plain).map_err(|e| ("plain-unparseable".to_string(), format!("{:?}", e)))?;
        let b = Packet::parse(&comp).map_err(|e| ("compressed-unparseable".to_string(), format!("compressed output rejected: {:?} (len {})", e, comp.len())))?;
        Ok((observe(&a), observe(&b), plain.len(), comp.len()))
    });
    match r {
        Err(pn) => vec![finding(format!("C03|{}", pn.sig()), format!("{:?}", pn), case())],
        Ok(Err((tag, d))) => vec![finding(format!("C03|{}", tag), d, case())],
        Ok(Ok((a, b, lp, lc))) => {
            let mut out: Vec<Finding> = diff(&a, &b).into_iter().map(|(tag, d)| finding(format!("C03|differs|{}", tag), format!("plain vs compressed: {}", d), case())).collect();
            if lc > lp {
                out.push(finding("C03|longer", format!("compressed {} bytes > plain {} bytes", lc, lp), case()));
            }
            out
        }
    }
}

/// The shared packet spaces of C03 / C07: calls `f(packet, case-json-maker, tally)` for every packet.
pub fn for_each_space(ctx: &Ctx, f: &(dyn Fn(&RefPacket, &dyn Fn() -> Value, &mut Tally) + Sync)) {
    let nslots = ctx.tier.pick(4usize, 5usize);
    let total = gen::sharing_space_size(nslots);
    let shard_size = 8192u64;
    let shards: Vec<u64> = (0..(total + shard_size - 1) / shard_size).collect();
    par_shards(ctx, &shards, |s, t: &mut Tally| {
        let lo = s * shard_size;
        let hi = (lo + shard_size).min(total);
        for idx in lo..hi {
            let p = gen::sharing_case(nslots, idx);
            f(&p, &|| json!({"kind": "sharing", "slots": nslots, "index": idx}), t);
        }
    });
    ctx.space(&format!("name sharing: 21 record kinds x every assignment of the 15 names of <= 3 labels over {{a,b}} to {} name slots (question, owner, RDATA names, second owner)", nslots), total, "complete");
    ctx.sample(json!({"kind": "sharing", "slots": nslots, "index": total / 3, "packet": gen::sharing_case(nslots, total / 3)}));
    // the same letters in different case: compression must not merge names that differ in case
    let ctotal = gen::case_sharing_size(4);
    let cshards: Vec<u64> = (0..(ctotal + shard_size - 1) / shard_size).collect();
    par_shards(ctx, &cshards, |s, t: &mut Tally| {
        let lo = s * shard_size;
        let hi = (lo + shard_size).min(ctotal);
        for idx in lo..hi {
            let p = gen::case_sharing_case(4, idx);
            f(&p, &|| json!({"kind": "case", "slots": 4, "index": idx}), t);
        }
    });
    ctx.space("letter case: 21 record kinds x every assignment of the 7 names of <= 2 labels over {a,A} to 4 name slots", ctotal, "complete");
    // straddle family
    let offsets: Vec<usize> = (16360..=16400).collect();
    let cases: Vec<(usize, usize)> = offsets.iter().flat_map(|o| (0..4).map(move |v| (*o, v))).collect();
    par_shards(ctx, &cases, |(o, v), t: &mut Tally| {
        let p = gen::straddle_packet(*o, *v);
        f(&p, &|| json!({"kind": "straddle", "first_at": o, "variant": v}), t);
    });
    ctx.space("16 KiB straddle: first occurrence of a shared name at every offset 16360..=16400 x 4 later-use variants", cases.len() as u64, "complete");
    ctx.sample(json!({"kind": "straddle", "first_at": 16384, "variant": 1}));
    // long names and deep chains
    let longs = long_family();
    let lidx: Vec<usize> = (0..longs.len()).collect();
    par_shards(ctx, &lidx, |i, t: &mut Tally| {
        f(&longs[*i], &|| json!({"kind": "long", "index": i}), t);
    });
    ctx.space("long names: 240..=255-byte names sharing suffixes across question/owner/RDATA of NS, MX, SOA, SRV and PTR; chains of 20..126 owners each extending the previous by one label; many-entry and size-ladder packets; the full size sweep (every string length 0..=255, tail length 0..=600, label count 1..=127, label length 1..=63, name length 3..=255, list sizes, 2..400 distinct repeated names)", longs.len() as u64, "complete");
    // big messages
    let bigs: Vec<(usize, usize)> = vec![(10, 1500), (20, 1600), (30, 2000), (31, 2050), (60, 1000), (120, 500), (300, 180)];
    par_shards(ctx, &bigs, |(n, each), t: &mut Tally| {
        let p = gen::big_shared_packet(*n, *each);
        f(&p, &|| json!({"kind": "big", "n": n, "each": each}), t);
    });
    ctx.space("large messages: 7 packets of 15-65 KiB with names shared throughout", bigs.len() as u64, "complete");
}

pub fn long_family() -> Vec<RefPacket> {
    let mut longs = gen::long_name_packets();
    longs.extend(gen::many_and_sized_packets());
    longs.extend(gen::size_sweep_packets());
    longs
}

pub fn case_packet(case: &Value) -> Option<RefPacket> {
    let g = |k: &str| case[k].as_u64().unwrap_or(0);
    Some(match case["kind"].as_str()? {
        "sharing" => gen::sharing_case(g("slots") as usize, g("index")),
        "case" => gen::case_sharing_case(g("slots") as usize, g("index")),
        "long" => long_family().into_iter().nth(g("index") as usize)?,
        "straddle" => gen::straddle_packet(g("first_at") as usize, g("variant") as usize),
        "big" => gen::big_shared_packet(g("n") as usize, g("each") as usize),
        "packet" => serde_json::from_value(case["packet"].clone()).ok()?,
        _ => return None,
    })
}

pub fn run(ctx: &Ctx) {
    ctx.set_rule("every packet of the name-sharing space, the 16 KiB straddle family and the large-message family is built, serialised plain and compressed, both parsed and observed; oracle: equal observations and compressed length <= plain length. non-trivial = the compressed output is strictly shorter than the plain one (some name really was shared)");
    ctx.assume("names over {a,b} up to 3 labels are enough to produce every sharing relation between two names (equal, suffix, differing first label, differing last label, disjoint)");
    for_each_space(ctx, &|p, case, t| {
        t.evals += 1;
        t.transitions += 2;
        let f = check_packet(p, case);
        // non-trivial: compression did something
        let shorter = guarded(|| to_lib(p).ok().and_then(|l| Some((l.build_bytes_vec().ok()?.len(), l.build_bytes_vec_compressed().ok()?.len())))).ok().flatten();
        if let Some((a, b)) = shorter {
            if b < a {
                t.nontrivial += 1;
            }
        }
        t.outcome(if f.is_empty() { "same" } else { "differs" });
        if !f.is_empty() {
            ctx.violations(f);
        }
    });
    run_noncanonical(ctx);
    run_name_variants(ctx);
}

fn run_noncanonical(ctx: &Ctx) {
    // in-memory values that are not in RFC order (the writers normalise them): C03 only, since
    // the oracle here compares the two serialisations with each other, not with the reference packet
    let ps = gen::noncanonical_packets();
    let mut t = crate::engine::Tally::default();
    for (i, p) in ps.iter().enumerate() {
        t.evals += 1;
        t.transitions += 2;
        t.nontrivial += 1;
        let f = check_packet(p, &|| json!({"kind": "packet", "packet": p, "noncanonical": i}));
        t.outcome(if f.is_empty() { "same" } else { "differs" });
        ctx.violations(f);
    }
    ctx.merge(t);
    ctx.space("non-canonical in-memory values: NSEC records whose windows are held out of order, next names under .local and elsewhere, owners shared with the question", ps.len() as u64, "complete");
}

/// The C04 name-variant cases judged for C03: the compressed and the plain serialisation of the
/// same packet decode to the same names and records whatever API path a name came from.
pub fn run_name_variants(ctx: &Ctx) {
    let cases = super::c04::name_variant_cases();
    par_shards(ctx, &cases, |(text, path, rtype), t: &mut Tally| {
        t.evals += 1;
        t.nontrivial += 1;
        let f: Vec<Finding> = super::c04::check_name_variants(text, *path, *rtype).into_iter().map(|f| Finding { sig: f.sig.replacen("C04|", "C03|", 1), ..f }).collect();
        t.outcome(if f.is_empty() { "same" } else { "differs" });
        if !f.is_empty() {
            ctx.violations(f);
        }
    });
    ctx.space("names obtained through different API paths (new, new_unchecked, try_from, parsed, without(suffix), owned copies) x 7 names x 6 name-bearing types: plain and compressed output decode to the same packet", cases.len() as u64, "complete");
}

pub fn replay(case: &Value) -> Vec<Finding> {
    if case["kind"].as_str() == Some("name-variant") {
        return super::c04::check_name_variants(case["text"].as_str().unwrap_or("a"), case["path"].as_u64().unwrap_or(0) as u8, case["rtype"].as_u64().unwrap_or(12) as u16).into_iter().map(|f| Finding { sig: f.sig.replacen("C04|", "C03|", 1), ..f }).collect();
    }
    match case_packet(case) {
        Some(p) => check_packet(&p, &|| case.clone()),
        None => vec![finding("C03|replay-unreadable", "case not understood".to_string(), case.clone())],
    }
}
