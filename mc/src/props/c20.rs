//! C20 — cached discovery records expire on time.
//! Graph mode with a virtual clock: explicit-state search to the fixpoint over add-authoritative,
//! add-cached(ttl / cache-flush), remove, clear and tick on the real record store (clock seam:
//! verif_advance), every state queried with every filter; the seam is validated by replaying
//! traces with real sleeps.

use super::finding;
use crate::bind::*;
use crate::engine::{guarded, par_shards, Ctx, Finding, Tally};
use crate::refmodel::packet::*;
use crate::refmodel::schema::Val;
use crate::refmodel::RefName;
use serde::{Deserialize, Serialize};
use serde_json::{json, Value};
use simple_mdns::verif::{DomainResourceFilter, ResourceRecordManager};
use std::collections::{BTreeSet, HashSet, VecDeque};

const NAMES: [&str; 3] = ["svc.local", "x.svc.local", "other.local"];
const BIG: u32 = 1000;

fn base_records() -> Vec<RefRR> {
    vec![
        RefRR { name: RefName::txt("svc.local"), class: 1, cache_flush: false, ttl: 0, rdata: typed(12, vec![Val::Name(RefName::txt("x.svc.local"))]) },
        RefRR { name: RefName::txt("x.svc.local"), class: 1, cache_flush: false, ttl: 0, rdata: typed(1, vec![Val::U32(0x0a000001)]) },
        RefRR { name: RefName::txt("x.svc.local"), class: 1, cache_flush: false, ttl: 0, rdata: typed(33, vec![Val::U16(0), Val::U16(0), Val::U16(80), Val::Name(RefName::txt("x.svc.local"))]) },
    ]
}

#[derive(Clone, Copy, PartialEq, Eq, Hash, Debug, Serialize, Deserialize, PartialOrd, Ord)]
pub enum Op {
    AddAuth(usize),
    /// (record, ttl, cache_flush)
    AddCached(usize, u32, bool),
    Remove(usize),
    Clear,
    Tick,
}

#[derive(Clone, Copy, PartialEq, Eq, Hash, Debug, PartialOrd, Ord)]
pub enum Slot {
    Absent,
    Auth,
    /// cached, whole seconds left (1 or 2)
    Left(u32),
    /// cached with the large TTL: cannot expire within the explored horizon
    Big,
    Expired,
}

#[derive(Clone, PartialEq, Eq, Hash, Debug, PartialOrd, Ord)]
pub struct Model {
    pub slots: [Slot; 3],
    pub touched: BTreeSet<usize>,
    pub ticks: u32,
}

impl Default for Model {
    fn default() -> Self {
        Model { slots: [Slot::Absent; 3], touched: BTreeSet::new(), ticks: 0 }
    }
}

impl Model {
    pub fn apply(&mut self, op: Op) {
        let owner = |i: usize| if i == 0 { 0 } else { 1 };
        match op {
            Op::AddAuth(i) => {
                self.slots[i] = Slot::Auth;
                self.touched.insert(owner(i));
            }
            Op::AddCached(i, ttl, cf) => {
                self.touched.insert(owner(i));
                if self.slots[i] != Slot::Auth {
                    let ttl = if cf { 1 } else { ttl };
                    self.slots[i] = match ttl {
                        0 => Slot::Expired,
                        t if t >= 59 => Slot::Big,
                        t => Slot::Left(t),
                    };
                }
            }
            Op::Remove(i) => self.slots[i] = Slot::Absent,
            Op::Clear => {
                self.slots = [Slot::Absent; 3];
                self.touched.clear();
            }
            Op::Tick => {
                self.ticks += 1;
                for s in self.slots.iter_mut() {
                    *s = match *s {
                        Slot::Left(1) => Slot::Expired,
                        Slot::Left(n) => Slot::Left(n - 1),
                        o => o,
                    };
                }
            }
        }
    }
    /// canonical key for deduplication (the tick count is not part of it)
    pub fn key(&self) -> ([Slot; 3], BTreeSet<usize>) {
        (self.slots, self.touched.clone())
    }
}

pub fn ops() -> Vec<Op> {
    let mut v = Vec::new();
    for i in 0..3 {
        v.push(Op::AddAuth(i));
        for ttl in [0u32, 1, 2, BIG] {
            v.push(Op::AddCached(i, ttl, false));
        }
        if i == 1 {
            // TTLs around the refresh-time branches and the largest TTL: never expire within the horizon
            for ttl in [59u32, 60, 61, u32::MAX] {
                v.push(Op::AddCached(i, ttl, false));
            }
        }
        v.push(Op::AddCached(i, BIG, true));
        v.push(Op::Remove(i));
    }
    v.push(Op::Clear);
    v.push(Op::Tick);
    v
}

pub struct World {
    base: &'static Vec<RefRR>,
}

pub fn world() -> World {
    World { base: Box::leak(Box::new(base_records())) }
}

fn lib_record(w: &World, i: usize, ttl: u32, cf: bool) -> simple_dns::ResourceRecord<'static> {
    let mut r = lib_rr(&w.base[i]).expect("record");
    r.ttl = ttl;
    r.cache_flush = cf;
    r
}

/// Execute a history on a fresh real store. `real_sleep`: ticks sleep for real instead of using the seam.
pub fn build_store(w: &World, hist: &[Op], real_sleep: bool) -> Result<ResourceRecordManager<'static>, String> {
    let mut s = ResourceRecordManager::new();
    for op in hist {
        match op {
            Op::AddAuth(i) => s.add_authoritative_resource(lib_record(w, *i, 120, false)),
            Op::AddCached(i, ttl, cf) => s.add_cached_resource(lib_record(w, *i, *ttl, *cf)),
            Op::Remove(i) => s.remove_resource_record(&lib_record(w, *i, 0, false)),
            Op::Clear => s.clear(),
            Op::Tick => {
                if real_sleep {
                    std::thread::sleep(std::time::Duration::from_millis(1040));
                } else if !s.verif_advance(1) {
                    return Err("platform clock cannot be moved back by one second".into());
                }
            }
        }
    }
    Ok(s)
}

/// All queries in one state. Returns deviations (tag, detail).
pub fn judge(w: &World, store: &ResourceRecordManager<'static>, m: &Model) -> Vec<(String, String)> {
    let mut bad = Vec::new();
    let owner = |i: usize| if i == 0 { 0usize } else { 1 };
    for (ni, n) in NAMES.iter().enumerate() {
        let name = RefName::txt(n);
        let ln = lib_name(&name);
        let filters: [(&str, DomainResourceFilter, bool, bool, bool); 4] = [
            ("authoritative", DomainResourceFilter::authoritative(false), true, false, false),
            ("authoritative+subdomains", DomainResourceFilter::authoritative(true), true, false, true),
            ("cached", DomainResourceFilter::cached(), false, true, true),
            ("all", DomainResourceFilter::all(), true, true, true),
        ];
        for (fname, filter, want_auth, want_cached, sub) in filters {
            let got: Vec<usize> = store
                .get_domain_resources(&ln, filter)
                .flatten()
                .filter_map(|r| {
                    let o = obs_rr(r);
                    w.base.iter().position(|b| b.name == o.name && b.rdata == o.rdata)
                })
                .collect();
            for i in 0..3 {
                let at_name = owner(i) == ni;
                let below = ni == 0 && owner(i) == 1; // x.svc.local is below svc.local
                let in_scope = at_name || (sub && below);
                let alive_cached = matches!(m.slots[i], Slot::Left(_) | Slot::Big);
                let is_auth = m.slots[i] == Slot::Auth;
                let may = in_scope && ((want_auth && is_auth) || (want_cached && alive_cached));
                let must = at_name && ((want_auth && is_auth) || (want_cached && alive_cached));
                let has = got.contains(&i);
                if has && !may {
                    let why = match m.slots[i] {
                        Slot::Expired => "expired-returned",
                        Slot::Absent => "absent-returned",
                        Slot::Auth if !want_auth => "authoritative-in-cache-query",
                        Slot::Left(_) | Slot::Big if !want_cached => "cached-in-authoritative-query",
                        _ => "out-of-scope-returned",
                    };
                    bad.push((why.to_string(), format!("query {} [{}] returned record {} whose state is {:?}", n, fname, i, m.slots[i])));
                }
                if must && !has {
                    let why = match m.slots[i] {
                        Slot::Auth => "authoritative-missing",
                        _ => "cached-expired-early",
                    };
                    bad.push((why.to_string(), format!("query {} [{}] did not return record {} whose state is {:?}", n, fname, i, m.slots[i])));
                }
            }
        }
    }
    bad
}

pub fn check_history(w: &World, hist: &[Op], real_sleep: bool) -> Vec<Finding> {
    let mut m = Model::default();
    for op in hist {
        m.apply(*op);
    }
    let mk = || json!({"kind": if real_sleep { "real" } else { "history" }, "history": hist});
    let attempt = || {
        let t0 = std::time::Instant::now();
        let r = guarded(|| build_store(w, hist, real_sleep).map(|s| judge(w, &s, &m)));
        (r, t0.elapsed())
    };
    let (mut r, mut dt) = attempt();
    // a path that stalled is re-run: store time is real time plus the seam's shift
    let budget = if real_sleep { 1040 * m.ticks as u128 + 300 } else { 250 };
    let mut tries = 0;
    while dt.as_millis() > budget && tries < 4 {
        let x = attempt();
        r = x.0;
        dt = x.1;
        tries += 1;
    }
    if dt.as_millis() > budget + 250 {
        // still stalled after five attempts: the machine is too loaded for this path to be judged;
        // no verdict is better than a verdict that depends on scheduling
        INCONCLUSIVE.fetch_add(1, std::sync::atomic::Ordering::Relaxed);
        return vec![];
    }
    match r {
        Err(pn) => vec![finding(format!("C20|{}", pn.sig()), format!("{:?} on {:?}", pn, hist), mk())],
        Ok(Err(e)) => {
            eprintln!("MACHINERY: {}", e);
            std::process::exit(2);
        }
        Ok(Ok(bad)) => {
            if bad.is_empty() {
                return vec![];
            }
            // confirm once more before reporting (timing must not become a verdict)
            let (r2, dt2) = attempt();
            if dt2.as_millis() > budget + 250 {
                INCONCLUSIVE.fetch_add(1, std::sync::atomic::Ordering::Relaxed);
                return vec![];
            }
            let bad2 = match r2 {
                Ok(Ok(b)) => b,
                _ => bad.clone(),
            };
            let mut seen = BTreeSet::new();
            bad.into_iter()
                .filter(|b| bad2.contains(b))
                .filter(|(tag, _)| seen.insert(tag.clone()))
                .map(|(tag, d)| finding(format!("C20|{}{}", if real_sleep { "real-clock|" } else { "" }, tag), format!("history {:?}: {}", hist, d), mk()))
                .collect()
        }
    }
}

pub static INCONCLUSIVE: std::sync::atomic::AtomicU64 = std::sync::atomic::AtomicU64::new(0);

pub fn explore(all_ops: &[Op]) -> Vec<(Model, Vec<Op>)> {
    let mut seen = HashSet::new();
    let mut out = Vec::new();
    let mut frontier: VecDeque<(Model, Vec<Op>)> = VecDeque::new();
    seen.insert(Model::default().key());
    frontier.push_back((Model::default(), vec![]));
    while let Some((m, h)) = frontier.pop_front() {
        out.push((m.clone(), h.clone()));
        for op in all_ops {
            let mut n = m.clone();
            n.apply(*op);
            if seen.insert(n.key()) {
                let mut hh = h.clone();
                hh.push(*op);
                frontier.push_back((n, hh));
            }
        }
    }
    out
}

/// Scale: many distinct records under one owner name (and a few under another), one of them
/// authoritative, inserted one by one; after every insertion and after ticks the store is read back.
/// kinds[i]: 0 authoritative, otherwise cached with that TTL.
pub fn check_scale(n: usize, auth_at: usize, ttl_of: &dyn Fn(usize) -> u32) -> Vec<Finding> {
    check_scale_of(n, auth_at, ttl_of, false)
}

/// `types`: the records differ in their TYPE code (hundreds of distinct types under one name)
/// instead of in their address.
pub fn check_scale_of(n: usize, auth_at: usize, ttl_of: &dyn Fn(usize) -> u32, types: bool) -> Vec<Finding> {
    let case = json!({"kind": "scale", "n": n, "auth_at": auth_at, "types": types});
    let r = guarded(|| -> Result<Vec<(String, String)>, String> {
        let owner = RefName::txt("x.svc.local");
        let codes: Vec<u16> = (0..4000u32).map(|i| 300 + (i as u16) * 13).filter(|c| crate::bind::library_has_no_variant_for(*c)).collect();
        let recs: Vec<RefRR> = (0..n)
            .map(|i| RefRR {
                name: if i % 7 == 6 { RefName::txt("svc.local") } else { owner.clone() },
                class: 1,
                cache_flush: false,
                ttl: 0,
                rdata: if types && i % 4 != 3 { RefRData::Opaque { code: codes[i % codes.len()], data: crate::refmodel::B(vec![(i / codes.len()) as u8, 7]) } } else { typed(1, vec![Val::U32(0x0a00_0000 + i as u32)]) },
            })
            .collect();
        let keys: Vec<String> = recs.iter().map(|r| lib_rr(r).map(|l| format!("{:?}", l.rdata))).collect::<Result<_, _>>()?;
        let mut store = ResourceRecordManager::new();
        let mut bad = Vec::new();
        let mut left: Vec<Option<u32>> = vec![None; n]; // None absent, Some(u32::MAX) authoritative, Some(k) seconds left (0 = expired)
        let read = |store: &ResourceRecordManager<'static>, left: &Vec<Option<u32>>, when: &str, bad: &mut Vec<(String, String)>| {
            for (name, idxs) in [("x.svc.local", (0..n).filter(|i| i % 7 != 6).collect::<Vec<_>>()), ("svc.local", (0..n).filter(|i| i % 7 == 6).collect::<Vec<_>>())] {
                let nm = RefName::txt(name);
                let ln = lib_name(&nm);
                let got_auth: std::collections::HashSet<String> = store.get_domain_resources(&ln, DomainResourceFilter::authoritative(false)).flatten().map(|r| format!("{:?}", r.rdata)).collect();
                let got_all: std::collections::HashSet<String> = store.get_domain_resources(&ln, DomainResourceFilter::all()).flatten().filter(|r| obs_name(&r.name) == RefName::txt(name)).map(|r| format!("{:?}", r.rdata)).collect();
                for i in &idxs {
                    let addr = &keys[*i];
                    let is_auth = left[*i] == Some(u32::MAX);
                    let alive = matches!(left[*i], Some(k) if k > 0);
                    if got_auth.contains(addr) != is_auth {
                        bad.push((if is_auth { "scale-authoritative-missing".into() } else { "scale-cached-in-authoritative-query".into() }, format!("{}: record {} of {} (state {:?}) authoritative query says {}", when, i, n, left[*i], got_auth.contains(addr))));
                    }
                    if got_all.contains(addr) != alive {
                        bad.push((if alive { "scale-record-missing".into() } else { "scale-dead-record-returned".into() }, format!("{}: record {} of {} (state {:?}) combined query says {}", when, i, n, left[*i], got_all.contains(addr))));
                    }
                }
            }
        };
        for i in 0..n {
            let mut r = lib_rr(&recs[i]).map_err(|e| e)?.into_owned();
            if i == auth_at {
                store.add_authoritative_resource(r);
                left[i] = Some(u32::MAX);
            } else {
                let ttl = ttl_of(i);
                r.ttl = ttl;
                store.add_cached_resource(r);
                left[i] = Some(if ttl >= 59 { 1_000_000 } else { ttl });
            }
            let near_pow2 = (i + 2).is_power_of_two() || (i + 1).is_power_of_two() || i.is_power_of_two();
            if (n <= 600 && i % 5 == 4) || i + 1 == n || near_pow2 || [7usize, 8, 15, 16, 31, 32, 33, 63, 64, 65].contains(&i) {
                read(&store, &left, &format!("after inserting {} records", i + 1), &mut bad);
            }
            if bad.len() > 3 {
                return Ok(bad);
            }
        }
        for tick in 1..=3u32 {
            if !store.verif_advance(1) {
                return Err("clock".into());
            }
            for l in left.iter_mut() {
                if let Some(k) = l {
                    if *k != u32::MAX && *k > 0 && *k < 1_000_000 {
                        *k -= 1;
                    }
                }
            }
            read(&store, &left, &format!("{} s after the last insertion", tick), &mut bad);
            // one more reception of the first cached record: it must not disturb the others
            let j = if auth_at == 0 { 1 } else { 0 };
            if n > 1 {
                let mut r = lib_rr(&recs[j]).map_err(|e| e)?.into_owned();
                r.ttl = 1000;
                store.add_cached_resource(r);
                left[j] = Some(1_000_000);
                read(&store, &left, &format!("{} s after, then one re-reception", tick), &mut bad);
            }
        }
        // churn: remove every record one by one, then receive them all again, then clear
        for round in 0..2 {
            for i in 0..n {
                let r = lib_rr(&recs[i]).map_err(|e| e)?.into_owned();
                store.remove_resource_record(&r);
                left[i] = None;
                if (n <= 600 && i % 7 == 3) || i + 1 == n || (i + 1).is_power_of_two() {
                    read(&store, &left, &format!("churn round {}: after removing {} records", round, i + 1), &mut bad);
                }
                if bad.len() > 3 {
                    return Ok(bad);
                }
            }
            for i in (0..n).rev() {
                let mut r = lib_rr(&recs[i]).map_err(|e| e)?.into_owned();
                if i == auth_at && round == 1 {
                    store.add_authoritative_resource(r);
                    left[i] = Some(u32::MAX);
                } else {
                    r.ttl = 1000;
                    store.add_cached_resource(r);
                    left[i] = Some(1_000_000);
                }
            }
            read(&store, &left, &format!("churn round {}: after receiving all {} records again", round, n), &mut bad);
        }
        store.clear();
        for l in left.iter_mut() {
            *l = None;
        }
        read(&store, &left, "after clear", &mut bad);
        Ok(bad)
    });
    match r {
        Err(pn) => vec![finding(format!("C20|scale|{}", pn.sig()), format!("{:?}", pn), case)],
        Ok(Err(e)) => {
            eprintln!("MACHINERY: {}", e);
            std::process::exit(2);
        }
        Ok(Ok(bad)) => {
            let mut seen = BTreeSet::new();
            bad.into_iter().filter(|(t, _)| seen.insert(t.clone())).map(|(t, d)| finding(format!("C20|{}", t), d, case.clone())).collect()
        }
    }
}

/// The network path: a response datagram (plain or compressed bytes) is parsed and ingested by
/// the real add_response_to_resources (sync) / its async twin, then the store is read at
/// 0, 1, 2, ... seconds. `seq` is a list of receptions (ttl, cache_flush) of the same A record.
pub fn check_ingest(seq: &[(u32, bool)], gap: u64, asynchronous: bool) -> Vec<Finding> {
    use simple_mdns::verif::{add_response_to_resources, add_response_to_resources_async};
    let case = json!({"kind": "ingest", "seq": seq, "gap": gap, "async": asynchronous});
    let r = guarded(|| -> Result<Vec<(String, String)>, String> {
        let mut bad = Vec::new();
        let service = lib_name(&RefName::txt("svc.local")).into_owned();
        let own = lib_name(&RefName::txt("me.svc.local")).into_owned();
        let owner_ref = RefName::txt("peer.svc.local");
        let owner = lib_name(&owner_ref).into_owned();
        let mut store = ResourceRecordManager::new();
        store.add_authoritative_resource(simple_dns::ResourceRecord::new(service.clone(), simple_dns::CLASS::IN, 120, simple_dns::rdata::RData::PTR(simple_dns::rdata::PTR(own.clone()))));
        let rt = if asynchronous { Some(tokio::runtime::Builder::new_current_thread().build().map_err(|e| format!("{}", e))?) } else { None };
        let mut left: Option<u32> = None; // seconds the record still has to live
        let read = |store: &ResourceRecordManager<'static>, left: Option<u32>, when: String, bad: &mut Vec<(String, String)>| {
            let got = store.get_domain_resources(&owner, DomainResourceFilter::cached()).flatten().any(|r| matches!(&r.rdata, simple_dns::rdata::RData::A(a) if a.address == 0x0a0b0c0d));
            let alive = matches!(left, Some(k) if k > 0);
            if got != alive {
                bad.push((if alive { "ingest-record-missing".to_string() } else { "ingest-expired-record-returned".to_string() }, format!("{}: cached query returns the record: {}, expected {} ({:?} s left)", when, got, alive, left)));
            }
            let auth = store.get_domain_resources(&owner, DomainResourceFilter::authoritative(false)).flatten().count();
            if auth != 0 {
                bad.push(("ingest-network-record-authoritative".to_string(), format!("{}: a record learned from the network is returned by the authoritative query", when)));
            }
        };
        for (step, (ttl, flush)) in seq.iter().enumerate() {
            let mut p = RefPacket { id: 0, flags: F_QR | F_AA, ..Default::default() };
            p.answers.push(RefRR { name: owner_ref.clone(), class: 1, cache_flush: *flush, ttl: *ttl, rdata: typed(1, vec![Val::U32(0x0a0b0c0d)]) });
            let bytes = if step % 2 == 0 { p.encode(0) } else { p.encode_compressed(0, true) };
            let packet = simple_dns::Packet::parse(&bytes).map_err(|e| format!("{:?}", e))?;
            match &rt {
                None => add_response_to_resources(packet, &service, &own, &mut store, &mut None),
                Some(rt) => rt.block_on(add_response_to_resources_async(packet, &service, &own, &mut store, &mut None)),
            }
            left = Some(if *flush { 1 } else if *ttl >= 59 { 1_000_000 } else { *ttl });
            read(&store, left, format!("right after reception {} (ttl {}, cache-flush {})", step, ttl, flush), &mut bad);
            for tick in 1..=gap {
                if !store.verif_advance(1) {
                    return Err("clock".into());
                }
                if let Some(k) = left.as_mut() {
                    if *k > 0 && *k < 1_000_000 {
                        *k -= 1;
                    }
                }
                read(&store, left, format!("{} s after reception {} (ttl {}, cache-flush {})", tick, step, ttl, flush), &mut bad);
            }
        }
        Ok(bad)
    });
    match r {
        Err(pn) => vec![finding(format!("C20|ingest|{}", pn.sig()), format!("{:?}", pn), case)],
        Ok(Err(e)) => vec![finding("C20|ingest|path-error", e, case)],
        Ok(Ok(bad)) => {
            let mut seen = std::collections::BTreeSet::new();
            bad.into_iter().filter(|(t, _)| seen.insert(t.clone())).map(|(t, d)| finding(format!("C20|{}", t), d, case.clone())).collect()
        }
    }
}

/// Exact lifetime of one network-learned record with an arbitrary TTL: alive after ttl - 1
/// seconds, gone after ttl (and after 1 second when it came with the cache-flush bit), through
/// the real ingest path and the virtual clock.
pub fn check_ingest_exact(ttl: u32, flush: bool, asynchronous: bool) -> Vec<Finding> {
    // the comparison "still there one second before the end" is a whole second away from the
    // boundary only if the case itself runs fast: a slow run (a descheduled thread) is repeated
    // and a violation is reported only if it reproduces
    let mut last = Vec::new();
    for _ in 0..4 {
        let t0 = std::time::Instant::now();
        last = check_ingest_exact_once(ttl, flush, asynchronous);
        if last.is_empty() || t0.elapsed() < std::time::Duration::from_millis(250) {
            break;
        }
    }
    last
}

fn check_ingest_exact_once(ttl: u32, flush: bool, asynchronous: bool) -> Vec<Finding> {
    use simple_mdns::verif::{add_response_to_resources, add_response_to_resources_async};
    let case = json!({"kind": "ingest-exact", "ttl": ttl, "flush": flush, "async": asynchronous});
    let r = guarded(|| -> Result<Vec<(String, String)>, String> {
        let mut bad = Vec::new();
        let service = lib_name(&RefName::txt("svc.local")).into_owned();
        let own = lib_name(&RefName::txt("me.svc.local")).into_owned();
        let owner_ref = RefName::txt("peer.svc.local");
        let owner = lib_name(&owner_ref).into_owned();
        let mut store = ResourceRecordManager::new();
        let mut p = RefPacket { id: 0, flags: F_QR | F_AA, ..Default::default() };
        p.answers.push(RefRR { name: owner_ref.clone(), class: 1, cache_flush: flush, ttl, rdata: typed(1, vec![Val::U32(0x0a0b0c0e)]) });
        let bytes = p.encode(0);
        let packet = simple_dns::Packet::parse(&bytes).map_err(|e| format!("{:?}", e))?;
        if asynchronous {
            let rt = tokio::runtime::Builder::new_current_thread().build().map_err(|e| format!("{}", e))?;
            rt.block_on(add_response_to_resources_async(packet, &service, &own, &mut store, &mut None));
        } else {
            add_response_to_resources(packet, &service, &own, &mut store, &mut None);
        }
        let present = |store: &ResourceRecordManager<'static>| store.get_domain_resources(&owner, DomainResourceFilter::cached()).flatten().any(|r| matches!(&r.rdata, simple_dns::rdata::RData::A(a) if a.address == 0x0a0b0c0e));
        let life: u64 = if flush { 1 } else { ttl as u64 };
        if life >= 1 && !present(&store) {
            bad.push(("ingest-exact|missing-at-once".to_string(), format!("ttl {} cache-flush {}: not returned right after reception", ttl, flush)));
        }
        if life >= 2 {
            if !store.verif_advance(life - 1) {
                return Err("clock".into());
            }
            if !present(&store) {
                bad.push(("ingest-exact|expired-early".to_string(), format!("ttl {} cache-flush {}: gone {} s after reception, one second before its lifetime ends", ttl, flush, life - 1)));
            }
            if !store.verif_advance(1) {
                return Err("clock".into());
            }
        } else if !store.verif_advance(life.max(1)) {
            return Err("clock".into());
        }
        if present(&store) {
            bad.push(("ingest-exact|outlives-ttl".to_string(), format!("ttl {} cache-flush {}: still returned {} s after reception", ttl, flush, life.max(1))));
        }
        Ok(bad)
    });
    match r {
        Err(pn) => vec![finding(format!("C20|ingest-exact|{}", pn.sig()), format!("{:?}", pn), case)],
        Ok(Err(e)) => {
            eprintln!("MACHINERY: {}", e);
            std::process::exit(2);
        }
        Ok(Ok(bad)) => bad.into_iter().map(|(t, d)| finding(format!("C20|{}", t), d, case.clone())).collect(),
    }
}

/// The real services under the real clock: a watcher (sync or tokio ServiceDiscovery) hears one
/// announcement from a raw UDP peer (TTL 1, or TTL 120 with the cache-flush bit), lists it, and
/// must have dropped it 1.5 s and 2.1 s after the announcement.
pub fn socket_expiry_case(k: usize, asynchronous: bool, flush: bool) -> Result<Vec<Finding>, String> {
    use std::time::{Duration, Instant};
    let svc = format!("_c20x{}{}{}._tcp.local", k, if asynchronous { "a" } else { "s" }, if flush { "f" } else { "t" });
    let case = json!({"kind": "socket-expiry", "k": k, "async": asynchronous, "flush": flush});
    let peer = RefName::txt(&format!("peer.{}", svc));
    let announcement = {
        let mut p = RefPacket { id: 0, flags: F_QR | F_AA, ..Default::default() };
        let ttl = if flush { 120 } else { 1 };
        p.answers.push(RefRR { name: peer.clone(), class: 1, cache_flush: flush, ttl, rdata: typed(33, vec![Val::U16(0), Val::U16(0), Val::U16(4000), Val::Name(peer.clone())]) });
        p.answers.push(RefRR { name: peer.clone(), class: 1, cache_flush: flush, ttl, rdata: typed(1, vec![Val::U32(0x0a010203)]) });
        p.encode_compressed(0, true)
    };
    let rt = tokio::runtime::Builder::new_multi_thread().worker_threads(2).enable_all().build().map_err(|e| format!("{}", e))?;
    enum W {
        S(simple_mdns::sync_discovery::ServiceDiscovery),
        A(simple_mdns::async_discovery::ServiceDiscovery),
    }
    let r = guarded(|| -> Result<Vec<(String, String)>, String> {
        let me = simple_mdns::InstanceInformation::new(format!("watcher{}", k)).with_port(4999).with_ip_address("10.9.9.1".parse().unwrap());
        let w = if asynchronous {
            W::A(rt.block_on(async { simple_mdns::async_discovery::ServiceDiscovery::new(me, &svc, 120) }).map_err(|e| format!("{:?}", e))?)
        } else {
            W::S(simple_mdns::sync_discovery::ServiceDiscovery::new(me, &svc, 120).map_err(|e| format!("{:?}", e))?)
        };
        let listed = |w: &W| -> bool {
            let set = match w {
                W::S(s) => s.get_known_services(),
                W::A(a) => rt.block_on(a.get_known_services()),
            };
            set.iter().any(|i| i.unescaped_instance_name() == "peer")
        };
        std::thread::sleep(Duration::from_millis(150));
        let tx = std::net::UdpSocket::bind((std::net::Ipv4Addr::UNSPECIFIED, 0)).map_err(|e| format!("{}", e))?;
        let _ = tx.set_multicast_loop_v4(true);
        tx.send_to(&announcement, (std::net::Ipv4Addr::new(224, 0, 0, 251), 5353)).map_err(|e| format!("{}", e))?;
        let sent = Instant::now();
        let mut seen = false;
        while sent.elapsed() < Duration::from_millis(700) {
            if listed(&w) {
                seen = true;
                break;
            }
            std::thread::sleep(Duration::from_millis(25));
        }
        let mut bad = Vec::new();
        if !seen {
            // whether an announced peer gets listed is C15's question; without a listing there is nothing to expire
            return Ok(bad);
        }
        for at in [1500u64, 2100] {
            let now = sent.elapsed();
            if now < Duration::from_millis(at) {
                std::thread::sleep(Duration::from_millis(at) - now);
            }
            if listed(&w) {
                bad.push(("socket-expiry|still-listed".to_string(), format!("a peer received once with {} is still listed {} ms after its announcement", if flush { "the cache-flush bit (TTL 120)" } else { "TTL 1" }, at)));
                break;
            }
        }
        if bad.is_empty() {
            // datagrams that carry no fresh record of the peer: the announcement as a query, a
            // bare header claiming two answers, the announcement cut short, an unrelated response.
            // None of them is a new reception, so the expired peer must stay gone.
            let mut as_query = announcement.clone();
            as_query[2] &= 0x7f;
            let mut unrelated = RefPacket { id: 0, flags: F_QR | F_AA, ..Default::default() };
            unrelated.answers.push(RefRR { name: RefName::txt("elsewhere.local"), class: 1, cache_flush: false, ttl: 120, rdata: typed(1, vec![Val::U32(0x0a010299)]) });
            let noise: Vec<Vec<u8>> = vec![
                as_query,
                announcement[..12].to_vec(),
                announcement[..announcement.len() - 1].to_vec(),
                announcement[..announcement.len() / 2].to_vec(),
                unrelated.encode(0),
                announcement[..12].to_vec(),
                vec![0u8; 12],
                announcement[..13].to_vec(),
            ];
            for d in &noise {
                let _ = tx.send_to(d, (std::net::Ipv4Addr::new(224, 0, 0, 251), 5353));
                std::thread::sleep(Duration::from_millis(30));
                if listed(&w) {
                    bad.push(("socket-expiry|resurrected".to_string(), format!("an expired peer is listed again after a {}-byte datagram that carries no record of it ({})", d.len(), crate::engine::truncate(&crate::engine::hex(d), 80))));
                    break;
                }
            }
            std::thread::sleep(Duration::from_millis(80));
            if bad.is_empty() && listed(&w) {
                bad.push(("socket-expiry|resurrected".to_string(), "an expired peer is listed again after datagrams that carry no record of it (the announcement as a query, bare headers, truncated copies, an unrelated response)".to_string()));
            }
        }
        Ok(bad)
    });
    rt.shutdown_timeout(Duration::from_millis(100));
    match r {
        Err(pn) => Ok(vec![finding(format!("C20|socket-expiry|{}", pn.sig()), format!("{:?}", pn), case)]),
        Ok(Err(e)) => Err(e),
        Ok(Ok(bad)) => Ok(bad.into_iter().map(|(t, d)| finding(format!("C20|{}|{}", t, if asynchronous { "tokio" } else { "sync" }), d, case.clone())).collect()),
    }
}

/// A tokio watcher whose discovery channel (capacity 1) the application reads late: a peer is
/// announced twice with TTL 120 and then says goodbye (TTL 0) while the channel is still full.
/// Once the application has caught up, the goodbye has been applied: the peer is gone.
pub fn socket_channel_case(k: usize) -> Result<Vec<Finding>, String> {
    use std::time::{Duration, Instant};
    let svc = format!("_c20ch{}._tcp.local", k);
    let case = json!({"kind": "socket-channel", "k": k});
    let peer = RefName::txt(&format!("peer.{}", svc));
    let message = |ttl: u32| {
        let mut p = RefPacket { id: 0, flags: F_QR | F_AA, ..Default::default() };
        p.answers.push(RefRR { name: peer.clone(), class: 1, cache_flush: false, ttl, rdata: typed(33, vec![Val::U16(0), Val::U16(0), Val::U16(4000), Val::Name(peer.clone())]) });
        p.answers.push(RefRR { name: peer.clone(), class: 1, cache_flush: false, ttl, rdata: typed(1, vec![Val::U32(0x0a010204)]) });
        p.encode_compressed(0, true)
    };
    let rt = tokio::runtime::Builder::new_multi_thread().worker_threads(2).enable_all().build().map_err(|e| format!("{}", e))?;
    let r = guarded(|| -> Result<Vec<(String, String)>, String> {
        let me = simple_mdns::InstanceInformation::new(format!("watcher{}", k)).with_port(4998).with_ip_address("10.9.9.2".parse().unwrap());
        let (txc, mut rxc) = tokio::sync::mpsc::channel(1);
        let w = rt.block_on(async { simple_mdns::async_discovery::ServiceDiscovery::new_with_scope(me, &svc, 120, Some(txc), simple_mdns::NetworkScope::V4) }).map_err(|e| format!("{:?}", e))?;
        std::thread::sleep(Duration::from_millis(150));
        let tx = std::net::UdpSocket::bind((std::net::Ipv4Addr::UNSPECIFIED, 0)).map_err(|e| format!("{}", e))?;
        let _ = tx.set_multicast_loop_v4(true);
        for ttl in [120u32, 120, 0] {
            tx.send_to(&message(ttl), (std::net::Ipv4Addr::new(224, 0, 0, 251), 5353)).map_err(|e| format!("{}", e))?;
            std::thread::sleep(Duration::from_millis(200));
        }
        // the application catches up; a goodbye takes effect one second after it is processed
        let start = Instant::now();
        let mut ever_listed = false;
        let mut listed = true;
        while start.elapsed() < Duration::from_millis(3000) {
            while rxc.try_recv().is_ok() {}
            listed = rt.block_on(w.get_known_services()).iter().any(|i| i.unescaped_instance_name() == "peer");
            ever_listed |= listed;
            if !listed && start.elapsed() > Duration::from_millis(1500) {
                break;
            }
            std::thread::sleep(Duration::from_millis(50));
        }
        let mut bad = Vec::new();
        if listed {
            bad.push(("socket-channel|goodbye-not-applied".to_string(), format!("a peer announced twice (TTL 120) and then withdrawn (TTL 0) while the watcher's discovery channel was full is still listed 3 s after the application caught up (ever listed: {})", ever_listed)));
        }
        Ok(bad)
    });
    rt.shutdown_timeout(Duration::from_millis(100));
    match r {
        Err(pn) => Ok(vec![finding(format!("C20|socket-channel|{}", pn.sig()), format!("{:?}", pn), case)]),
        Ok(Err(e)) => Err(e),
        Ok(Ok(bad)) => Ok(bad.into_iter().map(|(t, d)| finding(format!("C20|{}", t), d, case.clone())).collect()),
    }
}

pub fn real_traces() -> Vec<Vec<Op>> {
    vec![
        vec![Op::AddCached(1, 1, false), Op::Tick],
        vec![Op::AddCached(1, 2, false), Op::Tick],
        vec![Op::AddCached(1, 2, false), Op::Tick, Op::Tick],
        vec![Op::AddCached(1, BIG, true), Op::Tick],
        vec![Op::AddCached(1, 2, false), Op::Tick, Op::AddCached(1, 2, false), Op::Tick],
        vec![Op::AddAuth(2), Op::AddCached(2, 1, false), Op::AddCached(0, 0, false), Op::Tick, Op::Tick],
    ]
}

pub fn run(ctx: &Ctx) {
    // long-lived watchers under the real clock, in the background of everything below
    let longevity = if crate::engine::loopback_multicast_works() {
        Some(std::thread::spawn(|| {
            let a = std::thread::spawn(|| super::longev::two_lifetimes("C20", false));
            let mut f = super::longev::two_lifetimes("C20", true);
            f.extend(a.join().unwrap_or_default());
            f
        }))
    } else {
        None
    };
    run_spaces(ctx);
    if let Some(h) = longevity {
        // a scenario that a defect has wedged must not hold the verdict back
        let waited = std::time::Instant::now();
        while !h.is_finished() && waited.elapsed() < std::time::Duration::from_secs(40) {
            std::thread::sleep(std::time::Duration::from_millis(100));
        }
        let f = if h.is_finished() { h.join().unwrap_or_default() } else { vec![finding("C20|longevity|scenario-does-not-finish", "a long-lived-service scenario has not finished long after its script ended: a call into the service never returned".to_string(), json!({"kind": "socket-race", "scenario": "unfinished"}))] };
        let mut t = Tally::default();
        t.evals += 2;
        t.nontrivial += 2;
        t.transitions += 6;
        t.outcome(if f.is_empty() { "expired-on-time" } else { "socket-expiry-bad" });
        ctx.merge(t);
        ctx.violations(f);
        ctx.space("long-lived watchers (sync and tokio, in the background of the other spaces): two peers heard once with TTL 2 and TTL 8 half a second after start-up; both listed after 1 s, only the second after 3 s, none after 10.4 s (the watcher's own 5-second refresh polls fall in between)", 2, "complete for the two services");
    }
}

fn run_spaces(ctx: &Ctx) {
    let thorough = ctx.eff_tier() == crate::engine::Tier::Thorough;
    ctx.set_rule("explicit-state search to the fixpoint over 27 operations (add-authoritative, add-cached with TTL 0/1/2/1000 or the cache-flush bit, remove, clear, tick 1 s) on three records at svc.local and x.svc.local; states deduplicated by (per record: absent / authoritative / cached with 1 or 2 s left / cached long / expired; owners touched since the last clear); every transition out of every state is executed on a fresh real store (virtual clock through the verif_advance seam) and observed immediately and after 1, 2 and 3 further ticks (remaining lifetimes are hidden state a single query cannot show); all 12 (name, filter) queries are judged against the reference store at each observation. thorough: additionally every history of length <= 6 without deduplication. The seam is validated by traces replayed with real sleeps. non-trivial = state holds a cached record");
    ctx.assume("clock seam: verif_advance(1) moves stored deadlines one second into the past; real time spent on a path is microseconds, every comparison is a whole second away from a boundary except exact expiry, which is decided the same way for any real delay >= 0; paths slower than 250 ms are re-run and a violation is reported only if it reproduces");
    ctx.assume("completeness is demanded at a record's own name; subdomain queries are judged for soundness only");
    let w = world();
    let all = ops();
    let states = explore(&all);
    ctx.add_states(states.len() as u64);
    let chunks: Vec<&[(Model, Vec<Op>)]> = states.chunks(8).collect();
    let all_ref = &all;
    par_shards(ctx, &chunks, |ss, t: &mut Tally| {
        let w = world();
        for (m, h) in ss.iter() {
            t.evals += 1;
            if m.slots.iter().any(|s| matches!(s, Slot::Left(_) | Slot::Big | Slot::Expired)) {
                t.nontrivial += 1;
            }
            // the state itself and every transition out of it
            let f = check_history(&w, h, false);
            t.transitions += 1;
            t.outcome(if f.is_empty() { "state-ok" } else { "state-bad" });
            ctx.violations(f);
            for op in all_ref.iter() {
                // the state reached by this transition is observed now and after 1, 2 and 3 further
                // ticks, so that remaining lifetimes (which no single query shows) are compared too
                let mut hh = h.clone();
                hh.push(*op);
                for _ in 0..4 {
                    t.transitions += 1;
                    let f = check_history(&w, &hh, false);
                    if !f.is_empty() {
                        t.outcome("transition-bad");
                        ctx.violations(f);
                    }
                    hh.push(Op::Tick);
                }
            }
        }
    });
    ctx.space(&format!("fixpoint search: {} distinct states, 27 transitions out of each executed on the real store and observed after 0..=3 further ticks, 12 queries per observation", states.len()), states.len() as u64 * 109, "complete (fixpoint reached)");
    ctx.sample(json!({"kind": "history", "history": states[states.len() / 2].1}));
    ctx.sample(json!({"kind": "history", "history": [Op::AddCached(1, 2, false), Op::Tick, Op::AddCached(1, 2, false), Op::Tick]}));
    // long repetitive histories: (a b)^k and (a b Tick)^k for every ordered pair of operations, far
    // deeper than the fixpoint's shortest paths (state that only builds up over many steps)
    {
        let n = all.len();
        let pairs: Vec<(usize, usize)> = (0..n).flat_map(|a| (0..n).map(move |b| (a, b))).collect();
        let total = std::sync::atomic::AtomicU64::new(0);
        let pch: Vec<&[(usize, usize)]> = pairs.chunks(16).collect();
        par_shards(ctx, &pch, |ps, t: &mut Tally| {
            let w = world();
            let mut cnt = 0u64;
            for (a, b) in ps.iter() {
                for k in [3usize, 6, 11, 20] {
                    for with_tick in [false, true] {
                        let mut h = Vec::new();
                        let mut ticks = 0;
                        for i in 0..k {
                            h.push(all_ref[*a]);
                            h.push(all_ref[*b]);
                            if with_tick && i % 3 == 2 && ticks < 6 {
                                h.push(Op::Tick);
                                ticks += 1;
                            }
                        }
                        t.evals += 1;
                        t.transitions += 2;
                        t.nontrivial += 1;
                        cnt += 1;
                        let f = check_history(&w, &h, false);
                        if !f.is_empty() {
                            t.outcome("long-history-bad");
                            ctx.violations(f);
                        }
                        h.push(Op::Tick);
                        let f = check_history(&w, &h, false);
                        if !f.is_empty() {
                            t.outcome("long-history-bad");
                            ctx.violations(f);
                        }
                    }
                }
            }
            total.fetch_add(cnt, std::sync::atomic::Ordering::Relaxed);
        });
        ctx.space("long histories: (a b)^k for every ordered pair of the 27 operations, k in {3,6,11,20}, with and without interleaved ticks, observed at the end and one tick later", total.load(std::sync::atomic::Ordering::Relaxed), "complete");
    }
    // the network path: datagram -> parse -> add_response_to_resources (sync and async) -> store
    {
        let recs: [(u32, bool); 8] = [(0, false), (1, false), (2, false), (5, false), (120, false), (0, true), (2, true), (120, true)];
        let mut seqs: Vec<Vec<(u32, bool)>> = Vec::new();
        for a in recs {
            seqs.push(vec![a]);
            for b2 in recs {
                seqs.push(vec![a, b2]);
                if ctx.eff_tier() == crate::engine::Tier::Thorough {
                    for c in recs {
                        seqs.push(vec![a, b2, c]);
                    }
                }
            }
        }
        // single receptions with TTLs that code tends to special-case (mDNS defaults, sign bit, maxima)
        for ttl in [3u32, 4, 5, 6, 7, 10, 59, 60, 75, 119, 120, 121, 255, 256, 3600, 4500, 65535, 65536, 86400, 0x7fff_ffff, 0x8000_0000, 0x8000_0001, 0xffff_fffe, 0xffff_ffff] {
            seqs.push(vec![(ttl, false)]);
            seqs.push(vec![(ttl, true)]);
            seqs.push(vec![(1, false), (ttl, false)]);
        }
        let cases: Vec<(Vec<(u32, bool)>, u64, bool)> = seqs.iter().flat_map(|s| [0u64, 1, 3, 6, 12].into_iter().flat_map(move |g| [false, true].into_iter().map(move |asy| (s.clone(), g, asy)))).collect();
        let chunks: Vec<&[(Vec<(u32, bool)>, u64, bool)]> = cases.chunks(16).collect();
        par_shards(ctx, &chunks, |cs, t: &mut Tally| {
            for (s, g, asy) in cs.iter() {
                t.evals += 1;
                t.nontrivial += 1;
                t.transitions += (s.len() as u64) * (1 + g);
                let f = check_ingest(s, *g, *asy);
                if !f.is_empty() {
                    t.outcome("ingest-bad");
                    ctx.violations(f);
                }
            }
        });
        ctx.space("network path: every sequence of <= 2 (3 thorough) receptions over 8 (TTL, cache-flush) shapes of one record, as plain and compressed datagrams parsed and ingested by the real sync and async add_response_to_resources, read back immediately and every second for 0/1/3/6/12 s after each reception; single receptions with 24 further TTLs (mDNS defaults, sign bit, maxima)", cases.len() as u64, "complete");
        ctx.sample(json!({"kind": "ingest", "seq": [[120, true]], "gap": 3, "async": false}));
    }
    // exact lifetimes over a ladder of TTLs (mid-range values, not only round numbers)
    {
        let mut ttls: Vec<u32> = crate::gen::ladder_u32();
        ttls.extend(crate::gen::magic_u32());
        ttls.extend(2..=130u32);
        ttls.sort();
        ttls.dedup();
        let cases: Vec<(u32, bool, bool)> = ttls.iter().flat_map(|t| [(false, false), (true, false), (false, true)].into_iter().map(move |(f, a)| (*t, f, a))).collect();
        let chunks: Vec<&[(u32, bool, bool)]> = cases.chunks(32).collect();
        par_shards(ctx, &chunks, |cs, t: &mut Tally| {
            for (ttl, flush, asy) in cs.iter() {
                t.evals += 1;
                t.nontrivial += 1;
                t.transitions += 3;
                let f = check_ingest_exact(*ttl, *flush, *asy);
                if !f.is_empty() {
                    t.outcome("ingest-bad");
                    ctx.violations(f);
                }
            }
        });
        ctx.space("exact lifetimes: one reception with each TTL of a geometric ladder through the 32-bit range, every TTL 2..=130 and the magic values, plain / cache-flush / tokio path: returned at once, still returned one second before the lifetime ends, gone when it ends", cases.len() as u64, "complete");
    }
    // scale: many records under one name
    {
        let mut sizes: Vec<usize> = vec![1, 2, 4, 8, 9, 15, 16, 17, 31, 32, 33, 34, 50, 63, 64, 65, 100, 128, 129, 200, 256, 257, 500, 1000, 1023, 1024, 1025, 1026, 1100];
        if thorough {
            sizes.extend([2047usize, 2048, 2049, 4096, 4100]);
        }
        let cases: Vec<(usize, usize)> = sizes.iter().flat_map(|n| [0usize, n / 2, n - 1].into_iter().map(move |a| (*n, a))).collect();
        par_shards(ctx, &cases, |(n, a), t: &mut Tally| {
            for variant in 0..3 {
                t.evals += 1;
                t.transitions += *n as u64;
                t.nontrivial += 1;
                let f = if variant == 0 {
                    check_scale(*n, *a, &|_| 1000)
                } else if variant == 1 {
                    check_scale(*n, *a, &|i| [1u32, 2, 1000, 0, 2][i % 5])
                } else {
                    check_scale_of(*n, *a, &|i| [1000u32, 2, 1000, 1, 0][i % 5], true)
                };
                if !f.is_empty() {
                    t.outcome("scale-bad");
                    ctx.violations(f);
                }
            }
        });
        ctx.space("scale: 1..=1100 (4100 thorough) distinct records (29+ sizes around powers of two) under two owner names, the authoritative one first / in the middle / last, all long-lived, TTLs cycling through 1,2,1000,0,2, or records of hundreds of distinct TYPE codes; read back during insertion, for 3 s afterwards and after a re-reception", (cases.len() * 3) as u64, "complete");
    }
    if thorough {
        // every history of length <= 6, no deduplication
        let n = all.len();
        let firsts: Vec<usize> = (0..n * n).collect();
        let total = std::sync::atomic::AtomicU64::new(0);
        par_shards(ctx, &firsts, |ab, t: &mut Tally| {
            let w = world();
            let (a, b) = (ab / n, ab % n);
            let mut cnt = 0u64;
            for c in 0..n {
                for d in 0..n {
                    for e in 0..n {
                        for g in 0..n {
                            let h = [all_ref[a], all_ref[b], all_ref[c], all_ref[d], all_ref[e], all_ref[g]];
                            t.evals += 1;
                            t.transitions += 1;
                            t.nontrivial += 1;
                            cnt += 1;
                            let f = check_history(&w, &h, false);
                            if !f.is_empty() {
                                t.outcome("history-bad");
                                ctx.violations(f);
                            }
                        }
                    }
                }
            }
            total.fetch_add(cnt, std::sync::atomic::Ordering::Relaxed);
        });
        ctx.space("every history of exactly 6 operations over the 27-operation menu, without deduplication (shorter histories are their prefixes' states, covered above)", total.load(std::sync::atomic::Ordering::Relaxed), "complete");
    }
    // the real services and the real clock
    {
        let env_ok = crate::engine::loopback_multicast_works();
        let mut ran = 0u64;
        let mut why: Option<String> = if env_ok { None } else { Some("a raw socket joined to 224.0.0.251:5353 does not receive a datagram sent to the group from this host".to_string()) };
        if env_ok {
            // one after the other: traffic from a neighbouring case would make a watcher re-read its store
            let mut t = Tally::default();
            for (k, (asy, flush)) in [(false, false), (false, true), (true, false), (true, true)].into_iter().enumerate() {
                match std::thread::spawn(move || (k, socket_expiry_case(k, asy, flush))).join() {
                    Ok((_, Ok(f))) => {
                        ran += 1;
                        t.evals += 1;
                        t.nontrivial += 1;
                        t.transitions += 3;
                        t.outcome(if f.is_empty() { "expired-on-time" } else { "socket-expiry-bad" });
                        ctx.violations(f);
                    }
                    Ok((_, Err(e))) => why = Some(format!("services could not be started: {}", e)),
                    Err(_) => why = Some("stage thread died".to_string()),
                }
            }
            match std::thread::spawn(move || socket_channel_case(9)).join() {
                Ok(Ok(f)) => {
                    ran += 1;
                    t.evals += 1;
                    t.nontrivial += 1;
                    t.transitions += 3;
                    t.outcome(if f.is_empty() { "expired-on-time" } else { "socket-expiry-bad" });
                    ctx.violations(f);
                    ctx.space("real tokio ServiceDiscovery with a discovery channel of capacity 1 read late: a raw UDP peer is announced twice (TTL 120) and withdrawn (TTL 0) while the channel is full; once the application has caught up the peer must be gone", 1, "complete for the one case");
                }
                Ok(Err(e)) => why = Some(format!("services could not be started: {}", e)),
                Err(_) => why = Some("stage thread died".to_string()),
            }
            ctx.merge(t);
        }
        ctx.set_extra("socket_expiry_stage", json!({"ran": ran > 0, "cases": ran, "reason": why}));
        ctx.space("real services, real clock: a sync and a tokio ServiceDiscovery each hear one announcement from a raw UDP peer (TTL 1; TTL 120 with the cache-flush bit), list the peer, and must have dropped it 1.5 s and 2.1 s later", ran, "complete for the four cases");
    }
    // real-clock validation of the seam
    let traces = real_traces();
    let use_traces: Vec<Vec<Op>> = if thorough { traces } else { traces.into_iter().take(3).collect() };
    let results: Vec<Vec<Finding>> = std::thread::scope(|sc| {
        let hs: Vec<_> = use_traces
            .iter()
            .map(|tr| {
                sc.spawn(move || {
                    let w = world();
                    // prefixes too: the observation after every step must agree with the model
                    let mut out = Vec::new();
                    out.extend(check_history(&w, tr, true));
                    out
                })
            })
            .collect();
        hs.into_iter().map(|h| h.join().unwrap_or_default()).collect()
    });
    let mut t = Tally::default();
    for (tr, f) in use_traces.iter().zip(results) {
        t.evals += 1;
        t.transitions += 1;
        t.nontrivial += 1;
        t.outcome(if f.is_empty() { "real-clock-agrees" } else { "real-clock-differs" });
        let _ = tr;
        ctx.violations(f);
    }
    ctx.merge(t);
    ctx.space("real-clock replays: traces with TTL 1 / 2, cache-flush and refresh executed with real 1.04 s sleeps and no seam", use_traces.len() as u64, "complete");
    let inc = INCONCLUSIVE.load(std::sync::atomic::Ordering::Relaxed);
    if inc > 0 {
        ctx.cap_hit(&format!("{} executions were too slow to be judged (machine load) and were skipped", inc));
    }
    ctx.set_extra("seam_validation", json!({"traces_with_real_sleeps": use_traces.len(), "sleep_ms_per_tick": 1040}));
    let _ = w;
}

pub fn replay(case: &Value) -> Vec<Finding> {
    let hist: Vec<Op> = serde_json::from_value(case["history"].clone()).unwrap_or_default();
    let w = world();
    if case["kind"].as_str() == Some("socket-expiry") {
        return socket_expiry_case(case["k"].as_u64().unwrap_or(0) as usize + 50, case["async"].as_bool().unwrap_or(false), case["flush"].as_bool().unwrap_or(false)).unwrap_or_default();
    }
    if case["kind"].as_str() == Some("socket-channel") {
        return socket_channel_case(case["k"].as_u64().unwrap_or(0) as usize + 50).unwrap_or_default();
    }
    if case["kind"].as_str() == Some("ingest-exact") {
        return check_ingest_exact(case["ttl"].as_u64().unwrap_or(0) as u32, case["flush"].as_bool().unwrap_or(false), case["async"].as_bool().unwrap_or(false));
    }
    if case["kind"].as_str() == Some("ingest") {
        let seq: Vec<(u32, bool)> = serde_json::from_value(case["seq"].clone()).unwrap_or_default();
        return check_ingest(&seq, case["gap"].as_u64().unwrap_or(0), case["async"].as_bool().unwrap_or(false));
    }
    if case["kind"].as_str() == Some("scale") {
        let n = case["n"].as_u64().unwrap_or(1) as usize;
        let a = case["auth_at"].as_u64().unwrap_or(0) as usize;
        if case["types"].as_bool() == Some(true) {
            return check_scale_of(n, a, &|i| [1000u32, 2, 1000, 1, 0][i % 5], true);
        }
        let mut f = check_scale(n, a, &|_| 1000);
        f.extend(check_scale(n, a, &|i| [1u32, 2, 1000, 0, 2][i % 5]));
        return f;
    }
    check_history(&w, &hist, case["kind"].as_str() == Some("real"))
}
