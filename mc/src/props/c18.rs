//! C18 — type/class codes map one-to-one and query matching is exact.
//! Exhaustive over all 65536 codes for TYPE, CLASS, QTYPE, QCLASS; all (record type, question
//! type) pairs over supported codes x {TYPE(t), ANY, MAILB}; all (class, qclass) pairs; records
//! obtained both by construction and by parsing.

use super::finding;
use crate::bind::*;
use crate::engine::{guarded, par_shards, Ctx, Finding, Tally};
use crate::gen;
use crate::refmodel::packet::*;
use crate::refmodel::schema::{self, Val, SCHEMAS};
use serde_json::{json, Value};
use simple_dns::{Packet, CLASS, QCLASS, QTYPE, TYPE};
use std::convert::TryFrom;

/// IANA: mnemonic -> number, for every mnemonic the library exposes
fn iana() -> Vec<(TYPE, u16, &'static str)> {
    vec![
        (TYPE::A, 1, "A"),
        (TYPE::NS, 2, "NS"),
        (TYPE::MD, 3, "MD"),
        (TYPE::MF, 4, "MF"),
        (TYPE::CNAME, 5, "CNAME"),
        (TYPE::SOA, 6, "SOA"),
        (TYPE::MB, 7, "MB"),
        (TYPE::MG, 8, "MG"),
        (TYPE::MR, 9, "MR"),
        (TYPE::NULL, 10, "NULL"),
        (TYPE::WKS, 11, "WKS"),
        (TYPE::PTR, 12, "PTR"),
        (TYPE::HINFO, 13, "HINFO"),
        (TYPE::MINFO, 14, "MINFO"),
        (TYPE::MX, 15, "MX"),
        (TYPE::TXT, 16, "TXT"),
        (TYPE::RP, 17, "RP"),
        (TYPE::AFSDB, 18, "AFSDB"),
        (TYPE::ISDN, 20, "ISDN"),
        (TYPE::RouteThrough, 21, "RT"),
        (TYPE::NSAP, 22, "NSAP"),
        (TYPE::NSAP_PTR, 23, "NSAP-PTR"),
        (TYPE::AAAA, 28, "AAAA"),
        (TYPE::LOC, 29, "LOC"),
        (TYPE::SRV, 33, "SRV"),
        (TYPE::NAPTR, 35, "NAPTR"),
        (TYPE::KX, 36, "KX"),
        (TYPE::CERT, 37, "CERT"),
        (TYPE::OPT, 41, "OPT"),
        (TYPE::DS, 43, "DS"),
        (TYPE::IPSECKEY, 45, "IPSECKEY"),
        (TYPE::RRSIG, 46, "RRSIG"),
        (TYPE::NSEC, 47, "NSEC"),
        (TYPE::DNSKEY, 48, "DNSKEY"),
        (TYPE::DHCID, 49, "DHCID"),
        (TYPE::ZONEMD, 63, "ZONEMD"),
        (TYPE::SVCB, 64, "SVCB"),
        (TYPE::HTTPS, 65, "HTTPS"),
        (TYPE::EUI48, 108, "EUI48"),
        (TYPE::EUI64, 109, "EUI64"),
        (TYPE::CAA, 257, "CAA"),
    ]
}

/// The IANA RR TYPE registry (mnemonic, number), including types this library does not
/// implement today: a library that grows a mnemonic must give it this number.
pub fn iana_registry() -> &'static [(&'static str, u16)] {
    &[
        ("A", 1), ("NS", 2), ("MD", 3), ("MF", 4), ("CNAME", 5), ("SOA", 6), ("MB", 7), ("MG", 8), ("MR", 9), ("NULL", 10), ("WKS", 11), ("PTR", 12), ("HINFO", 13), ("MINFO", 14), ("MX", 15), ("TXT", 16), ("RP", 17), ("AFSDB", 18),
        ("X25", 19), ("ISDN", 20), ("RT", 21), ("NSAP", 22), ("NSAPPTR", 23), ("SIG", 24), ("KEY", 25), ("PX", 26), ("GPOS", 27), ("AAAA", 28), ("LOC", 29), ("NXT", 30), ("EID", 31), ("NIMLOC", 32), ("SRV", 33), ("ATMA", 34),
        ("NAPTR", 35), ("KX", 36), ("CERT", 37), ("A6", 38), ("DNAME", 39), ("SINK", 40), ("OPT", 41), ("APL", 42), ("DS", 43), ("SSHFP", 44), ("IPSECKEY", 45), ("RRSIG", 46), ("NSEC", 47), ("DNSKEY", 48), ("DHCID", 49),
        ("NSEC3", 50), ("NSEC3PARAM", 51), ("TLSA", 52), ("SMIMEA", 53), ("HIP", 55), ("NINFO", 56), ("RKEY", 57), ("TALINK", 58), ("CDS", 59), ("CDNSKEY", 60), ("OPENPGPKEY", 61), ("CSYNC", 62), ("ZONEMD", 63), ("SVCB", 64),
        ("HTTPS", 65), ("SPF", 99), ("UINFO", 100), ("UID", 101), ("GID", 102), ("UNSPEC", 103), ("NID", 104), ("L32", 105), ("L64", 106), ("LP", 107), ("EUI48", 108), ("EUI64", 109), ("NXNAME", 128), ("TKEY", 249), ("TSIG", 250),
        ("IXFR", 251), ("AXFR", 252), ("MAILB", 253), ("MAILA", 254), ("ANY", 255), ("URI", 256), ("CAA", 257), ("AVC", 258), ("DOA", 259), ("AMTRELAY", 260), ("RESINFO", 261), ("WALLET", 262), ("CLA", 263), ("IPN", 264),
        ("TA", 32768), ("DLV", 32769),
    ]
}

fn norm_mnemonic(s: &str) -> String {
    s.chars().filter(|c| c.is_ascii_alphanumeric()).map(|c| c.to_ascii_uppercase()).collect()
}

pub fn check_code(c: u16) -> Vec<Finding> {
    let case = json!({"kind": "code", "code": c});
    let table = iana();
    let r = guarded(|| {
        let mut bad: Vec<(String, String)> = Vec::new();
        // TYPE
        let t = TYPE::from(c);
        let back = u16::from(t);
        if back != c {
            bad.push(("type-roundtrip".into(), format!("TYPE::from({}) = {:?} converts back to {}", c, t, back)));
        }
        match table.iter().find(|e| e.1 == c) {
            Some((want, _, m)) => {
                if t != *want {
                    bad.push(("type-mnemonic".into(), format!("code {} is {} per IANA but maps to {:?}", c, m, t)));
                }
                if u16::from(*want) != c {
                    bad.push(("type-mnemonic".into(), format!("{} converts to {} (IANA {})", m, u16::from(*want), c)));
                }
            }
            None => {
                // a code without a mnemonic in this harness' table: Unknown(c), or a mnemonic the
                // library has grown for exactly this number (the round trip above pins the number);
                // two codes sharing one variant would fail the round trip for one of them
                if t != TYPE::Unknown(c) && u16::from(t) != c {
                    bad.push(("type-alias".into(), format!("unsupported code {} aliased to {:?}", c, t)));
                }
                if t != TYPE::Unknown(c) {
                    // a mnemonic the library has that this harness' table lacks: its name (as Debug
                    // prints the variant) must be the IANA mnemonic of exactly this number
                    let name = norm_mnemonic(&format!("{:?}", t));
                    let reg = iana_registry();
                    if let Some((_, n)) = reg.iter().find(|(m, _)| norm_mnemonic(m) == name) {
                        if *n != c {
                            bad.push(("mnemonic-number".into(), format!("TYPE::{:?} stands for code {}, IANA assigns {} the number {}", t, c, name, n)));
                        }
                    } else if let Some((m, _)) = reg.iter().find(|(_, n)| *n == c) {
                        bad.push(("mnemonic-number".into(), format!("code {} is {} per IANA but the library calls it {:?}", c, m, t)));
                    }
                }
            }
        }
        // a record constructed as opaque bytes under this code reports the type the code denotes
        {
            use simple_dns::rdata::{RData, NULL};
            let rd = RData::NULL(c, NULL::new(&[1, 2, 3]).expect("3 bytes"));
            let tc = rd.type_code();
            if tc != t || u16::from(tc) != c {
                bad.push(("opaque-type_code".into(), format!("RData::NULL({}, ..).type_code() = {:?}, the code denotes {:?}", c, tc, t)));
            }
            let rec = simple_dns::ResourceRecord::new(simple_dns::Name::new_unchecked("o.example"), CLASS::IN, 1, rd);
            if !rec.match_qtype(QTYPE::TYPE(t)) {
                bad.push(("opaque-own-type".into(), format!("a record built as RData::NULL({}, ..) does not match a question for {:?}", c, t)));
            }
            if [7u16, 8, 9].contains(&c) != rec.match_qtype(QTYPE::MAILB) {
                bad.push(("opaque-mailb".into(), format!("RData::NULL({}, ..) vs MAILB: {}", c, rec.match_qtype(QTYPE::MAILB))));
            }
        }
        // CLASS
        let exp_class = [1u16, 2, 3, 4, 254].contains(&c);
        match CLASS::try_from(c) {
            Ok(cl) => {
                if !exp_class {
                    bad.push(("class-alias".into(), format!("unsupported class {} accepted as {:?}", c, cl)));
                } else if cl as u16 != c || class_num(cl) != c {
                    bad.push(("class-roundtrip".into(), format!("class {} -> {:?} -> {}", c, cl, cl as u16)));
                }
            }
            Err(_) => {
                if exp_class {
                    bad.push(("class-rejected".into(), format!("class {} rejected", c)));
                }
            }
        }
        // QCLASS
        let exp_qclass = exp_class || c == 255;
        match QCLASS::try_from(c) {
            Ok(q) => {
                if !exp_qclass {
                    bad.push(("qclass-alias".into(), format!("unsupported qclass {} accepted as {:?}", c, q)));
                } else if u16::from(q) != c || qclass_num(q) != c {
                    bad.push(("qclass-roundtrip".into(), format!("qclass {} -> {:?} -> {}", c, q, u16::from(q))));
                }
            }
            Err(_) => {
                if exp_qclass {
                    bad.push(("qclass-rejected".into(), format!("qclass {} rejected", c)));
                }
            }
        }
        // QTYPE
        // supported = has a mnemonic in the table, or the library itself names it (TYPE::from gives
        // something other than Unknown)
        let exp_qtype = table.iter().any(|e| e.1 == c) || (251..=255).contains(&c) || TYPE::from(c) != TYPE::Unknown(c);
        match QTYPE::try_from(c) {
            Ok(q) => {
                if !exp_qtype {
                    bad.push(("qtype-alias".into(), format!("unsupported qtype {} accepted as {:?}", c, q)));
                } else if u16::from(q) != c || qtype_num(q) != c {
                    bad.push(("qtype-roundtrip".into(), format!("qtype {} -> {:?} -> {}", c, q, u16::from(q))));
                }
            }
            Err(_) => {
                if exp_qtype {
                    bad.push(("qtype-rejected".into(), format!("qtype {} rejected", c)));
                }
            }
        }
        bad
    });
    match r {
        Err(p) => vec![finding(format!("C18|code|{}", p.sig()), format!("{:?}", p), case)],
        Ok(bad) => bad.into_iter().map(|(n, d)| finding(format!("C18|code|{}", n), d, case.clone())).collect(),
    }
}

/// A record of the given type code, both built through constructors and obtained by parsing
/// its reference encoding; `shape`: 0 typed/opaque content, 1 empty RDATA.
fn ref_record(code: u16, shape: u8) -> RefRR {
    let rdata = if shape == 1 {
        RefRData::Empty { code }
    } else if let Some(sch) = schema::schema(code) {
        RefRData::Typed { code, vals: gen::default_vals(sch) }
    } else {
        RefRData::Opaque { code, data: gen::b(&[1, 2, 3]) }
    };
    rr("rec.example", rdata)
}

fn mailbox_group(code: u16) -> bool {
    code == 7 || code == 8 || code == 9
}

pub fn check_match(code: u16, shape: u8, class: u16) -> Vec<Finding> {
    let case = json!({"kind": "match", "code": code, "shape": shape, "class": class});
    let mut rec = ref_record(code, shape);
    rec.class = class;
    check_match_rec(code, class, rec, case)
}

/// The content variants of a record type whose RDATA carries a value that reads like a type
/// code: every 16-bit field set to `value`, and (NSEC) a type bitmap with exactly the bit of
/// `value` set. Matching is decided by the record's own TYPE and CLASS, never by its content.
pub fn content_variants(code: u16) -> usize {
    match schema::schema(code) {
        Some(sch) => gen::default_vals(sch).iter().filter(|v| matches!(v, Val::U16(_) | Val::Windows(_))).count(),
        None => 0,
    }
}

pub fn check_match_content(code: u16, variant: usize, value: u16) -> Vec<Finding> {
    let case = json!({"kind": "match-content", "code": code, "variant": variant, "value": value});
    let sch = match schema::schema(code) {
        Some(s) => s,
        None => return vec![],
    };
    let mut vals = gen::default_vals(sch);
    let mut k = 0usize;
    for v in vals.iter_mut() {
        if matches!(v, Val::U16(_) | Val::Windows(_)) {
            if k == variant {
                *v = match v {
                    Val::U16(_) => Val::U16(value),
                    _ => {
                        let mut bm = vec![0u8; (value & 0xff) as usize / 8 + 1];
                        bm[(value & 0xff) as usize / 8] = 0x80 >> (value & 7);
                        Val::Windows(vec![((value >> 8) as u8, crate::refmodel::B(bm))])
                    }
                };
            }
            k += 1;
        }
    }
    let rec = rr("rec.example", RefRData::Typed { code, vals });
    check_match_rec(code, 1, rec, case)
}

fn check_match_rec(code: u16, class: u16, rec: RefRR, case: Value) -> Vec<Finding> {
    let mut pk = RefPacket { id: 1, flags: F_QR, ..Default::default() };
    pk.answers.push(rec.clone());
    let wire = pk.encode(0);
    let table = iana();
    let r = guarded(|| {
        let mut bad: Vec<(String, String)> = Vec::new();
        let built = match lib_rr(&rec) {
            Ok(b) => b,
            Err(e) => {
                bad.push(("construct".into(), e));
                return bad;
            }
        };
        let parsed_pkt = match Packet::parse(&wire) {
            Ok(p) => p,
            Err(e) => {
                bad.push(("parse".into(), format!("reference encoding of type {} rejected: {:?}", code, e)));
                return bad;
            }
        };
        if parsed_pkt.answers.len() != 1 {
            bad.push(("parse".into(), "record not in answers".into()));
            return bad;
        }
        let parsed = &parsed_pkt.answers[0];
        for (how, r) in [("built", &built), ("parsed", parsed)] {
            let tc = r.rdata.type_code();
            let want = lib_type(code);
            if tc != want || u16::from(tc) != code {
                bad.push((
                    format!("type_code-{}", how),
                    format!("{} record of type {}: type_code() = {:?}, the code denotes {:?}", how, code, tc, want),
                ));
            }
            // question types
            let mut qs: Vec<(QTYPE, bool, String)> = Vec::new();
            for (t, n, m) in &table {
                qs.push((QTYPE::TYPE(*t), *n == code, format!("TYPE({})", m)));
            }
            if schema_less(code) {
                qs.push((QTYPE::TYPE(TYPE::Unknown(code)), true, format!("TYPE(Unknown({}))", code)));
                // a question for another type without a mnemonic is a question for another type
                for other in [19u16, 99, 250, 256, 258, 65280, 65534, 65535] {
                    if other != code && schema_less(other) {
                        qs.push((QTYPE::TYPE(TYPE::Unknown(other)), false, format!("TYPE(Unknown({}))", other)));
                    }
                }
            }
            qs.push((QTYPE::ANY, true, "ANY".into()));
            qs.push((QTYPE::MAILB, mailbox_group(code), "MAILB".into()));
            for (q, exp, qn) in qs {
                let got = r.match_qtype(q);
                if got != exp {
                    bad.push((
                        format!("match_qtype-{}", how),
                        format!("{} record of type {} vs question {}: match_qtype = {}, expected {}", how, code, qn, got, exp),
                    ));
                }
            }
            for qc in [1u16, 2, 3, 4, 254, 255] {
                let exp = qc == 255 || qc == class;
                let got = r.match_qclass(lib_qclass(qc).unwrap());
                if got != exp {
                    bad.push((
                        format!("match_qclass-{}", how),
                        format!("{} record class {} vs qclass {}: {} expected {}", how, class, qc, got, exp),
                    ));
                }
            }
        }
        bad
    });
    match r {
        Err(p) => vec![finding(format!("C18|match|{}", p.sig()), format!("{:?}", p), case)],
        Ok(bad) => {
            let mut seen = std::collections::BTreeSet::new();
            bad.into_iter().filter(|(n, _)| seen.insert(n.clone())).map(|(n, d)| finding(format!("C18|match|{}", n), d, case.clone())).collect()
        }
    }
}

/// Records whose RDATA is the typed OPT variant (built under each class; parsed ones that the
/// parser leaves in a section: an OPT among the answers, a second OPT among the additional
/// records): class matching is about the class the record reports, whatever its type.
pub fn check_match_opt() -> (Vec<Finding>, u64) {
    use simple_dns::rdata::{OPTCode, RData, OPT};
    use simple_dns::{Name, ResourceRecord, CLASS};
    let case = json!({"kind": "match-opt"});
    let r = guarded(|| {
        let mut bad: Vec<(String, String)> = Vec::new();
        let mut n = 0u64;
        let mut judge = |how: &str, r: &ResourceRecord, bad: &mut Vec<(String, String)>| {
            let own = class_num(r.class);
            for qc in [1u16, 2, 3, 4, 254, 255] {
                let exp = qc == 255 || qc == own;
                let got = r.match_qclass(lib_qclass(qc).unwrap());
                if got != exp {
                    bad.push((format!("match_qclass-opt-{}", how), format!("{} OPT record reporting class {} vs qclass {}: {} expected {}", how, own, qc, got, exp)));
                }
            }
            if !r.match_qtype(QTYPE::ANY) || !r.match_qtype(QTYPE::TYPE(TYPE::OPT)) || r.match_qtype(QTYPE::TYPE(TYPE::A)) {
                bad.push((format!("match_qtype-opt-{}", how), format!("{} OPT record: ANY {}, TYPE(OPT) {}, TYPE(A) {}", how, r.match_qtype(QTYPE::ANY), r.match_qtype(QTYPE::TYPE(TYPE::OPT)), r.match_qtype(QTYPE::TYPE(TYPE::A)))));
            }
            if u16::from(r.rdata.type_code()) != 41 {
                bad.push((format!("type_code-opt-{}", how), format!("{:?}", r.rdata.type_code())));
            }
        };
        for class in [CLASS::IN, CLASS::CS, CLASS::CH, CLASS::HS, CLASS::NONE] {
            for with_code in [false, true] {
                let opt = OPT { opt_codes: if with_code { vec![OPTCode { code: 10, data: std::borrow::Cow::Owned(vec![1, 2, 3, 4, 5, 6, 7, 8]) }] } else { vec![] }, udp_packet_size: 1232, version: 0 };
                let rec = ResourceRecord::new(Name::new_unchecked("o.example"), class, 0, RData::OPT(opt));
                n += 1;
                judge("built", &rec, &mut bad);
                let owned = rec.clone().into_owned();
                judge("built-owned", &owned, &mut bad);
            }
        }
        // parsed: OPT in the answer section; two OPT records in the additional section
        let opt_rr: [u8; 11] = [0, 0, 41, 0x04, 0xd0, 0, 0, 0, 0, 0, 0];
        let mut m1 = vec![0x18, 0x19, 0x84, 0, 0, 0, 0, 1, 0, 0, 0, 0];
        m1.extend_from_slice(&opt_rr);
        let mut m2 = vec![0x18, 0x1a, 0x84, 0, 0, 0, 0, 0, 0, 0, 0, 2];
        m2.extend_from_slice(&opt_rr);
        m2.extend_from_slice(&[0, 0, 41, 0x02, 0x00, 0, 0, 0, 0, 0, 4, 0, 3, 0, 0]);
        for (how, m) in [("parsed-answer", &m1), ("parsed-second-additional", &m2)] {
            if let Ok(p) = Packet::parse(m) {
                for r in p.answers.iter().chain(p.additional_records.iter()) {
                    if matches!(r.rdata, RData::OPT(_)) {
                        n += 1;
                        judge(how, r, &mut bad);
                    }
                }
            }
        }
        (bad, n)
    });
    match r {
        Err(p) => (vec![finding(format!("C18|match-opt|{}", p.sig()), format!("{:?}", p), case)], 0),
        Ok((bad, n)) => {
            let mut seen = std::collections::BTreeSet::new();
            (bad.into_iter().filter(|(t, _)| seen.insert(t.clone())).map(|(t, d)| finding(format!("C18|match|{}", t), d, case.clone())).collect(), n)
        }
    }
}

/// A question parsed under any header flags word: its type and class are what
/// QTYPE::try_from / QCLASS::try_from make of the wire codes (the same representation, so that
/// ANY stays ANY), and a code those conversions refuse makes the message be refused, whatever
/// the response bit or opcode says.
pub fn check_parsed_question(qtype: u16, qclass_raw: u16, word: u16) -> (Vec<Finding>, bool) {
    let case = json!({"kind": "parsed-question", "qtype": qtype, "qclass": qclass_raw, "word": word});
    let mut m: Vec<u8> = vec![0x18, 0x20, (word >> 8) as u8, word as u8, 0, 1, 0, 0, 0, 0, 0, 0, 1, b'q', 0];
    m.extend_from_slice(&qtype.to_be_bytes());
    m.extend_from_slice(&qclass_raw.to_be_bytes());
    let r = guarded(|| {
        let mut bad: Vec<(String, String)> = Vec::new();
        let want_t = QTYPE::try_from(qtype).ok();
        let want_c = QCLASS::try_from(qclass_raw & 0x7fff).ok();
        match Packet::parse(&m) {
            Err(_) => (bad, false),
            Ok(p) => {
                match (p.questions.first(), want_t, want_c) {
                    (Some(q), Some(t), Some(c)) => {
                        if q.qtype != t || qtype_num(q.qtype) != qtype {
                            bad.push(("parsed-question-type".into(), format!("flags word {:#06x}: QTYPE {} parsed as {:?}, the conversion gives {:?}", word, qtype, q.qtype, t)));
                        }
                        if q.qclass != c || qclass_num(q.qclass) != qclass_raw & 0x7fff || q.unicast_response != (qclass_raw & 0x8000 != 0) {
                            bad.push(("parsed-question-class".into(), format!("flags word {:#06x}: QCLASS field {:#06x} parsed as {:?} (unicast {}), the conversion gives {:?}", word, qclass_raw, q.qclass, q.unicast_response, c)));
                        }
                    }
                    (Some(q), _, _) => bad.push(("parsed-question-unsupported-accepted".into(), format!("flags word {:#06x}: QTYPE {} / QCLASS field {:#06x} are refused by the conversions, yet the message parses with {:?} / {:?}", word, qtype, qclass_raw, q.qtype, q.qclass))),
                    (None, _, _) => bad.push(("parsed-question-missing".into(), "accepted without its question".into())),
                }
                (bad, true)
            }
        }
    });
    match r {
        Err(p) => (vec![finding(format!("C18|parsed-question|{}", p.sig()), format!("{:?}", p), case)], true),
        Ok((bad, acc)) => (bad.into_iter().map(|(n, d)| finding(format!("C18|{}", n), d, case.clone())).collect(), acc),
    }
}

fn parsed_bodies(code: u16) -> Vec<Vec<u8>> {
    let mut bodies: Vec<Vec<u8>> = Vec::new();
    for n in 0..=10usize {
        bodies.push(vec![0u8; n]);
    }
    for k in 0..=4usize {
        let mut b = vec![1, b'a', 0];
        b.extend(std::iter::repeat(0x12).take(k));
        bodies.push(b);
    }
    bodies.push(vec![0xff, 0xff, 0xff]);
    bodies.push(vec![0xc0, 0x0c]);
    if let Some(sch) = schema::schema(code) {
        let mut e = Vec::new();
        schema::encode_vals(sch, &gen::default_vals(sch), &mut e);
        bodies.push(e);
    }
    bodies
}

/// A record of TYPE `code` and the given raw CLASS field with `body` as RDATA, parsed from the
/// wire: whatever the class and however the RDATA is shaped, an accepted record reports the
/// type its TYPE field denotes and the class its CLASS field denotes.
pub fn check_parsed_type(code: u16, class_raw: u16, body: &[u8]) -> (Vec<Finding>, bool) {
    check_parsed_in(code, class_raw, body, 0x8400, 5, 1)
}

/// The same under any header flags word (opcode, response bit, ...), TTL and section: what a
/// record's TYPE and CLASS fields denote does not depend on them.
pub fn check_parsed_in(code: u16, class_raw: u16, body: &[u8], word: u16, ttl: u32, section: usize) -> (Vec<Finding>, bool) {
    let case = json!({"kind": "parsed", "code": code, "class": class_raw, "body": crate::engine::hex(body), "word": word, "ttl": ttl, "section": section});
    let mut m: Vec<u8> = vec![0x18, 0x18, (word >> 8) as u8, word as u8, 0, 1, 0, 0, 0, 0, 0, 0, 1, b'q', 0, 0, 1, 0, 1, 0xc0, 12];
    m[5 + 2 * section] = 1;
    m.extend_from_slice(&code.to_be_bytes());
    m.extend_from_slice(&class_raw.to_be_bytes());
    m.extend_from_slice(&ttl.to_be_bytes());
    m.extend_from_slice(&(body.len() as u16).to_be_bytes());
    m.extend_from_slice(body);
    let r = guarded(|| {
        let mut bad: Vec<(String, String)> = Vec::new();
        let p = match Packet::parse(&m) {
            Ok(p) => p,
            Err(_) => return (bad, false),
        };
        if code == 41 {
            return (bad, false);
        }
        let Some(rec) = [&p.answers, &p.answers, &p.name_servers, &p.additional_records][section.min(3)].first() else {
            bad.push(("parsed-missing".into(), "accepted, but the record is not in its section".into()));
            return (bad, true);
        };
        let tc = rec.rdata.type_code();
        if u16::from(tc) != code || tc != lib_type(code) {
            bad.push(("parsed-type".into(), format!("wire TYPE {} CLASS {:#06x} RDATA {}: type_code() = {:?} ({})", code, class_raw, crate::engine::hex(body), tc, u16::from(tc))));
        }
        if class_num(rec.class) != class_raw & 0x7fff || rec.cache_flush != (class_raw & 0x8000 != 0) {
            bad.push(("parsed-class".into(), format!("wire CLASS {:#06x}: class {:?} cache_flush {}", class_raw, rec.class, rec.cache_flush)));
        }
        if !rec.match_qtype(QTYPE::ANY) || !rec.match_qclass(QCLASS::ANY) {
            bad.push(("parsed-any".into(), "record does not match ANY".into()));
        }
        if let Ok(q) = QTYPE::try_from(code) {
            if let QTYPE::TYPE(_) = q {
                if !rec.match_qtype(q) {
                    bad.push(("parsed-own-type".into(), format!("record of wire TYPE {} does not match a question for that type", code)));
                }
            }
        }
        for other in [1u16, 3, 5, 10, 16, 28, 33] {
            if other != code && rec.match_qtype(QTYPE::TYPE(lib_type(other))) {
                bad.push(("parsed-other-type".into(), format!("record of wire TYPE {} (CLASS {:#06x}, RDATA {}) matches a question for type {}", code, class_raw, crate::engine::hex(body), other)));
            }
        }
        (bad, true)
    });
    match r {
        Err(p) => (vec![finding(format!("C18|parsed|{}", p.sig()), format!("{:?}", p), case)], true),
        Ok((bad, acc)) => (bad.into_iter().map(|(n, d)| finding(format!("C18|{}", n), d, case.clone())).collect(), acc),
    }
}

/// TYPE::Unknown(code) equals the record's type only when the code has no mnemonic at all
/// (neither in this harness' table nor in the library)
fn schema_less(code: u16) -> bool {
    !iana().iter().any(|e| e.1 == code) && TYPE::from(code) == TYPE::Unknown(code)
}

pub fn run(ctx: &Ctx) {
    ctx.set_rule("all 65536 codes through TYPE/CLASS/QTYPE/QCLASS conversions and back; every supported type code + NULL + unknown codes as records (typed and empty RDATA, built and parsed) x every question type over the IANA table + ANY + MAILB, x all class/qclass pairs; non-trivial = code has a mnemonic / record matches the question");
    ctx.assume("IANA type numbers as transcribed in props/c18.rs::iana; AXFR/IXFR/MAILA matching is outside the property's quantifier and not judged");
    let codes: Vec<u16> = (0..=65535u16).collect();
    let shards: Vec<&[u16]> = codes.chunks(2048).collect();
    let table = iana();
    par_shards(ctx, &shards, |cs, t: &mut Tally| {
        for &c in cs.iter() {
            t.evals += 1;
            if table.iter().any(|e| e.1 == c) || (251..=255).contains(&c) {
                t.nontrivial += 1;
            }
            let f = check_code(c);
            if !f.is_empty() {
                ctx.violations(f);
            }
        }
        t.outcome("code");
    });
    ctx.space("all 65536 16-bit codes x {TYPE, CLASS, QTYPE, QCLASS}", 65536, "complete");
    ctx.sample(json!({"kind": "code", "code": 47}));
    let mut t = Tally::default();
    let mut codes: Vec<u16> = SCHEMAS.iter().map(|s| s.code).collect();
    codes.extend([10u16, 19, 99, 250, 256, 65280, 65535]);
    let mut n = 0u64;
    for &code in &codes {
        for shape in [0u8, 1] {
            for class in CLASSES {
                t.evals += 1;
                t.nontrivial += 1;
                n += 1;
                ctx.violations(check_match(code, shape, class));
            }
        }
    }
    t.outcome("match");
    ctx.merge(t);
    {
        // content independence: a type-like value inside the RDATA never decides a match
        let mut t = Tally::default();
        let mut values: Vec<u16> = table.iter().map(|e| e.1).collect();
        values.extend([0u16, 250, 251, 252, 253, 254, 255, 256, 65535]);
        let mut m = 0u64;
        for s in SCHEMAS.iter() {
            for variant in 0..content_variants(s.code) {
                for &v in &values {
                    t.evals += 1;
                    t.nontrivial += 1;
                    m += 1;
                    ctx.violations(check_match_content(s.code, variant, v));
                }
            }
        }
        t.outcome("match-content");
        ctx.merge(t);
        ctx.space("match matrix under type-like RDATA content: every record type with a 16-bit field or a type bitmap x each such field x every value that is an assigned type code or a question-only code (RRSIG type covered, NSEC bitmap bit, MX preference ... set to A, TXT, ANY ...) x {built, parsed} x 44 question types x 6 question classes", m, "complete");
        ctx.sample(json!({"kind": "match-content", "code": 46, "variant": 0, "value": 16}));
    }
    ctx.space("match matrix: 46 record type codes x {content, empty RDATA} x 5 classes x {built, parsed} x 44 question types x 6 question classes", n, "complete");
    {
        let codes: Vec<u16> = (0..=65535u16).collect();
        let shards: Vec<&[u16]> = codes.chunks(512).collect();
        let total = std::sync::atomic::AtomicU64::new(0);
        par_shards(ctx, &shards, |cs, t: &mut Tally| {
            let mut n = 0u64;
            for &c in cs.iter() {
                let bodies = parsed_bodies(c);
                for class in [1u16, 2, 3, 4, 254, 0x8001, 0x8003] {
                    for b in &bodies {
                        n += 1;
                        t.evals += 1;
                        let (f, acc) = check_parsed_type(c, class, b);
                        if acc {
                            t.nontrivial += 1;
                        }
                        t.outcome(if acc { "parsed" } else { "rejected" });
                        if !f.is_empty() {
                            ctx.violations(f);
                        }
                    }
                }
            }
            total.fetch_add(n, std::sync::atomic::Ordering::Relaxed);
        });
        ctx.space("parsed records: every TYPE code 0..=65535 x 7 CLASS fields (5 classes, 2 with the cache-flush bit) x generic RDATA bodies (zeros of length 0..=10, a short name plus 0..=4 bytes, ff ff ff, a pointer, the type's canonical sample): an accepted record reports the wire TYPE and CLASS and matches exactly its own type", total.load(std::sync::atomic::Ordering::Relaxed), "complete");
        ctx.sample(json!({"kind": "parsed", "code": 1, "class": 3, "body": "0161001234"}));
        // every CLASS field value under every opcode: what the field denotes does not depend
        // on the header, the TTL, the RDATA being empty, or the section
        let classes: Vec<u16> = (0..=65535u16).collect();
        let cshards: Vec<&[u16]> = classes.chunks(256).collect();
        let total = std::sync::atomic::AtomicU64::new(0);
        par_shards(ctx, &cshards, |cs, t: &mut Tally| {
            let mut n = 0u64;
            for &class in cs.iter() {
                for op in 0..16u16 {
                    for qr in [0u16, 0x8000] {
                        for (ttl, body, code, section) in [(0u32, &[][..], 1u16, 1usize), (0, &[][..], 255, 2), (0, &[10, 0, 0, 1][..], 1, 3), (5, &[][..], 16, 2), (0, &[][..], 6, 3)] {
                            n += 1;
                            t.evals += 1;
                            let (f, acc) = check_parsed_in(code, class, body, qr | (op << 11) | 0x0400, ttl, section);
                            if acc {
                                t.nontrivial += 1;
                            }
                            t.outcome(if acc { "parsed" } else { "rejected" });
                            if !f.is_empty() {
                                ctx.violations(f);
                            }
                        }
                    }
                }
            }
            total.fetch_add(n, std::sync::atomic::Ordering::Relaxed);
        });
        ctx.space("parsed records: every 16-bit CLASS field x every opcode 0..=15 x query / response x 5 shapes (TTL 0 or 5, empty or 4-byte RDATA, types A / ANY(255) / TXT / SOA, each record section): an accepted record reports the wire CLASS and cache-flush bit", total.load(std::sync::atomic::Ordering::Relaxed), "complete");
    }
    {
        // every QTYPE code under query / response x every opcode, two classes
        let codes: Vec<u16> = (0..=65535u16).collect();
        let shards: Vec<&[u16]> = codes.chunks(512).collect();
        let total = std::sync::atomic::AtomicU64::new(0);
        par_shards(ctx, &shards, |cs, t: &mut Tally| {
            let mut n = 0u64;
            for &c in cs.iter() {
                let dense = c < 300 || c >= 65280 || (32760..32780).contains(&c);
                for op in 0..16u16 {
                    if !dense && op != 0 && op != (c % 16) {
                        continue;
                    }
                    for qr in [0u16, 0x8000, 0x8400] {
                        for qc in [1u16, 255, 0x8001, 254, 5] {
                            if !dense && qc != 1 && qc != 255 {
                                continue;
                            }
                            n += 1;
                            t.evals += 1;
                            let (f, acc) = check_parsed_question(c, qc, qr | (op << 11));
                            if acc {
                                t.nontrivial += 1;
                            }
                            t.outcome(if acc { "parsed" } else { "rejected" });
                            if !f.is_empty() {
                                ctx.violations(f);
                            }
                        }
                    }
                }
            }
            total.fetch_add(n, std::sync::atomic::Ordering::Relaxed);
        });
        ctx.space("parsed questions: every 16-bit QTYPE code x query / response / authoritative response x opcodes (all 16 for codes below 300, private-use and around 32768; two otherwise) x QCLASS fields {IN, ANY, IN with the unicast bit, NONE, 5}: type and class are what the conversions give, refused codes make the message be refused", total.load(std::sync::atomic::Ordering::Relaxed), "complete");
    }
    {
        let (f, n) = check_match_opt();
        let mut t = Tally::default();
        t.evals += n;
        t.nontrivial += n;
        t.outcome("match");
        ctx.merge(t);
        ctx.violations(f);
        ctx.space("typed OPT records (built under 5 classes with and without an option, their owned copies; parsed ones left in the answer section or as a second OPT of the additional section) x 6 question classes x {ANY, TYPE(OPT), TYPE(A)}", n, "complete");
    }
    ctx.sample(json!({"kind": "match", "code": 10, "shape": 0, "class": 1}));
    ctx.sample(json!({"kind": "match", "code": 8, "shape": 1, "class": 3}));
}

pub fn replay(case: &Value) -> Vec<Finding> {
    match case["kind"].as_str().unwrap_or("") {
        "match-opt" => check_match_opt().0,
        "parsed-question" => check_parsed_question(case["qtype"].as_u64().unwrap_or(1) as u16, case["qclass"].as_u64().unwrap_or(1) as u16, case["word"].as_u64().unwrap_or(0) as u16).0,
        "code" => check_code(case["code"].as_u64().unwrap_or(0) as u16),
        "parsed" => check_parsed_in(
            case["code"].as_u64().unwrap_or(0) as u16,
            case["class"].as_u64().unwrap_or(1) as u16,
            &crate::engine::unhex(case["body"].as_str().unwrap_or("")),
            case["word"].as_u64().unwrap_or(0x8400) as u16,
            case["ttl"].as_u64().unwrap_or(5) as u32,
            case["section"].as_u64().unwrap_or(1) as usize,
        )
        .0,
        "match-content" => check_match_content(
            case["code"].as_u64().unwrap_or(46) as u16,
            case["variant"].as_u64().unwrap_or(0) as usize,
            case["value"].as_u64().unwrap_or(1) as u16,
        ),
        "match" => check_match(
            case["code"].as_u64().unwrap_or(0) as u16,
            case["shape"].as_u64().unwrap_or(0) as u8,
            case["class"].as_u64().unwrap_or(1) as u16,
        ),
        _ => vec![],
    }
}
