//! C16 — owned copies equal originals; equality and hashing agree.

use super::finding;
use crate::bind::*;
use crate::engine::{guarded, par_shards, Ctx, Finding, Tally};
use crate::gen;
use crate::refmodel::packet::*;
use crate::refmodel::schema::SCHEMAS;
use crate::refmodel::RefName;
use serde_json::{json, Value};
use simple_dns::{Packet, Question, ResourceRecord};
use simple_mdns::InstanceInformation;
use std::collections::hash_map::DefaultHasher;
use std::hash::{Hash, Hasher};
use std::net::IpAddr;

fn h<T: Hash>(t: &T) -> u64 {
    let mut s = DefaultHasher::new();
    t.hash(&mut s);
    s.finish()
}

fn ser_rr(r: &ResourceRecord) -> Result<Vec<u8>, String> {
    let mut p = Packet::new_reply(1);
    p.answers.push(r.clone());
    p.build_bytes_vec().map_err(|e| format!("{:?}", e))
}

fn ser_q(q: &Question) -> Result<Vec<u8>, String> {
    let mut p = Packet::new_query(1);
    p.questions.push(q.clone());
    p.build_bytes_vec().map_err(|e| format!("{:?}", e))
}

/// Every part of a library packet: clone and into_owned must give an equal value that serialises identically.
fn copies(p: &Packet, how: &str, bad: &mut Vec<(String, String)>) {
    let o = observe(p);
    let c = p.clone();
    if observe(&c) != o {
        bad.push((format!("{}|packet-clone", how), "Packet::clone differs from the original".into()));
    }
    match (p.build_bytes_vec(), c.build_bytes_vec()) {
        (Ok(a), Ok(b)) if a == b => {}
        (Err(_), Err(_)) => {}
        _ => bad.push((format!("{}|packet-clone-bytes", how), "clone serialises differently".into())),
    }
    // clone_from into destinations that already hold something (EDNS data, records, nothing)
    {
        use simple_dns::rdata::{RData, A, OPT};
        use simple_dns::{Name, ResourceRecord, CLASS};
        let mut with_opt = Packet::new_reply(0x0d57);
        *with_opt.opt_mut() = Some(OPT { opt_codes: vec![], udp_packet_size: 1400, version: 1 });
        with_opt.additional_records.push(ResourceRecord::new(Name::new_unchecked("dst.example"), CLASS::CH, 7, RData::A(A { address: 9 })));
        let mut with_records = Packet::new_query(0x0d58);
        with_records.answers.push(ResourceRecord::new(Name::new_unchecked("dst.example"), CLASS::IN, 7, RData::A(A { address: 9 })));
        for (which, dst) in [("edns", with_opt), ("records", with_records), ("empty", Packet::new_query(1))] {
            let mut d = dst;
            d.clone_from(p);
            if observe(&d) != o {
                bad.push((format!("{}|packet-clone_from|{}", how, which), format!("clone_from into a packet holding {} leaves {:?} (opt {:?}), source has opt {:?}", which, observe(&d).additional.len(), observe(&d).opt.is_some(), o.opt.is_some())));
            }
            match (p.build_bytes_vec(), d.build_bytes_vec()) {
                (Ok(a), Ok(b)) if a == b => {}
                (Err(_), Err(_)) => {}
                _ => bad.push((format!("{}|packet-clone_from-bytes|{}", how, which), "clone_from copy serialises differently".into())),
            }
        }
        for r in p.answers.iter().chain(p.additional_records.iter()).take(2) {
            let mut d = ResourceRecord::new(Name::new_unchecked("dst.example"), CLASS::HS, 1, RData::A(A { address: 1 })).with_cache_flush(true);
            d.clone_from(r);
            if obs_rr(&d) != obs_rr(r) || d != *r {
                bad.push((format!("{}|record-clone_from", how), format!("{:?} vs {:?}", obs_rr(&d), obs_rr(r))));
            }
        }
    }
    if let Some(opt) = p.opt() {
        let oo = opt.clone().into_owned();
        if obs_opt(&oo) != obs_opt(opt) || oo != *opt || h(&oo) != h(opt) {
            bad.push((format!("{}|opt-into_owned", how), format!("OPT into_owned {:?} vs {:?}", obs_opt(&oo), obs_opt(opt))));
        }
    }
    for q in &p.questions {
        let oq = q.clone().into_owned();
        if obs_q(&oq) != obs_q(q) {
            bad.push((format!("{}|question-into_owned", how), format!("{:?} vs {:?}", obs_q(&oq), obs_q(q))));
        }
        if ser_q(&oq) != ser_q(q) {
            bad.push((format!("{}|question-into_owned-bytes", how), "owned question serialises differently".into()));
        }
        let on = q.qname.clone().into_owned();
        if on != q.qname || h(&on) != h(&q.qname) || obs_name(&on) != obs_name(&q.qname) {
            bad.push((format!("{}|name-into_owned", how), format!("{:?} vs {:?}", obs_name(&on), obs_name(&q.qname))));
        }
        for l in q.qname.get_labels() {
            let ol = l.clone().into_owned();
            if ol != *l || h(&ol) != h(l) || ol.verif_bytes() != l.verif_bytes() {
                bad.push((format!("{}|label-into_owned", how), "label differs".into()));
            }
        }
    }
    for r in p.answers.iter().chain(p.name_servers.iter()).chain(p.additional_records.iter()) {
        let mn = crate::refmodel::schema::schema(obs_rr(r).rdata.code()).map(|s| s.mnemonic.to_string()).unwrap_or_else(|| "opaque".into());
        for (op, x) in [("clone", r.clone()), ("into_owned", r.clone().into_owned())] {
            let (a, b) = (obs_rr(&x), obs_rr(r));
            if a != b {
                let d = diff(
                    &RefPacket { answers: vec![b.clone()], ..Default::default() },
                    &RefPacket { answers: vec![a.clone()], ..Default::default() },
                );
                let tag = d.first().map(|x| x.0.clone()).unwrap_or_default();
                bad.push((format!("{}|record-{}|{}|{}", how, op, mn, tag), format!("{:?} vs original {:?}", a, b)));
            }
            if x != *r {
                bad.push((format!("{}|record-{}-eq|{}", how, op, mn), "copy does not compare equal to the original".into()));
            }
            if h(&x) != h(r) {
                bad.push((format!("{}|record-{}-hash|{}", how, op, mn), "copy hashes differently".into()));
            }
            if ser_rr(&x) != ser_rr(r) {
                bad.push((format!("{}|record-{}-bytes|{}", how, op, mn), "copy serialises differently".into()));
            }
        }
        let ord = r.rdata.clone().into_owned();
        if obs_rdata(&ord) != obs_rdata(&r.rdata) || ord != r.rdata || h(&ord) != h(&r.rdata) || ord.type_code() != r.rdata.type_code() {
            bad.push((format!("{}|rdata-into_owned|{}", how, mn), format!("{:?} vs {:?}", obs_rdata(&ord), obs_rdata(&r.rdata))));
        }
        let on = r.name.clone().into_owned();
        if on != r.name || h(&on) != h(&r.name) {
            bad.push((format!("{}|name-into_owned", how), "owner name differs".into()));
        }
        let cf = r.to_cache_flush_record();
        let mut want = obs_rr(r);
        want.cache_flush = true;
        if obs_rr(&cf) != want {
            bad.push((format!("{}|to_cache_flush_record|{}", how, mn), "to_cache_flush_record changed more than the bit".into()));
        }
    }
}

pub fn check_packet(p: &RefPacket) -> Vec<Finding> {
    let mk = || json!({"kind": "packet", "packet": p});
    let r = guarded(|| -> Result<Vec<(String, String)>, String> {
        let mut bad = Vec::new();
        let built = to_lib(p)?;
        copies(&built, "built", &mut bad);
        let bytes = built.build_bytes_vec_compressed().map_err(|e| format!("{:?}", e))?;
        let parsed = Packet::parse(&bytes).map_err(|e| format!("{:?}", e))?;
        copies(&parsed, "parsed", &mut bad);
        // an owned copy must survive the buffer it was parsed from
        let owned: Vec<ResourceRecord<'static>> = {
            let tmp = bytes.clone();
            let q = Packet::parse(&tmp).map_err(|e| format!("{:?}", e))?;
            q.answers.iter().chain(q.name_servers.iter()).chain(q.additional_records.iter()).map(|r| r.clone().into_owned()).collect()
        };
        let orig: Vec<RefRR> = parsed.answers.iter().chain(parsed.name_servers.iter()).chain(parsed.additional_records.iter()).map(obs_rr).collect();
        if owned.iter().map(obs_rr).collect::<Vec<_>>() != orig {
            bad.push(("parsed|owned-outlives-buffer".into(), "owned records differ after the receive buffer is gone".into()));
        }
        Ok(bad)
    });
    match r {
        Err(pn) => vec![finding(format!("C16|{}", pn.sig()), format!("{:?}", pn), mk())],
        Ok(Err(_)) => vec![], // not constructible / not serialisable: outside this property (C02 judges it)
        Ok(Ok(bad)) => {
            let mut seen = std::collections::BTreeSet::new();
            bad.into_iter().filter(|(t, _)| seen.insert(t.clone())).map(|(t, d)| finding(format!("C16|{}", t), d, mk())).collect()
        }
    }
}

/// a == b => hash(a) == hash(b) over a set of records / names / rdata
pub fn check_eq_hash() -> (Vec<Finding>, u64) {
    let mut recs: Vec<RefRR> = Vec::new();
    for sch in SCHEMAS.iter().take(12) {
        let base = gen::base_rr(sch);
        recs.push(base.clone());
        let mut x = base.clone();
        x.ttl = 1;
        recs.push(x);
        let mut x = base.clone();
        x.cache_flush = true;
        recs.push(x);
        let mut x = base.clone();
        x.class = 3;
        recs.push(x);
        let mut x = base.clone();
        x.name = RefName::txt("other.example.com");
        recs.push(x);
        // owner differing only in letter case: whether that is "equal" is the library's choice,
        // but whatever it chooses, equal values must hash equally
        let mut x = base.clone();
        x.name = RefName::txt("OWNER.Example.COM");
        recs.push(x);
    }
    let mut out = Vec::new();
    let mut pairs = 0u64;
    let r = guarded(|| {
        let libs: Vec<ResourceRecord> = recs.iter().map(|r| lib_rr(r).unwrap()).collect();
        let mut bad = Vec::new();
        let mut n = 0u64;
        for (i, a) in libs.iter().enumerate() {
            for (j, b) in libs.iter().enumerate() {
                n += 1;
                let model_eq = recs[i].name == recs[j].name && recs[i].class == recs[j].class && recs[i].rdata == recs[j].rdata;
                let lower = |n: &RefName| format!("{:?}", n).to_ascii_lowercase();
                let only_case = !model_eq && lower(&recs[i].name) == lower(&recs[j].name) && recs[i].class == recs[j].class && format!("{:?}", recs[i].rdata).to_ascii_lowercase() == format!("{:?}", recs[j].rdata).to_ascii_lowercase();
                let _ = only_case;
                // what makes two records equal is the library's definition; what is demanded is that
                // field-identical records are equal and that equal records hash equally
                if model_eq && a != b {
                    bad.push(("record-eq".to_string(), format!("records {} and {}: == gives {}, name/class/rdata equality is {}", i, j, a == b, model_eq)));
                }
                if a == b && h(a) != h(b) {
                    bad.push(("record-eq-hash".to_string(), format!("records {} and {} are equal but hash differently", i, j)));
                }
                if a.name == b.name && h(&a.name) != h(&b.name) {
                    bad.push(("name-eq-hash".to_string(), format!("names of {} and {} equal but hash differently", i, j)));
                }
                if recs[i].name == recs[j].name && a.name != b.name {
                    bad.push(("name-eq".to_string(), format!("name equality of {} and {} wrong", i, j)));
                }
                if a.rdata == b.rdata && h(&a.rdata) != h(&b.rdata) {
                    bad.push(("rdata-eq-hash".to_string(), format!("rdata of {} and {} equal but hash differently", i, j)));
                }
                if recs[i].rdata == recs[j].rdata && a.rdata != b.rdata {
                    bad.push(("rdata-eq".to_string(), format!("rdata equality of {} and {} wrong", i, j)));
                }
            }
        }
        (bad, n)
    });
    match r {
        Err(pn) => out.push(finding(format!("C16|eqhash|{}", pn.sig()), format!("{:?}", pn), json!({"kind": "eqhash"}))),
        Ok((bad, n)) => {
            pairs = n;
            let mut seen = std::collections::BTreeSet::new();
            for (t, d) in bad {
                if seen.insert(t.clone()) {
                    out.push(finding(format!("C16|eqhash|{}", t), d, json!({"kind": "eqhash"})));
                }
            }
        }
    }
    (out, pairs)
}

/// Values that can be assembled through the public constructors but never come out of the
/// parser (an attribute-less TXT, empty opaque data, parameter-less SVCB, window-less NSEC, ...):
/// their clones and owned forms must still be equal, hash equally and serialise identically.
/// One type (class) code written in two ways - the named variant and the catch-all variant
/// carrying the same number - as a bare TYPE / QTYPE, as RData::Empty(..) and inside a record:
/// whenever two such values compare equal they hash equally and a HashSet holding one contains
/// the other.
pub fn check_code_representations() -> (Vec<Finding>, u64) {
    use simple_dns::rdata::RData;
    use simple_dns::{Name, ResourceRecord, CLASS, TYPE};
    let case = json!({"kind": "code-representations"});
    let r = guarded(|| {
        let mut bad: Vec<(String, String)> = Vec::new();
        let mut n = 0u64;
        let mut judge = |what: &str, eq: bool, ha: u64, hb: u64, contained: bool, code: u16, bad: &mut Vec<(String, String)>| {
            if eq && ha != hb {
                bad.push((format!("{}-equal-but-hash-differs", what), format!("code {}: the two representations compare equal and hash to {:#x} / {:#x}", code, ha, hb)));
            }
            if eq && !contained {
                bad.push((format!("{}-equal-but-not-found", what), format!("code {}: a HashSet holding one representation does not contain the equal other one", code)));
            }
        };
        for code in 0..=65535u16 {
            let named = TYPE::from(code);
            let raw = TYPE::Unknown(code);
            n += 1;
            let set: std::collections::HashSet<TYPE> = [named].into_iter().collect();
            judge("type", named == raw, h(&named), h(&raw), set.contains(&raw), code, &mut bad);
            if code < 300 || code % 257 == 0 {
                let (ra, rb) = (RData::Empty(named), RData::Empty(raw));
                let set: std::collections::HashSet<RData> = [ra.clone()].into_iter().collect();
                judge("rdata-empty", ra == rb, h(&ra), h(&rb), set.contains(&rb), code, &mut bad);
                let rec = |rd: RData<'static>| ResourceRecord::new(Name::new_unchecked("r.example"), CLASS::IN, 5, rd);
                let (ca, cb) = (rec(ra), rec(rb));
                let set: std::collections::HashSet<ResourceRecord> = [ca.clone()].into_iter().collect();
                judge("record-empty", ca == cb, h(&ca), h(&cb), set.contains(&cb), code, &mut bad);
            }
            if bad.len() > 8 {
                break;
            }
        }
        (bad, n)
    });
    match r {
        Err(pn) => (vec![finding(format!("C16|code-representations|{}", pn.sig()), format!("{:?}", pn), case)], 0),
        Ok((bad, n)) => {
            let mut seen = std::collections::BTreeSet::new();
            (bad.into_iter().filter(|(t, _)| seen.insert(t.clone())).map(|(t, d)| finding(format!("C16|code-representations|{}", t), d, case.clone())).collect(), n)
        }
    }
}

pub fn check_odd_values() -> (Vec<Finding>, u64) {
    use simple_dns::rdata::{self as rd, RData};
    use simple_dns::{CharacterString, Name, CLASS};
    let case = json!({"kind": "odd"});
    let r = guarded(|| {
        let mut vals: Vec<(&str, RData<'static>)> = Vec::new();
        vals.push(("empty-TXT", RData::TXT(rd::TXT::new())));
        vals.push(("default-TXT", RData::TXT(rd::TXT::default())));
        vals.push(("TXT-one-empty-string", RData::TXT(rd::TXT::new().with_char_string(CharacterString::new(b"").unwrap()))));
        vals.push(("TXT-two-strings", RData::TXT(rd::TXT::new().with_string("a=b").unwrap().with_string("c").unwrap())));
        vals.push(("empty-NULL", RData::NULL(10, rd::NULL::new(&[]).unwrap())));
        vals.push(("SVCB-no-params", RData::SVCB(rd::SVCB::new(0, Name::new_unchecked("")))));
        vals.push(("HTTPS-no-params", RData::HTTPS(rd::HTTPS(rd::SVCB::new(1, Name::new_unchecked("a"))))));
        vals.push(("NSEC-no-windows", RData::NSEC(rd::NSEC { next_name: Name::new_unchecked(""), type_bit_maps: vec![] })));
        vals.push(("OPT-no-options", RData::OPT(rd::OPT { opt_codes: vec![], udp_packet_size: 0, version: 0 })));
        vals.push(("empty-tails", RData::DNSKEY(rd::DNSKEY { flags: 0, protocol: 0, algorithm: 0, public_key: std::borrow::Cow::Borrowed(&[]) })));
        vals.push(("Empty-A", RData::Empty(simple_dns::TYPE::A)));
        let mut bad: Vec<(String, String)> = Vec::new();
        let mut n = 0u64;
        for (tag, v) in &vals {
            n += 1;
            for (op, c) in [("clone", v.clone()), ("into_owned", v.clone().into_owned())] {
                if c != *v {
                    bad.push((format!("{}|{}-eq", tag, op), format!("{} of {} does not compare equal to the original", op, tag)));
                }
                if h(&c) != h(v) {
                    bad.push((format!("{}|{}-hash", tag, op), format!("{} of {} hashes differently", op, tag)));
                }
                let ra = ResourceRecord::new(Name::new_unchecked("o.example"), CLASS::IN, 1, v.clone());
                let rb = ResourceRecord::new(Name::new_unchecked("o.example"), CLASS::IN, 1, c.clone());
                if ser_rr(&ra) != ser_rr(&rb) {
                    bad.push((format!("{}|{}-bytes", tag, op), format!("{} of {} serialises differently", op, tag)));
                }
                if ra != rb || h(&ra) != h(&rb) || ra.clone().into_owned() != ra {
                    bad.push((format!("{}|record-{}", tag, op), format!("record holding the {} of {} differs", op, tag)));
                }
                // the copy must keep behaving like the original when it is extended afterwards
                if let (RData::TXT(a), RData::TXT(b)) = (v, &c) {
                    let (mut a, mut b) = (a.clone(), b.clone());
                    let _ = a.add_string("k=v");
                    let _ = b.add_string("k=v");
                    let ra = ResourceRecord::new(Name::new_unchecked("o.example"), CLASS::IN, 1, RData::TXT(a));
                    let rb = ResourceRecord::new(Name::new_unchecked("o.example"), CLASS::IN, 1, RData::TXT(b));
                    if ra != rb || ser_rr(&ra) != ser_rr(&rb) {
                        bad.push((format!("{}|{}-then-add_string", tag, op), format!("after add_string the {} of {} differs from the original treated the same way", op, tag)));
                    }
                    if let Ok(bytes) = ser_rr(&rb) {
                        if Packet::parse(&bytes).is_err() {
                            bad.push((format!("{}|{}-then-add_string-unparseable", tag, op), "extended copy serialises to a message that does not parse".into()));
                        }
                    }
                }
            }
        }
        (bad, n)
    });
    match r {
        Err(pn) => (vec![finding(format!("C16|odd|{}", pn.sig()), format!("{:?}", pn), case)], 0),
        Ok((bad, n)) => (bad.into_iter().map(|(t, d)| finding(format!("C16|odd|{}", t), d, case.clone())).collect(), n),
    }
}

fn permutations<T: Clone>(v: &[T]) -> Vec<Vec<T>> {
    if v.len() <= 1 {
        return vec![v.to_vec()];
    }
    let mut out = Vec::new();
    for i in 0..v.len() {
        let mut rest = v.to_vec();
        let x = rest.remove(i);
        for mut p in permutations(&rest) {
            p.insert(0, x.clone());
            out.push(p);
        }
    }
    out
}

/// InstanceInformation built by inserting the same members in every order: all equal, so all must hash equally.
pub fn check_instances(nip: usize, nport: usize) -> (Vec<Finding>, u64) {
    let case = json!({"kind": "instances", "ips": nip, "ports": nport});
    let ips: Vec<IpAddr> = ["10.0.0.1", "10.0.0.2", "fe80::1", "192.168.1.77"].iter().take(nip).map(|s| s.parse().unwrap()).collect();
    let ports: Vec<u16> = [80u16, 443, 8080, 1].iter().take(nport).copied().collect();
    let r = guarded(|| {
        let mut values = Vec::new();
        for ipo in permutations(&ips) {
            for po in permutations(&ports) {
                let mut i = InstanceInformation::new("inst".to_string());
                for ip in &ipo {
                    i = i.with_ip_address(*ip);
                }
                for p in &po {
                    i = i.with_port(*p);
                }
                i = i.with_attribute("k".into(), Some("v".into()));
                values.push(i);
            }
        }
        let first = &values[0];
        let mut neq = 0usize;
        let mut hdiff = 0usize;
        for v in &values {
            if v != first {
                neq += 1;
            } else if h(v) != h(first) {
                hdiff += 1;
            }
            // clone must be equal and hash equally as well
            let c = v.clone();
            if c != *v || h(&c) != h(v) {
                hdiff += 1;
            }
        }
        // as hash-set keys
        let set: std::collections::HashSet<InstanceInformation> = values.iter().cloned().collect();
        (values.len(), neq, hdiff, set.len())
    });
    match r {
        Err(pn) => (vec![finding(format!("C16|instances|{}", pn.sig()), format!("{:?}", pn), case)], 0),
        Ok((n, neq, hdiff, setlen)) => {
            let mut out = Vec::new();
            if neq > 0 {
                out.push(finding("C16|instances|not-equal", format!("{} addresses / {} ports: values built in different insertion orders compare unequal", nip, nport), case.clone()));
            }
            if hdiff > 0 || (neq == 0 && setlen != 1) {
                out.push(finding(
                    "C16|instances|equal-but-hash-differs",
                    format!("{} addresses / {} ports inserted in every order: equal values hash differently (HashSet of the {} equal values has more than one element: {})", nip, nport, n, setlen != 1),
                    case,
                ));
            }
            (out, n as u64)
        }
    }
}

/// All pairs over a set of InstanceInformation values that differ in name spelling (letter case,
/// dots, backslash escapes, spaces, non-ASCII), addresses, ports and attributes:
/// a == b must imply hash(a) == hash(b) and membership in a HashSet keyed by either.
pub fn instance_pair_values() -> Vec<InstanceInformation> {
    let mut names: Vec<String> = Vec::new();
    let mut b = Vec::new();
    crate::engine::for_each_string_upto(&[b'a', b'A', b'.', b'\\', b' ', 0xc3], 3, &mut b, &mut |x| {
        // 0xc3 stands for a two-byte character
        let s: String = x.iter().map(|c| if *c == 0xc3 { 'é' } else { *c as char }).collect();
        names.push(s);
    });
    names.extend(["a\\.b", "a.b", "a\\b", "ab", "a\\\\b", "a\\\\.b", "My Printer", "my printer", "Į", "\\.", "Ю"].iter().map(|s| s.to_string()));
    let mut out = Vec::new();
    for n in &names {
        out.push(InstanceInformation::new(n.clone()).with_port(80).with_ip_address("10.0.0.1".parse().unwrap()));
    }
    for n in ["a", "A", "a.b", "a\\.b"] {
        let base = || InstanceInformation::new(n.to_string());
        out.push(base());
        out.push(base().with_port(80));
        out.push(base().with_port(81));
        out.push(base().with_port(80).with_port(81));
        out.push(base().with_ip_address("10.0.0.1".parse().unwrap()));
        out.push(base().with_ip_address("::ffff:10.0.0.1".parse().unwrap()));
        out.push(base().with_ip_address("fe80::1".parse().unwrap()).with_ip_address("10.0.0.1".parse().unwrap()));
        out.push(base().with_attribute("k".into(), None));
        out.push(base().with_attribute("k".into(), Some(String::new())));
        out.push(base().with_attribute("k".into(), Some("v".into())));
        out.push(base().with_attribute("K".into(), Some("v".into())));
        out.push(base().with_attribute("k".into(), Some("v".into())).with_attribute("j".into(), Some("w".into())));
        out.push(base().with_attribute("j".into(), Some("w".into())).with_attribute("k".into(), Some("v".into())));
    }
    out
}

/// Equal values built independently (each with its own HashMap / HashSet inside): attribute maps
/// whose keys collide when case is folded, many attributes, many addresses. Every copy must be
/// equal to every other and hash the same.
pub fn check_instance_copies(shape: usize) -> Vec<Finding> {
    let case = json!({"kind": "instance-copies", "shape": shape});
    let build = |order: usize| {
        let mut i = InstanceInformation::new("inst".to_string());
        let mut attrs: Vec<(String, Option<String>)> = match shape {
            0 => vec![("Path".into(), Some("/a".into())), ("path".into(), Some("/b".into()))],
            1 => vec![("k".into(), None), ("K".into(), Some(String::new())), ("kk".into(), Some("v".into()))],
            2 => (0..12).map(|j| (format!("{}{}", if j % 2 == 0 { "key" } else { "KEY" }, j / 2), Some(format!("v{}", j)))).collect(),
            3 => (0..40).map(|j| (format!("a{}", j), if j % 3 == 0 { None } else { Some("x".repeat(j)) })).collect(),
            _ => vec![("txtvers".into(), Some("1".into())), ("TxtVers".into(), Some("2".into())), ("TXTVERS".into(), None)],
        };
        if order % 2 == 1 {
            attrs.reverse();
        }
        let k = order % attrs.len().max(1);
        attrs.rotate_left(k);
        for (k, v) in attrs {
            i = i.with_attribute(k, v);
        }
        for j in 0..(shape + 1) {
            i = i.with_ip_address(std::net::IpAddr::V4(std::net::Ipv4Addr::new(10, 0, (order + j) as u8 % 3, j as u8)));
        }
        for j in 0..(shape + 1) {
            i = i.with_ip_address(std::net::IpAddr::V4(std::net::Ipv4Addr::new(10, 0, j as u8 % 3, j as u8)));
            i = i.with_ip_address(std::net::IpAddr::V4(std::net::Ipv4Addr::new(10, 0, (j as u8 + 1) % 3, j as u8)));
            i = i.with_ip_address(std::net::IpAddr::V4(std::net::Ipv4Addr::new(10, 0, (j as u8 + 2) % 3, j as u8)));
            i = i.with_port(1000 + ((order + j) % 5) as u16);
        }
        for j in 0..5 {
            i = i.with_port(1000 + j);
        }
        if shape >= 5 {
            // many members in both sets, inserted in an order that depends on `order`
            let n = [16usize, 17, 18, 24, 32, 64, 100, 300][(shape - 5) % 8];
            let mut idx: Vec<usize> = (0..n).collect();
            if order % 2 == 1 {
                idx.reverse();
            }
            idx.rotate_left((order * 7) % n);
            for j in idx {
                i = i.with_port(2000 + j as u16);
                i = if j % 4 == 3 {
                    i.with_ip_address(std::net::IpAddr::V6(std::net::Ipv6Addr::new(0xfd00, 0, 0, 0, 0, 0, 1, j as u16)))
                } else {
                    i.with_ip_address(std::net::IpAddr::V4(std::net::Ipv4Addr::new(10, 1, (j >> 8) as u8, j as u8)))
                };
            }
        }
        i
    };
    let r = guarded(|| {
        let copies: Vec<InstanceInformation> = (0..48).map(build).collect();
        let h0 = h(&copies[0]);
        let mut neq = 0;
        let mut hdiff = 0;
        for c in &copies {
            if *c != copies[0] {
                neq += 1;
            } else if h(c) != h0 {
                hdiff += 1;
            }
        }
        let set: std::collections::HashSet<InstanceInformation> = copies.iter().cloned().collect();
        (neq, hdiff, set.len())
    });
    match r {
        Err(pn) => vec![finding(format!("C16|instance-copies|{}", pn.sig()), format!("{:?}", pn), case)],
        Ok((neq, hdiff, setlen)) => {
            let mut out = Vec::new();
            if neq > 0 {
                out.push(finding("C16|instance-copies|built-in-different-order-unequal", format!("{} of 48 copies built from the same members in another order compare unequal", neq), case.clone()));
            } else if hdiff > 0 || setlen != 1 {
                out.push(finding("C16|instance-copies|equal-but-hash-differs", format!("48 equal values built independently: {} hash differently from the first; as a HashSet they make {} elements", hdiff, setlen), case));
            }
            out
        }
    }
}

pub fn check_instance_pairs() -> (Vec<Finding>, u64, u64) {
    let case = json!({"kind": "instance-pairs"});
    let r = guarded(|| {
        let vals = instance_pair_values();
        let hs: Vec<u64> = vals.iter().map(h).collect();
        let mut bad: Vec<(String, String)> = Vec::new();
        let mut equal_pairs = 0u64;
        for (i, a) in vals.iter().enumerate() {
            let mut set = std::collections::HashSet::new();
            set.insert(a.clone());
            for (j, b) in vals.iter().enumerate() {
                if a == b {
                    equal_pairs += 1;
                    if hs[i] != hs[j] {
                        bad.push(("equal-but-hash-differs".into(), format!("{:?} == {:?} but they hash differently", a, b)));
                    }
                    if !set.contains(b) {
                        bad.push(("equal-but-not-found-in-set".into(), format!("HashSet holding {:?} does not contain the equal value {:?}", a, b)));
                    }
                    if b != a {
                        bad.push(("asymmetric".into(), format!("{:?} == {:?} but not the reverse", a, b)));
                    }
                } else if i == j {
                    bad.push(("irreflexive".into(), format!("{:?} != itself", a)));
                }
            }
        }
        (bad, vals.len() as u64, equal_pairs)
    });
    match r {
        Err(pn) => (vec![finding(format!("C16|instance-pairs|{}", pn.sig()), format!("{:?}", pn), case)], 0, 0),
        Ok((bad, n, eqp)) => {
            let mut seen = std::collections::BTreeSet::new();
            (bad.into_iter().filter(|(t, _)| seen.insert(t.clone())).map(|(t, d)| finding(format!("C16|instance-pairs|{}", t), d, case.clone())).collect(), n, eqp)
        }
    }
}

pub fn run(ctx: &Ctx) {
    let thorough = ctx.tier == crate::engine::Tier::Thorough;
    ctx.set_rule("every packet of the C02 space, as built from parts and as parsed from its own compressed bytes (borrowing from the buffer): clone and into_owned of the packet, OPT, every question, record, name, label and RDATA must observe equal, compare equal, hash equally and serialise identically, and owned copies must outlive the buffer; all pairs of a 60-record set (differing in TTL / cache-flush only, class, owner, RDATA) for a == b => hash(a) == hash(b) and for == agreeing with field equality; InstanceInformation with up to 4 addresses and 4 ports inserted in every permutation. non-trivial = packet has at least one record");
    ctx.assume("std's per-instance HashSet seeds cannot be controlled: a correct (order-independent) Hash passes deterministically, an order-dependent one is reported as soon as any of the several hundred equal pairs hashes differently (overwhelmingly likely, not certain)");
    let mut space = gen::packet_space(if thorough { 2 } else { 1 }, thorough, 2);
    if thorough {
        space.extend(gen::cross_family(1, false));
    }
    space.extend(gen::many_and_sized_packets());
    space.extend(gen::size_sweep_packets());
    let chunks: Vec<&[RefPacket]> = space.chunks(64).collect();
    par_shards(ctx, &chunks, |ps, t: &mut Tally| {
        for p in ps.iter() {
            t.evals += 1;
            if p.sections().iter().any(|s| !s.is_empty()) {
                t.nontrivial += 1;
            }
            let f = check_packet(p);
            t.outcome(if f.is_empty() { "copies-equal" } else { "copies-differ" });
            if !f.is_empty() {
                ctx.violations(f);
            }
        }
    });
    ctx.space("packets: C02 packet space, each as built and as parsed", space.len() as u64, "complete");
    ctx.sample(json!({"kind": "packet", "packet": space[space.len() / 3]}));
    let mut t = Tally::default();
    let (f, pairs) = check_eq_hash();
    t.evals += pairs;
    t.nontrivial += pairs;
    t.outcome("eq-hash");
    ctx.violations(f);
    ctx.space("equality / hash: all ordered pairs of 72 records (and of their names and RDATA)", pairs, "complete");
    let (f, n) = check_odd_values();
    t.evals += n;
    t.nontrivial += n;
    t.outcome("odd-values");
    ctx.violations(f);
    {
        let (f, n) = check_code_representations();
        let mut t = Tally::default();
        t.evals += n;
        t.nontrivial += n;
        t.outcome("eq-hash");
        ctx.merge(t);
        ctx.violations(f);
        ctx.space("one code, two representations: every 16-bit TYPE code as TYPE::from(code) and TYPE::Unknown(code) (bare, as RData::Empty and inside a record): equal => same hash and found in a HashSet", n, "complete");
    }
    ctx.space("constructible-but-never-parsed values (attribute-less TXT, empty NULL, parameter-less SVCB/HTTPS, window-less NSEC, option-less OPT, empty tails): clone / into_owned / extend-after-copy", n, "complete");
    let mut total = 0u64;
    for nip in 0..=4usize {
        for nport in 0..=4usize {
            if !thorough && nip + nport > 6 {
                continue;
            }
            let (f, n) = check_instances(nip, nport);
            total += n;
            t.evals += n;
            if nip > 1 || nport > 1 {
                t.nontrivial += n;
            }
            t.outcome("instances");
            ctx.violations(f);
        }
    }
    ctx.merge(t);
    ctx.space("InstanceInformation: 0..=4 addresses x 0..=4 ports, every insertion order of both sets", total, "complete");
    ctx.sample(json!({"kind": "instances", "ips": 3, "ports": 2}));
    {
        let mut t = Tally::default();
        let (f, n, eqp) = check_instance_pairs();
        t.evals += n * n;
        t.nontrivial += eqp;
        t.outcome("instance-pairs");
        ctx.violations(f);
        ctx.merge(t);
        ctx.space("InstanceInformation pairs: every name of <= 3 characters over {a, A, '.', '\\', ' ', e-acute} plus escaped / unescaped spellings, and variants in ports, addresses (incl. IPv4-mapped), attributes (absent / empty / value, key case, insertion order): all ordered pairs, a == b => same hash and found in a HashSet", n * n, "complete");
        ctx.sample(json!({"kind": "instance-pairs"}));
        let mut t = Tally::default();
        for shape in 0..13usize {
            t.evals += 48;
            t.nontrivial += 48;
            ctx.violations(check_instance_copies(shape));
        }
        t.outcome("instance-copies");
        ctx.merge(t);
        ctx.space("InstanceInformation copies: 13 shapes (attribute keys that collide when case is folded, 12 and 40 attributes, several addresses and ports, 16 / 17 / 18 / 24 / 32 / 64 / 100 / 300 members in the address and port sets) x 48 independently built equal values each (members inserted in rotated / reversed orders): all equal, all hash alike, one HashSet element", 13 * 48, "complete");
    }
}

pub fn replay(case: &Value) -> Vec<Finding> {
    if case["kind"].as_str() == Some("code-representations") {
        return check_code_representations().0;
    }
    match case["kind"].as_str().unwrap_or("") {
        "packet" => match serde_json::from_value::<RefPacket>(case["packet"].clone()) {
            Ok(p) => check_packet(&p),
            Err(e) => vec![finding("C16|replay-unreadable", format!("{}", e), case.clone())],
        },
        "eqhash" => check_eq_hash().0,
        "odd" => check_odd_values().0,
        "instance-pairs" => check_instance_pairs().0,
        "instance-copies" => check_instance_copies(case["shape"].as_u64().unwrap_or(0) as usize),
        "instances" => check_instances(case["ips"].as_u64().unwrap_or(0) as usize, case["ports"].as_u64().unwrap_or(0) as usize).0,
        _ => vec![],
    }
}
