//! C01 — parsing untrusted bytes never panics, hangs or over-allocates.
//! Prefix-tree sweeps over reduced alphabets in four regions, cut/perturb of valid reference
//! messages for every type, pointer graphs, short buffers through the header peeks, and
//! full-size structured families; every case under catch_unwind, an allocation meter and a watchdog.

use super::finding;
use crate::engine::{guarded, hex, measure_peak, par_shards, unhex, watch_begin, watch_end, Ctx, Finding, Tally};
use crate::gen;
use crate::refmodel::packet::*;
use crate::refmodel::schema::{self, Kind, SCHEMAS};
use crate::refmodel::RefName;
use serde_json::{json, Value};
use simple_dns::{header_buffer, Packet, PacketFlag};
use std::time::Instant;

pub fn heap_bound(len: usize) -> usize {
    64 * 1024 + 512 * len
}

/// (findings, reached section parsing, accepted)
pub fn check_parse(msg: &[u8], time_limit_ms: Option<u128>) -> (Vec<Finding>, bool, bool) {
    let mk = || json!({"kind": "parse", "msg": hex(msg)});
    watch_begin(msg);
    let t0 = Instant::now();
    let (r, peak) = measure_peak(|| guarded(|| Packet::parse(msg).is_ok()));
    let dt = t0.elapsed();
    watch_end();
    let mut out = Vec::new();
    let mut accepted = false;
    match r {
        Err(p) => out.push(finding(format!("C01|{}", p.sig()), format!("Packet::parse({}) {:?}", crate::engine::truncate(&hex(msg), 300), p), mk())),
        Ok(ok) => accepted = ok,
    }
    if peak > heap_bound(msg.len()) {
        out.push(finding(
            "C01|heap",
            format!("Packet::parse of {} bytes had {} bytes of heap live at peak (bound {}): {}", msg.len(), peak, heap_bound(msg.len()), crate::engine::truncate(&hex(msg), 120)),
            mk(),
        ));
    }
    if let Some(lim) = time_limit_ms {
        if dt.as_millis() > lim {
            // re-measure: a scheduling hiccup must not become a verdict; the best of four counts
            let mut best = dt;
            for _ in 0..3 {
                let t1 = Instant::now();
                let _ = guarded(|| Packet::parse(msg).is_ok());
                best = best.min(t1.elapsed());
            }
            if best.as_millis() > lim {
                out.push(finding("C01|time", format!("Packet::parse of {} bytes took at best {:?} in four runs (limit {} ms)", msg.len(), best, lim), mk()));
            }
        }
    }
    let reached = msg.len() >= 12 && msg[2] & 0 == 0 && msg[3] & 0x40 == 0 && msg[4..12].iter().any(|b| *b != 0);
    (out, reached, accepted)
}

pub fn check_peeks(buf: &[u8]) -> Vec<Finding> {
    let mk = || json!({"kind": "peek", "buf": hex(buf)});
    let mut out = Vec::new();
    let calls: [(&str, &(dyn Fn(&[u8]) -> bool + Sync)); 8] = [
        ("id", &|b| header_buffer::id(b).is_ok()),
        ("questions", &|b| header_buffer::questions(b).is_ok()),
        ("answers", &|b| header_buffer::answers(b).is_ok()),
        ("name_servers", &|b| header_buffer::name_servers(b).is_ok()),
        ("additional_records", &|b| header_buffer::additional_records(b).is_ok()),
        ("has_flags", &|b| header_buffer::has_flags(b, PacketFlag::RESPONSE).is_ok()),
        ("rcode", &|b| header_buffer::rcode(b).is_ok()),
        ("opcode", &|b| header_buffer::opcode(b).is_ok()),
    ];
    for (name, f) in calls {
        let (r, peak) = measure_peak(|| guarded(|| f(buf)));
        match r {
            Err(p) => out.push(finding(
                format!("C01|peek-{}|{}", name, p.sig()),
                format!("header_buffer::{}({}) {:?}", name, hex(buf), p),
                mk(),
            )),
            Ok(ok) => {
                if ok && buf.len() < 2 {
                    out.push(finding(format!("C01|peek-{}|ok-on-short", name), format!("{} returned Ok on {} bytes", name, buf.len()), mk()));
                }
            }
        }
        if peak > 1024 {
            out.push(finding(format!("C01|peek-{}|heap", name), format!("{} allocated {} bytes", name, peak), mk()));
        }
    }
    out
}

fn header(flags: u16, counts: [u16; 4]) -> Vec<u8> {
    let mut h = vec![0xab, 0xcd];
    h.extend_from_slice(&flags.to_be_bytes());
    for c in counts {
        h.extend_from_slice(&c.to_be_bytes());
    }
    h
}

pub type Visit<'a> = &'a (dyn Fn(&[u8], &mut Tally) + Sync);

fn sweep(ctx: &Ctx, visit: Visit, name: &str, alpha: &[u8], l: usize, build: &(dyn Fn(&[u8], &mut Vec<Vec<u8>>) + Sync)) {
    let mut shards: Vec<Vec<u8>> = vec![];
    for a in alpha {
        for b in alpha {
            shards.push(vec![*a, *b]);
        }
    }
    let total = std::sync::atomic::AtomicU64::new(0);
    let run_one = |x: &[u8], t: &mut Tally, msgs: &mut Vec<Vec<u8>>| {
        msgs.clear();
        build(x, msgs);
        for m in msgs.iter() {
            visit(m, t);
        }
        msgs.len() as u64
    };
    {
        let mut t = Tally::default();
        let mut msgs = Vec::new();
        let mut n = run_one(&[], &mut t, &mut msgs);
        for a in alpha {
            n += run_one(&[*a], &mut t, &mut msgs);
        }
        total.fetch_add(n, std::sync::atomic::Ordering::Relaxed);
        ctx.merge(t);
    }
    if l >= 2 {
        par_shards(ctx, &shards, |p, t: &mut Tally| {
            let mut buf = p.clone();
            let mut msgs = Vec::new();
            let mut n = 0u64;
            crate::engine::for_each_string_upto(alpha, l - 2, &mut buf, &mut |b| {
                n += run_one(b, t, &mut msgs);
            });
            total.fetch_add(n, std::sync::atomic::Ordering::Relaxed);
        });
    }
    ctx.space(name, total.load(std::sync::atomic::Ordering::Relaxed), &format!("every string of length <= {} over {} symbols, complete", l, alpha.len()));
}

/// Valid reference messages used as seeds for cut/perturb: per type, every <=1-deviation record
/// between a question and a trailing A record, plain and with RFC-style compression.
pub fn seed_messages(wide: bool) -> Vec<Vec<u8>> {
    let mut out = Vec::new();
    let q = RefQ { name: RefName::txt("example.com"), qtype: 255, qclass: 1, unicast: false };
    let tail = rr("f0.example.com", typed(1, vec![schema::Val::U32(0x7f000001)]));
    for sch in SCHEMAS {
        for vals in gen::deviations(sch, 1, wide) {
            if !gen::vals_wire_representable(sch, &vals) {
                continue;
            }
            let mut p = RefPacket { id: 0x1111, flags: F_QR | F_AA, ..Default::default() };
            p.questions.push(q.clone());
            let mut r = gen::base_rr(sch);
            r.rdata = RefRData::Typed { code: sch.code, vals };
            p.answers.push(r);
            p.additional.push(tail.clone());
            out.push(p.encode(0));
            out.push(p.encode_compressed(0, true));
        }
    }
    for o in gen::opt_family() {
        let mut p = RefPacket { id: 0x2222, flags: F_QR, rcode: 16, opt: Some(o), ..Default::default() };
        p.questions.push(q.clone());
        p.additional.push(tail.clone());
        out.push(p.encode(0));
        out.push(p.encode(1));
    }
    for (i, o) in gen::opt_family().into_iter().enumerate() {
        // a second OPT record in the additional section, at every position
        let stray = RefRR { name: RefName::root(), class: 1, cache_flush: false, ttl: 0x0100_0000, rdata: RefRData::StrayOpt(o.clone()) };
        for n_other in 0..3usize {
            for pos in 0..=n_other {
                let mut p = RefPacket { id: 0x2223, flags: F_QR, opt: Some(gen::opt_family()[(i + 1) % 4].clone()), ..Default::default() };
                for _ in 0..n_other {
                    p.additional.push(tail.clone());
                }
                p.additional.insert(pos, stray.clone());
                for opt_pos in 0..=p.additional.len() {
                    out.push(p.encode(opt_pos));
                }
            }
        }
    }
    // OPT records that are not lifted (answer / authority section, or a second one), with every
    // part of their TTL word populated (extended rcode, version, DO and other flag bits) and a non-root owner
    for (i, o) in gen::opt_family().into_iter().enumerate() {
        for ttl in [0x0000_8000u32, 0x0100_ffff, 0x8000_0001, 0x00ff_0000, 0x1234_5678] {
            for owner in ["", "edns.example.com"] {
                for section in 0..3u8 {
                    let stray = RefRR { name: if owner.is_empty() { RefName::root() } else { RefName::txt(owner) }, class: 1, cache_flush: false, ttl, rdata: RefRData::StrayOpt(o.clone()) };
                    let mut p = RefPacket { id: 0x2224, flags: F_QR, ..Default::default() };
                    p.questions.push(q.clone());
                    match section {
                        0 => p.answers.push(stray),
                        1 => p.authority.push(stray),
                        _ => {
                            p.opt = Some(gen::opt_family()[(i + 1) % 4].clone());
                            p.additional.push(stray);
                        }
                    }
                    p.additional.push(tail.clone());
                    out.push(p.encode(0));
                }
            }
        }
    }
    for code in [10u16, 99, 65280] {
        let mut p = RefPacket { id: 0x3333, ..Default::default() };
        p.answers.push(rr("n.example.com", null_rdata(code, &[1, 2, 3, 4, 5])));
        p.authority.push(rr("n.example.com", RefRData::Empty { code }));
        out.push(p.encode(0));
    }
    out
}

const PERTURB: [u8; 7] = [0x00, 0x01, 0x3f, 0x40, 0x80, 0xc0, 0xff];

pub fn big_families() -> Vec<(String, Vec<u8>)> {
    let mut out = Vec::new();
    // (a) pointer ladder: question names, each one label + pointer to the previous name
    let mut m = header(0, [0, 0, 0, 0]);
    let mut prev = m.len();
    m.extend_from_slice(&[1, b'a', 0, 0, 1, 0, 1]);
    let mut nq = 1u16;
    while m.len() + 8 <= 65535 && nq < 0xffff {
        let here = m.len();
        m.extend_from_slice(&[1, b'a', 0xc0 | (prev >> 8) as u8 & 0x3f, prev as u8, 0, 1, 0, 1]);
        if prev < 0x3f00 {
            prev = here;
        }
        nq += 1;
    }
    m[4..6].copy_from_slice(&nq.to_be_bytes());
    out.push(("pointer ladder: every question name is one label plus a pointer to the previous name".to_string(), m));
    // (b) label fan-out: records whose owner is a pointer to a 127-label name
    let mut m = header(0x8000, [1, 0, 0, 0]);
    for _ in 0..127 {
        m.extend_from_slice(&[1, b'x']);
    }
    m.extend_from_slice(&[0, 0, 1, 0, 1]);
    let mut n = 0u16;
    while m.len() + 12 <= 65535 && n < 0xffff {
        m.extend_from_slice(&[0xc0, 12, 0, 1, 0, 1, 0, 0, 0, 0, 0, 0]);
        n += 1;
    }
    m[6..8].copy_from_slice(&n.to_be_bytes());
    out.push(("label fan-out: thousands of 12-byte records each naming a 127-label name through a pointer".to_string(), m));
    // (b2) chain fan-in: a chain of label-free backward pointers as long as the 14-bit offset allows,
    // and as many later names as fit, each pointing at the head of the chain (work per name is the
    // chain length; anything worse than that per name shows as seconds)
    for (hops, what) in [(8000usize, "A records whose owner points at the chain head"), (4000, "RP records (two names each) pointing at the chain head")] {
        let mut m = header(0x8000, [0, 0, 0, 0]);
        m.extend_from_slice(&[0, 0, 10, 0, 1, 0, 0, 0, 1]);
        let rdlen = 3 + 2 * hops;
        m.extend_from_slice(&(rdlen as u16).to_be_bytes());
        let mut prev = m.len();
        m.extend_from_slice(&[1, b'f', 0]);
        for _ in 0..hops {
            let here = m.len();
            m.extend_from_slice(&[0xc0 | (prev >> 8) as u8, prev as u8]);
            prev = here;
        }
        let head = [0xc0 | (prev >> 8) as u8, prev as u8];
        let mut n = 1u16;
        if hops == 8000 {
            while m.len() + 16 <= 65535 {
                m.extend_from_slice(&head);
                m.extend_from_slice(&[0, 1, 0, 1, 0, 0, 0, 1, 0, 4, 1, 2, 3, 4]);
                n += 1;
            }
        } else {
            while m.len() + 18 <= 65535 {
                m.extend_from_slice(&head);
                m.extend_from_slice(&[0, 17, 0, 1, 0, 0, 0, 1, 0, 4]);
                m.extend_from_slice(&head);
                m.extend_from_slice(&head);
                n += 1;
            }
        }
        m[6..8].copy_from_slice(&n.to_be_bytes());
        out.push((format!("chain fan-in: {} label-free pointer hops, then {} {}", hops, n - 1, what), m));
    }
    // (b3) per type: as many records of that type (shortest canonical RDATA, and the default
    // RDATA) as fit in 6 000 and in 65 535 bytes (per-record costs that grow with the record's
    // position in the message add up here)
    for sch in SCHEMAS {
        let mut shortest = gen::default_vals(sch);
        for v in shortest.iter_mut() {
            match v {
                schema::Val::Name(n) => *n = RefName::root(),
                schema::Val::Str(s) => s.0.clear(),
                schema::Val::Tail(t) => t.0.clear(),
                schema::Val::Strs(s) => *s = vec![crate::refmodel::B(vec![])],
                schema::Val::Params(p) => p.clear(),
                schema::Val::Windows(w) => *w = vec![(0, crate::refmodel::B(vec![0x40]))],
                schema::Val::Gateway(g) => *g = schema::Gw::None,
                _ => {}
            }
        }
        for (which, vals) in [("shortest", shortest), ("default", gen::default_vals(sch))] {
            let mut rd = Vec::new();
            schema::encode_vals(sch, &vals, &mut rd);
            for limit in [6000usize, 65535] {
                let mut m = header(0x8000, [0, 0, 0, 0]);
                let mut n = 0u16;
                while m.len() + 11 + rd.len() <= limit && n < 0xffff {
                    m.push(0);
                    m.extend_from_slice(&sch.code.to_be_bytes());
                    m.extend_from_slice(&[0, 1, 0, 0, 0, 1]);
                    m.extend_from_slice(&(rd.len() as u16).to_be_bytes());
                    m.extend_from_slice(&rd);
                    n += 1;
                }
                m[6..8].copy_from_slice(&n.to_be_bytes());
                out.push((format!("{} {} records ({} RDATA) filling {} bytes", n, sch.mnemonic, which, m.len()), m));
            }
        }
    }
    // (c) maximal counts with minimal records
    let mut m = header(0x8000, [0, 0, 0, 0]);
    let mut n = 0u16;
    while m.len() + 15 <= 65535 && n < 0xffff {
        m.extend_from_slice(&[0, 0, 1, 0, 1, 0, 0, 0, 1, 0, 4, 1, 2, 3, 4]);
        n += 1;
    }
    m[10..12].copy_from_slice(&n.to_be_bytes());
    out.push(("maximal record count: root-owner A records filling 65535 bytes".to_string(), m));
    // (d) counts far beyond the content
    for len in [12usize, 13, 64, 1024, 65535] {
        for which in 0..4 {
            let mut c = [0u16; 4];
            c[which] = 0xffff;
            let mut m = header(0, c);
            m.resize(len, 0);
            out.push((format!("count 0xffff in section {} over {} zero bytes", which, len), m));
        }
        let mut m = header(0, [0xffff; 4]);
        m.resize(len, 0);
        out.push((format!("all counts 0xffff over {} zero bytes", len), m));
    }
    // (e) one huge TXT / NULL / OPT record
    for code in [16u16, 10, 41, 64, 47] {
        let mut m = header(0x8000, [0, 0, 0, 1]);
        m.extend_from_slice(&[0]);
        m.extend_from_slice(&code.to_be_bytes());
        m.extend_from_slice(&[0, 1, 0, 0, 0, 0]);
        let room = 65535 - m.len() - 2;
        m.extend_from_slice(&(room as u16).to_be_bytes());
        // content: zero-length strings / zero-length options / params, maximal fan-out per byte
        m.resize(m.len() + room, 0);
        out.push((format!("single type-{} record with {} zero bytes of RDATA", code, room), m));
    }
    out
}

/// Enumerate the message-shaped input spaces shared by C01 / C11 / C12 (R1, R3, R4, cut/perturb,
/// pointer graphs), calling `visit` on every member. `shrink` lowers every bound by that amount.
pub fn enumerate_inputs(ctx: &Ctx, visit: Visit, shrink: usize) {
    let thorough = ctx.tier == crate::engine::Tier::Thorough;
    // R1: header count variants + free body
    let sig1: [u8; 11] = [0x00, 0x01, 0x02, 0x0c, 0x10, 0x29, 0x3f, 0x40, 0xc0, 0xff, b'a'];
    let l1 = ctx.tier.pick(6usize, 8usize) - shrink;
    let count_variants: Vec<[u16; 4]> = vec![[1, 0, 0, 0], [0, 1, 0, 0], [0, 0, 0, 1], [2, 0, 0, 0], [1, 1, 0, 0], [0, 2, 0, 0], [0, 0xffff, 0, 0]];
    sweep(ctx, visit, "R1: header with 7 count shapes + free body", &sig1, l1, &|x, msgs| {
        for c in &count_variants {
            let mut m = header(0, *c);
            m.extend_from_slice(x);
            msgs.push(m);
        }
    });
    // R3: per type code, fixed envelope, every (RDLENGTH, RDATA)
    let mut codes: Vec<u16> = schema::supported_codes();
    codes.extend([10u16, 99]);
    let sig3: [u8; 9] = [0x00, 0x01, 0x02, 0x03, 0x17, 0x40, 0xc0, 0xff, b'a'];
    let l3 = ctx.tier.pick(5usize, 6usize) - shrink;
    let codes_ref = &codes;
    sweep(ctx, visit, "R3: per type code (42), root owner + envelope + every RDLENGTH in 0..=|X|+1 + X", &sig3, l3, &|x, msgs| {
        for &code in codes_ref.iter() {
            for rdlen in 0..=x.len() + 1 {
                let mut m = header(0x8000, [0, 1, 0, 0]);
                m.push(0);
                m.extend_from_slice(&code.to_be_bytes());
                m.extend_from_slice(&[0, 1, 0, 0, 0, 9]);
                m.extend_from_slice(&(rdlen as u16).to_be_bytes());
                m.extend_from_slice(x);
                msgs.push(m);
            }
        }
    });
    // R3b: as R3 with exact RDLENGTH, but one position of X ranges over all 256 byte values
    let l3b = ctx.tier.pick(3usize, 4usize) - shrink.min(1);
    sweep(ctx, visit, "R3b: per type code (42), X over the reduced alphabet with one position taking every byte value, RDLENGTH = |X|", &sig3, l3b, &|x, msgs| {
        for pos in 0..x.len() {
            for v in 0..=255u8 {
                if sig3.contains(&v) {
                    continue;
                }
                for &code in codes_ref.iter() {
                    let mut m = header(0x8000, [0, 1, 0, 0]);
                    m.push(0);
                    m.extend_from_slice(&code.to_be_bytes());
                    m.extend_from_slice(&[0, 1, 0, 0, 0, 9]);
                    m.extend_from_slice(&(x.len() as u16).to_be_bytes());
                    let at = m.len();
                    m.extend_from_slice(x);
                    m[at + pos] = v;
                    msgs.push(m);
                }
            }
        }
    });
    // R4: per type and field boundary, canonical prefix then free bytes, exact RDLENGTH
    let mut prefixes: Vec<(u16, Vec<u8>)> = Vec::new();
    for sch in SCHEMAS {
        let vals = gen::default_vals(sch);
        let mut shortest = vals.clone();
        // shortest canonical values: root names, empty strings / tails
        for v in shortest.iter_mut() {
            match v {
                schema::Val::Name(n) => *n = RefName::root(),
                schema::Val::Str(s) => s.0.clear(),
                schema::Val::Tail(t) => t.0.clear(),
                schema::Val::Strs(s) => *s = vec![crate::refmodel::B(vec![])],
                schema::Val::Params(p) => p.clear(),
                schema::Val::Windows(w) => w.clear(),
                schema::Val::Gateway(g) => *g = schema::Gw::None,
                _ => {}
            }
        }
        let nvals = schema::arity(sch);
        for upto in 1..=nvals {
            // encode fields 0..upto by encoding a truncated schema
            let mut enc = Vec::new();
            let fields: Vec<(&'static str, Kind)> = {
                let mut f = Vec::new();
                let mut cnt = 0;
                for (n, k) in sch.fields {
                    if *k != Kind::GwType {
                        if cnt == upto {
                            break;
                        }
                        cnt += 1;
                    }
                    f.push((*n, *k));
                }
                f
            };
            let leaked: &'static [(&'static str, Kind)] = Box::leak(fields.into_boxed_slice());
            let part = schema::TypeSchema { code: sch.code, mnemonic: sch.mnemonic, fields: leaked };
            schema::encode_vals(&part, &shortest[..upto], &mut enc);
            if !prefixes.iter().any(|(c, e)| *c == sch.code && *e == enc) {
                prefixes.push((sch.code, enc));
            }
        }
    }
    let l4 = ctx.tier.pick(4usize, 6usize) - shrink;
    let pref = &prefixes;
    sweep(ctx, visit, &format!("R4: {} (type, field-boundary) canonical prefixes + free bytes, exact RDLENGTH", prefixes.len()), &sig3, l4, &|x, msgs| {
        for (code, pre) in pref.iter() {
            let mut m = header(0x8000, [0, 1, 0, 0]);
            m.push(0);
            m.extend_from_slice(&code.to_be_bytes());
            m.extend_from_slice(&[0, 1, 0, 0, 0, 9]);
            m.extend_from_slice(&((pre.len() + x.len()) as u16).to_be_bytes());
            m.extend_from_slice(pre);
            m.extend_from_slice(x);
            msgs.push(m);
        }
    });
    // cut / perturb
    let seeds = seed_messages(thorough);
    let n_seed = seeds.len();
    let total = std::sync::atomic::AtomicU64::new(0);
    par_shards(ctx, &seeds, |m, t: &mut Tally| {
        let mut n = 0u64;
        let mut run = |x: &[u8], t: &mut Tally| {
            n += 1;
            visit(x, t);
        };
        for cut in 0..=m.len() {
            run(&m[..cut], t);
        }
        let mut x = m.clone();
        // short messages: every one of the 256 values at every position; long ones: the perturbation set
        let all_values = shrink == 0 && m.len() <= 160;
        for i in 0..m.len() {
            let orig = m[i];
            if all_values {
                for p in 0..=255u8 {
                    if p != orig {
                        x[i] = p;
                        run(&x, t);
                    }
                }
            } else {
                for p in PERTURB.iter().copied().chain([orig.wrapping_add(1), orig.wrapping_sub(1)]) {
                    if p == orig {
                        continue;
                    }
                    x[i] = p;
                    run(&x, t);
                }
            }
            x[i] = orig;
        }
        total.fetch_add(n, std::sync::atomic::Ordering::Relaxed);
    });
    ctx.space(&format!("cut/perturb: {} valid reference messages (every type, <=1 deviation, plain and compressed), every truncation point and every byte set to every other value (messages up to 160 bytes) or to -1/+1/00/01/3f/40/80/c0/ff (longer ones)", n_seed), total.load(std::sync::atomic::Ordering::Relaxed), "complete");
    if let Some(s) = seeds.get(3) {
        ctx.sample(json!({"kind": "parse", "msg": hex(&s[..s.len() - 3]), "note": "seed message truncated by 3"}));
    }
    // two bytes at once: for the base record of every type (followed by another record), every
    // pair of positions in RDLENGTH + RDATA set to every pair of values that are small, extreme,
    // or equal (give or take 2) to the number of bytes that follow the position: a selector
    // field and a length octet that only misbehave together are met by some pair
    if shrink == 0 {
        let tail = rr("f0.example.com", typed(1, vec![schema::Val::U32(0x7f000001)]));
        let mut bases: Vec<(Vec<u8>, usize, usize, usize)> = Vec::new();
        for (sch, zeroed) in SCHEMAS.iter().flat_map(|s| [(s, false), (s, true)]) {
            let mut p = RefPacket { id: 0x1112, flags: F_QR | F_AA, ..Default::default() };
            let mut base = gen::base_rr(sch);
            if zeroed {
                // the same record with every integer field zero, so that a multi-byte selector
                // needs only its low byte set
                if let RefRData::Typed { vals, .. } = &mut base.rdata {
                    for v in vals.iter_mut() {
                        *v = match &*v {
                            schema::Val::U8(_) => schema::Val::U8(0),
                            schema::Val::U16(_) => schema::Val::U16(0),
                            schema::Val::U24(_) => schema::Val::U24(0),
                            schema::Val::U32(_) => schema::Val::U32(0),
                            schema::Val::I32(_) => schema::Val::I32(0),
                            schema::Val::U48(_) => schema::Val::U48(0),
                            other => other.clone(),
                        };
                    }
                }
            }
            p.answers.push(base);
            p.additional.push(tail.clone());
            let m = p.encode(0);
            if let Ok(w) = crate::refmodel::wire::walk(&m) {
                if let Some(r0) = w.records.first() {
                    // cap the region so that very long base values stay affordable
                    let end = r0.rdata_end().min(r0.rdata_start + if shrink == 0 { 48 } else { 24 });
                    bases.push((m.clone(), r0.rdata_start - 2, end, r0.rdata_end()));
                }
            }
        }
        let total = std::sync::atomic::AtomicU64::new(0);
        par_shards(ctx, &bases, |(m, from, to, rdata_end), t: &mut Tally| {
            let mut n = 0u64;
            let mut x = m.clone();
            let values = |pos: usize| -> Vec<u8> {
                let rest = rdata_end.saturating_sub(pos + 1) as i64; // bytes of the RDATA after this position
                let mut v: Vec<u8> = vec![0, 1, 2, 3, 4, 5, 6, 7, 8, 9, 10, 16, 0x3f, 0x40, 0x7f, 0x80, 0xc0, 0xfe, 0xff];
                for d in -2i64..=2 {
                    let k = rest + d;
                    if (0..=255).contains(&k) {
                        v.push(k as u8);
                    }
                }
                v.sort();
                v.dedup();
                v
            };
            for i in *from..*to {
                let vi = values(i);
                for j in (i + 1)..*to {
                    let vj = values(j);
                    for a in &vi {
                        x[i] = *a;
                        for b in &vj {
                            x[j] = *b;
                            n += 1;
                            visit(&x, t);
                        }
                    }
                    x[j] = m[j];
                }
                x[i] = m[i];
            }
            total.fetch_add(n, std::sync::atomic::Ordering::Relaxed);
        });
        ctx.space(&format!("byte pairs: {} base records (each type with its default field values and with every integer field zero) followed by another record; every pair of positions in RDLENGTH + the first 48 RDATA bytes x every pair of values over {{0..=10, 16, 3f, 40, 7f, 80, c0, fe, ff, the number of bytes that follow the position -2..=+2}}", bases.len()), total.load(std::sync::atomic::Ordering::Relaxed), "complete");
    }
    // pointer graphs as question names (cells), pointer targets in message coordinates
    {
        let k = ctx.tier.pick(5usize, 6usize);
        let kinds = 5 + k;
        let totalc = (kinds as u64).pow(k as u32);
        let codes: Vec<u64> = (0..totalc).collect();
        let chunks: Vec<&[u64]> = codes.chunks(4096).collect();
        par_shards(ctx, &chunks, |cs, t: &mut Tally| {
            for &code in cs.iter() {
                let mut cells = Vec::with_capacity(k);
                let mut c = code;
                for _ in 0..k {
                    cells.push((c % kinds as u64) as usize);
                    c /= kinds as u64;
                }
                let sizes = |c: usize| if c == 1 || c == 2 || c == 3 { 1 } else { 2 };
                let mut offs = Vec::new();
                let mut o = 12usize;
                for &cell in &cells {
                    offs.push(o);
                    o += sizes(cell);
                }
                let mut m = header(0, [1, 1, 0, 0]);
                for &cell in &cells {
                    match cell {
                        0 => m.extend_from_slice(&[1, b'a']),
                        1 => m.push(0),
                        2 => m.push(0x40),
                        3 => m.push(0x80),
                        4 => m.extend_from_slice(&[2, b'b']),
                        j => m.extend_from_slice(&[0xc0, offs[j - 5] as u8]),
                    }
                }
                // make the tail long enough for fixed fields, and let an answer point back into the cells
                m.extend_from_slice(&[0, 1, 0, 1, 0xc0, 12, 0, 2, 0, 1, 0, 0, 0, 0, 0, 2, 0xc0, 13]);
                visit(&m, t);
            }
        });
        ctx.space(&format!("pointer graphs: {} cells in the question-name region, an NS answer pointing into them", k), totalc, "complete");
    }
    // R5: every EDNS option code, with empty / zero / non-zero payloads, alone and next to another option
    {
        let codes: Vec<u32> = (0..=65535u32).collect();
        let chunks: Vec<&[u32]> = codes.chunks(1024).collect();
        let payloads: [&[u8]; 6] = [&[], &[0], &[0, 0, 0, 0, 0, 0], &[0xff, 0xff, 0xff], &[1, 2, 3, 4, 5, 6, 7, 8], &[0, 12, 0, 0]];
        let total = std::sync::atomic::AtomicU64::new(0);
        par_shards(ctx, &chunks, |cs, t: &mut Tally| {
            let mut n = 0u64;
            for &code in cs.iter() {
                for pl in payloads.iter() {
                    for placement in 0..3u8 {
                        let mut opts: Vec<u8> = Vec::new();
                        if placement == 1 {
                            opts.extend_from_slice(&[0, 10, 0, 8, 1, 2, 3, 4, 5, 6, 7, 8]);
                        }
                        opts.extend_from_slice(&(code as u16).to_be_bytes());
                        opts.extend_from_slice(&(pl.len() as u16).to_be_bytes());
                        opts.extend_from_slice(pl);
                        if placement == 2 {
                            opts.extend_from_slice(&[0, 3, 0, 2, b'n', b's']);
                        }
                        let mut m = header(0x0100, [0, 0, 0, 1]);
                        m.extend_from_slice(&[0, 0, 41, 0x04, 0xd0, 0, 0, 0, 0]);
                        m.extend_from_slice(&(opts.len() as u16).to_be_bytes());
                        m.extend_from_slice(&opts);
                        n += 1;
                        visit(&m, t);
                    }
                }
            }
            total.fetch_add(n, std::sync::atomic::Ordering::Relaxed);
        });
        ctx.space("R5: OPT record with every option code 0..=65535 x 6 payloads (empty, zeros, non-zero, option-shaped) x {alone, after a cookie, before another option}", total.load(std::sync::atomic::Ordering::Relaxed), "complete");
    }
    // R9: two fields in different regions of one message: every flags word x every byte of the
    // OPT record's TTL (extended RCODE, version, flag bytes), OPT in the additional section and
    // as an answer
    {
        let words: Vec<u32> = (0..=65535u32).collect();
        let chunks: Vec<&[u32]> = words.chunks(512).collect();
        let total = std::sync::atomic::AtomicU64::new(0);
        par_shards(ctx, &chunks, |ws, t: &mut Tally| {
            let mut n = 0u64;
            for &w in ws.iter() {
                // (the properties that reuse these inputs at a lower bound take the words that
                // differ from a plain query / response in the RCODE nibble only)
                if shrink > 0 && w & 0x7ff0 != 0 {
                    continue;
                }
                // the full byte range for words with the reserved bit clear, boundary bytes otherwise
                let full = w & 0x0040 == 0;
                for ext in 0..=255u16 {
                    if !full && !matches!(ext, 0 | 1 | 0x7f | 0x80 | 0xff) {
                        continue;
                    }
                    for (vi, ttl) in [[ext as u8, 0, 0, 0], [ext as u8, 0xff, 0x80, 0], [0, ext as u8, 0, 0], [0xff, 0, ext as u8, ext as u8]].iter().enumerate() {
                        if vi > 1 && w & 0x7ff0 != 0 {
                            continue;
                        }
                        let section = if vi == 1 && w & 0x0400 != 0 { 1 } else { 3 };
                        let mut counts = [0u16; 4];
                        counts[section] = 1;
                        let mut m = header(w as u16, counts);
                        m.extend_from_slice(&[0, 0, 41, 0x04, 0xd0]);
                        m.extend_from_slice(ttl);
                        m.extend_from_slice(&[0, 0]);
                        n += 1;
                        visit(&m, t);
                    }
                }
            }
            total.fetch_add(n, std::sync::atomic::Ordering::Relaxed);
        });
        ctx.space("R9: every 16-bit flags word (reserved bit clear) x every value of the OPT TTL's extended-RCODE byte (with zero and non-zero version / flag bytes), every RCODE nibble x every version byte and flag bytes; boundary bytes for words with the reserved bit set", total.load(std::sync::atomic::Ordering::Relaxed), "complete");
    }
    // R10: content with an inner structure: EDNS options with family / prefix / address shaped
    // payloads, and tag / value records (CAA, TXT key=value) whose tag is a word software knows
    // and whose value has a multi-byte character or an invalid byte at every offset 0..=24
    {
        let mut msgs: Vec<Vec<u8>> = Vec::new();
        for (code, data) in gen::structured_options() {
            // (the properties that reuse these inputs at a lower bound take the client-subnet code and its neighbours)
            if shrink > 0 && !(7..=9).contains(&code) {
                continue;
            }
            let mut m = header(0x0100, [0, 0, 0, 1]);
            m.extend_from_slice(&[0, 0, 41, 0x04, 0xd0, 0, 0, 0, 0]);
            m.extend_from_slice(&((data.0.len() + 4) as u16).to_be_bytes());
            m.extend_from_slice(&code.to_be_bytes());
            m.extend_from_slice(&(data.0.len() as u16).to_be_bytes());
            m.extend_from_slice(&data.0);
            msgs.push(m);
        }
        let tags: Vec<&str> = gen::dictionary_strings().into_iter().filter(|s| !s.is_empty() && s.len() <= 15 && s.bytes().all(|b| b.is_ascii_alphanumeric())).collect();
        let values = gen::alignment_strings();
        let tags: Vec<&str> = if shrink > 0 { tags.into_iter().filter(|t| ["issue", "iodef", "IODEF", "issuewild", "txtvers", "path"].contains(t)).collect() } else { tags };
        for tag in &tags {
            for v in &values {
                // CAA: flags, tag length, tag, value
                let mut rd: Vec<u8> = vec![0, tag.len() as u8];
                rd.extend_from_slice(tag.as_bytes());
                rd.extend_from_slice(v);
                let mut m = header(0x8400, [0, 1, 0, 0]);
                m.extend_from_slice(&[0, 0x01, 0x01, 0, 1, 0, 0, 0, 9]);
                m.extend_from_slice(&(rd.len() as u16).to_be_bytes());
                m.extend_from_slice(&rd);
                msgs.push(m);
                // TXT: one string "tag=value"
                let mut s: Vec<u8> = tag.as_bytes().to_vec();
                s.push(b'=');
                s.extend_from_slice(v);
                let mut m = header(0x8400, [0, 1, 0, 0]);
                m.extend_from_slice(&[0, 0, 16, 0, 1, 0, 0, 0, 9]);
                m.extend_from_slice(&((s.len() + 1) as u16).to_be_bytes());
                m.push(s.len() as u8);
                m.extend_from_slice(&s);
                msgs.push(m);
            }
        }
        let n_msgs = msgs.len() as u64;
        let chunks: Vec<&[Vec<u8>]> = msgs.chunks(256).collect();
        par_shards(ctx, &chunks, |ms, t: &mut Tally| {
            for m in ms.iter() {
                visit(m, t);
            }
        });
        ctx.space("R10: structured content: EDNS options 0..=20 and 65001 with payloads of every length 0..=24 starting 00 01 / 00 02 / 00 00 / ff ff and 14 third bytes (full product for codes 7..=9); CAA records and TXT key=value strings whose tag is each alphanumeric word of the string dictionary and whose value has a multi-byte character or invalid byte at every offset 0..=24", n_msgs, "complete");
    }
    // R6: every TYPE code x class x short generic RDATA bodies
    {
        let codes: Vec<u32> = if shrink == 0 { (0..=65535u32).collect() } else { (0..=300u32).chain(32760..=32780).chain(65270..=65535).collect() };
        let chunks: Vec<&[u32]> = codes.chunks(512).collect();
        let mut bodies: Vec<Vec<u8>> = Vec::new();
        for n in 0..=10usize {
            bodies.push(vec![0u8; n]);
        }
        for k in 0..=4usize {
            let mut b = vec![1, b'a', 0];
            b.extend(std::iter::repeat(0x12).take(k));
            bodies.push(b);
        }
        bodies.push(vec![0xff]);
        bodies.push(vec![0xff, 0xff, 0xff]);
        bodies.push(vec![0xc0, 0x0c]);
        bodies.push(vec![0xc0, 0x0c, 0, 1]);
        let classes: [u16; 6] = [1, 3, 4, 254, 0x8001, 0];
        let total = std::sync::atomic::AtomicU64::new(0);
        let bodies = &bodies;
        par_shards(ctx, &chunks, |cs, t: &mut Tally| {
            let mut n = 0u64;
            for &code in cs.iter() {
                for class in classes {
                    for b in bodies.iter() {
                        let mut m = header(0x8000, [1, 1, 0, 0]);
                        m.extend_from_slice(&[1, b'q', 0, 0, 1, 0, 1]);
                        m.extend_from_slice(&[0xc0, 12]);
                        m.extend_from_slice(&(code as u16).to_be_bytes());
                        m.extend_from_slice(&class.to_be_bytes());
                        m.extend_from_slice(&[0, 0, 0, 5]);
                        m.extend_from_slice(&(b.len() as u16).to_be_bytes());
                        m.extend_from_slice(b);
                        n += 1;
                        visit(&m, t);
                    }
                }
            }
            total.fetch_add(n, std::sync::atomic::Ordering::Relaxed);
        });
        ctx.space(&format!("R6: a record of each of {} TYPE codes x 6 classes x {} generic RDATA bodies (zeros of length 0..=10, a short name plus 0..=4 bytes, ff.., pointers)", codes.len(), bodies.len()), total.load(std::sync::atomic::Ordering::Relaxed), "complete");
    }
    // R8: names made of labels that DNS software attaches a meaning to
    {
        let names = gen::dictionary_names(3);
        let chunks: Vec<&[RefName]> = names.chunks(256).collect();
        par_shards(ctx, &chunks, |ns, t: &mut Tally| {
            for n in ns.iter() {
                if !n.is_wire_valid() && !n.0.is_empty() {
                    continue;
                }
                let mut p = RefPacket { id: 0x8888, flags: F_QR | F_AA, ..Default::default() };
                p.questions.push(RefQ { name: n.clone(), qtype: 12, qclass: 1, unicast: false });
                p.answers.push(RefRR { name: n.clone(), class: 1, cache_flush: false, ttl: 5, rdata: gen::rdata_with_names(12, &[n.clone()]) });
                p.additional.push(RefRR { name: RefName::txt("t.example"), class: 1, cache_flush: true, ttl: 6, rdata: gen::rdata_with_names(33, &[n.clone()]) });
                visit(&p.encode(0), t);
                visit(&p.encode_compressed(0, true), t);
                // and, for names of <= 2 labels, as the owner and every RDATA name of every name-bearing type
                if n.0.len() <= 2 {
                    for sch in SCHEMAS {
                        if ![2u16, 5, 12, 15, 33, 41].contains(&sch.code) && sch.fields.iter().any(|(_, k)| matches!(k, Kind::Name(_))) {
                            let mut p = RefPacket { id: 0x8889, flags: F_QR, ..Default::default() };
                            p.answers.push(RefRR { name: n.clone(), class: 1, cache_flush: false, ttl: 5, rdata: gen::rdata_with_names(sch.code, &[n.clone()]) });
                            visit(&p.encode_compressed(0, true), t);
                        }
                    }
                }
            }
        });
        ctx.space("R8: dictionary names: every sequence of <= 3 labels over 32 labels with a conventional meaning (local, arpa, in-addr, ip6, _tcp, _udp, _services, _dns-sd, _sub, localhost, xn--..., *, digits) plus 20 well-known full names, as question, owner, PTR and SRV target, plain and compressed", names.len() as u64 * 2, "complete");
    }
    // R7: names that take many decoding steps, and reference encodings of the full size sweep
    {
        let mut msgs = gen::name_shape_messages(if shrink == 0 { 700 } else { 300 });
        msgs.extend(gen::large_messages());
        for p in gen::size_sweep_packets() {
            msgs.push(p.encode(0));
            msgs.push(p.encode_compressed(0, true));
        }
        let chunks: Vec<&[Vec<u8>]> = msgs.chunks(64).collect();
        par_shards(ctx, &chunks, |ms, t: &mut Tally| {
            for m in ms.iter() {
                visit(m, t);
            }
        });
        ctx.space("R7: many-step names (0..=130 inline labels, every label length, pointer chains of every length up to 700 and 2000/4000/8000) and reference encodings of the full size sweep (string / tail / name / list sizes, 2..400 distinct repeated names)", msgs.len() as u64, "complete");
    }
}

pub fn run(ctx: &Ctx) {
    ctx.set_rule("Packet::parse / header peeks executed on every member of the declared byte-string spaces under catch_unwind, a thread-local allocation meter and a watchdog; non-trivial = input has a well-formed 12-byte header with a non-zero count (parsing reaches the sections); oracle: no panic, returns within the watchdog, peak heap <= 64 KiB + 512 * len");
    ctx.assume("overflow-checks are on in the harness build, so an arithmetic overflow counts as a panic");
    ctx.assume("heap bound 64 KiB + 512 B per input byte: measured worst legitimate amplification is 267 B per byte");
    {
        let root = ctx.verif_root.clone();
        let prop = ctx.prop.clone();
        crate::engine::start_watchdog(std::time::Duration::from_secs(10), move |what, dt| {
            let path = format!("{}/replays/{}-hang.json", root, prop);
            let _ = std::fs::create_dir_all(format!("{}/replays", root));
            let body = json!({"property": prop, "signature": "C01|hang", "detail": format!("no return after {:?}", dt), "case": {"kind": "parse", "msg": hex(what)}});
            let _ = std::fs::write(&path, serde_json::to_string(&body).unwrap());
            println!("VIOLATION property={} replay={}", prop, path);
            println!("  signature: C01|hang");
            std::process::exit(1);
        });
    }
    enumerate_inputs(
        ctx,
        &|m, t| {
            t.evals += 1;
            let (f, reached, acc) = check_parse(m, None);
            if reached {
                t.nontrivial += 1;
            }
            t.outcome(if !f.is_empty() { "violation" } else if acc { "accepted" } else { "rejected" });
            if !f.is_empty() {
                ctx.violations(f);
            }
        },
        0,
    );
    // header peeks: every buffer of length 0..=12 over {00,80,ff}, and all-c0 strings
    {
        let mut bufs: Vec<Vec<u8>> = Vec::new();
        let mut b = Vec::new();
        crate::engine::for_each_string_upto(&[0x00, 0x80, 0xff], ctx.tier.pick(9, 12), &mut b, &mut |x| bufs.push(x.to_vec()));
        for n in 0..=16 {
            bufs.push(vec![0xc0; n]);
            bufs.push(vec![0x41; n]);
        }
        let chunks: Vec<&[Vec<u8>]> = bufs.chunks(4096).collect();
        par_shards(ctx, &chunks, |bs, t: &mut Tally| {
            for b in bs.iter() {
                t.evals += 1;
                if b.len() >= 2 {
                    t.nontrivial += 1;
                }
                let f = check_peeks(b);
                t.outcome(if f.is_empty() { "peek-ok" } else { "peek-violation" });
                if !f.is_empty() {
                    ctx.violations(f);
                }
                t.evals += 1;
                let (f, _, _) = check_parse(b, None);
                if !f.is_empty() {
                    ctx.violations(f);
                }
            }
        });
        ctx.space(&format!("header peeks + parse: every buffer of length 0..={} over {{00,80,ff}} and constant strings of length 0..=16, 8 peek functions each", ctx.tier.pick(9, 12)), bufs.len() as u64 * 2, "complete");
        ctx.sample(json!({"kind": "peek", "buf": "80"}));
    }
    // full-size structured families
    {
        let fams = big_families();
        let mut t = Tally::default();
        for (name, m) in &fams {
            t.evals += 1;
            t.nontrivial += 1;
            let (f, _, acc) = check_parse(m, Some(2000));
            t.outcome(if !f.is_empty() { "violation" } else if acc { "accepted" } else { "rejected" });
            for mut x in f {
                x.detail = format!("[{}] {}", name, x.detail);
                ctx.violation(x);
            }
            // truncations of the big messages at a few points
            for cut in [m.len() / 2, m.len().saturating_sub(1), m.len().saturating_sub(7)] {
                t.evals += 1;
                let (f, _, _) = check_parse(&m[..cut], Some(2000));
                ctx.violations(f);
            }
        }
        ctx.merge(t);
        ctx.space(&format!("full-size families: {} hand-built messages up to 65535 bytes (pointer ladder, label fan-out, maximal counts, counts beyond content, one huge record) + 3 truncations each, with a 2 s time limit", fams.len()), fams.len() as u64 * 4, "complete");
    }
    ctx.sample(json!({"kind": "parse", "msg": hex(&header(0, [0, 0xffff, 0, 0]))}));
}

pub fn replay(case: &Value) -> Vec<Finding> {
    match case["kind"].as_str().unwrap_or("") {
        "parse" => {
            let m = unhex(case["msg"].as_str().unwrap_or(""));
            let lim = if m.len() > 4096 { Some(2000) } else { None };
            check_parse(&m, lim).0
        }
        "peek" => check_peeks(&unhex(case["buf"].as_str().unwrap_or(""))),
        _ => vec![],
    }
}
