//! C10 — each record type's RDATA layout and type code follow its RFC.
//! For each of the typed variants: deviation-bounded product over an independent declarative
//! schema; parse(reference encoding) yields the values, build(values) yields the encoding byte
//! for byte under the IANA type code; rejection families for the structural rules.

use super::finding;
use crate::bind::*;
use crate::engine::{guarded, hex, par_shards, Ctx, Finding, Tally};
use crate::gen;
use crate::refmodel::packet::*;
use crate::refmodel::schema::{self, Kind, TypeSchema, Val, SCHEMAS};
use crate::refmodel::wire::walk;
use crate::refmodel::B;
use serde_json::{json, Value};
use simple_dns::Packet;

fn pkt_with(rec: RefRR, trailing: bool) -> RefPacket {
    let mut p = RefPacket { id: 0x0a0b, flags: F_QR | F_AA, ..Default::default() };
    p.answers.push(rec);
    if trailing {
        p.answers.push(rr("t.example", typed(1, vec![Val::U32(0xc0a80001)])));
    }
    p
}

pub fn check_values(code: u16, vals: &[Val]) -> Vec<Finding> {
    let case = json!({"kind": "values", "code": code, "vals": vals});
    let sch = match schema::schema(code) {
        Some(s) => s,
        None => return vec![],
    };
    let mut enc = Vec::new();
    schema::encode_vals(sch, vals, &mut enc);
    let rec = RefRR { name: crate::refmodel::RefName::txt("r.example"), class: 1, cache_flush: false, ttl: 0x0102_0304, rdata: typed(code, vals.to_vec()) };
    let mut out = Vec::new();
    let mn = sch.mnemonic;
    // (a) parse the canonical encoding
    for trailing in [false, true] {
        let p = pkt_with(rec.clone(), trailing);
        let msg = p.encode(0);
        let r = guarded(|| Packet::parse(&msg).map(|x| observe(&x)));
        match r {
            Err(pn) => out.push(finding(format!("C10|{}|parse|{}", mn, pn.sig()), format!("parse of canonical {} encoding {}: {:?}", mn, hex(&enc), pn), case.clone())),
            Ok(Err(e)) => out.push(finding(
                format!("C10|{}|parse|rejects-canonical", mn),
                format!("canonical {} RDATA {} rejected: {:?}", mn, crate::engine::truncate(&hex(&enc), 200), e),
                case.clone(),
            )),
            Ok(Ok(o)) => {
                if o != p {
                    let got = o.answers.first().map(|r| format!("{:?}", r.rdata)).unwrap_or_default();
                    let which = match o.answers.first() {
                        Some(r) if r.rdata.code() != code => "type-code".to_string(),
                        Some(RefRR { rdata: RefRData::Typed { vals: gv, .. }, .. }) if gv.len() == vals.len() => {
                            let idx: Vec<String> = gv.iter().zip(vals.iter()).enumerate().filter(|(_, (a, b))| a != b).map(|(i, _)| field_name(sch, i).to_string()).collect();
                            if idx.is_empty() {
                                "envelope".to_string()
                            } else {
                                format!("field-{}", idx.join("+"))
                            }
                        }
                        _ => "shape".to_string(),
                    };
                    out.push(finding(
                        format!("C10|{}|parse|{}", mn, which),
                        format!("canonical {} RDATA {} parsed as {} expected {:?}", mn, crate::engine::truncate(&hex(&enc), 200), crate::engine::truncate(&got, 400), vals),
                        case.clone(),
                    ));
                }
            }
        }
    }
    // (b) build from values
    let p = pkt_with(rec.clone(), true);
    let r = guarded(|| to_lib(&p).and_then(|l| l.build_bytes_vec().map_err(|e| format!("{:?}", e))));
    match r {
        Err(pn) => out.push(finding(format!("C10|{}|build|{}", mn, pn.sig()), format!("{:?}", pn), case.clone())),
        Ok(Err(e)) => out.push(finding(format!("C10|{}|build|error", mn), format!("building {} {:?} fails: {}", mn, vals, e), case.clone())),
        Ok(Ok(bytes)) => match walk(&bytes) {
            Err(e) => out.push(finding(format!("C10|{}|build|unwalkable", mn), format!("output {} does not walk: {:?}", hex(&bytes), e), case.clone())),
            Ok(w) => match w.records.first() {
                None => out.push(finding(format!("C10|{}|build|no-record", mn), "no record written".to_string(), case.clone())),
                Some(r0) => {
                    if r0.rtype != code {
                        out.push(finding(format!("C10|{}|build|type-code", mn), format!("{} written under type code {} (IANA {})", mn, r0.rtype, code), case.clone()));
                    }
                    let got = &bytes[r0.rdata_start..r0.rdata_end().min(bytes.len())];
                    if got != &enc[..] {
                        // RDLENGTH problems are reported separately so that the layout verdict stays sharp
                        let natural = &bytes[r0.rdata_start..(r0.rdata_start + enc.len()).min(bytes.len())];
                        let which = if natural == &enc[..] { "rdlength" } else { "layout" };
                        out.push(finding(
                            format!("C10|{}|build|{}", mn, which),
                            format!("{} built as {} (RDLENGTH {}), RFC encoding {}", mn, crate::engine::truncate(&hex(got), 200), r0.rdlen, crate::engine::truncate(&hex(&enc), 200)),
                            case.clone(),
                        ));
                    }
                }
            },
        },
    }
    // (b') the compressing serialiser must carry the same fields in the same order
    let r = guarded(|| to_lib(&p).and_then(|l| l.build_bytes_vec_compressed().map_err(|e| format!("{:?}", e))));
    match r {
        Err(pn) => out.push(finding(format!("C10|{}|build-compressed|{}", mn, pn.sig()), format!("{:?}", pn), case.clone())),
        Ok(Err(e)) => out.push(finding(format!("C10|{}|build-compressed|error", mn), e, case.clone())),
        Ok(Ok(bytes)) => match decode_packet(&bytes) {
            Err(e) => out.push(finding(format!("C10|{}|build-compressed|undecodable", mn), format!("{:?}: {}", e, crate::engine::truncate(&hex(&bytes), 300)), case.clone())),
            Ok((d, _)) => {
                for (tag, det) in diff(&p, &d) {
                    out.push(finding(format!("C10|{}|build-compressed|{}", mn, tag), format!("compressed build decodes differently: {}", det), case.clone()));
                }
            }
        },
    }
    out
}

fn field_name(sch: &TypeSchema, val_index: usize) -> &'static str {
    sch.fields.iter().filter(|(_, k)| *k != Kind::GwType).nth(val_index).map(|f| f.0).unwrap_or("?")
}

/// RDATA bytes that break a structural rule: must be rejected (Err), with and without a
/// trailing record.
pub fn check_reject(code: u16, rdata: &[u8], rule: &str) -> Vec<Finding> {
    let case = json!({"kind": "reject", "code": code, "rdata": hex(rdata), "rule": rule});
    let mn = schema::schema(code).map(|s| s.mnemonic).unwrap_or("?");
    let mut out = Vec::new();
    for trailing in [false, true] {
        let mut msg = vec![0x0a, 0x0b, 0x84, 0x00, 0, 0, 0, if trailing { 2 } else { 1 }, 0, 0, 0, 0];
        msg.extend_from_slice(&[1, b'r', 0]);
        msg.extend_from_slice(&code.to_be_bytes());
        msg.extend_from_slice(&[0, 1, 0, 0, 0, 60]);
        msg.extend_from_slice(&(rdata.len() as u16).to_be_bytes());
        msg.extend_from_slice(rdata);
        if trailing {
            msg.extend_from_slice(&[1, b't', 0, 0, 1, 0, 1, 0, 0, 0, 60, 0, 4, 192, 168, 0, 1]);
        }
        let r = guarded(|| Packet::parse(&msg).map(|x| observe(&x)));
        match r {
            Err(pn) => out.push(finding(format!("C10|{}|reject|{}", mn, pn.sig()), format!("{} {}: {:?}", mn, rule, pn), case.clone())),
            Ok(Ok(o)) => out.push(finding(
                format!("C10|{}|reject|{}-accepted", mn, rule),
                format!("{} RDATA {} breaks '{}' but was accepted as {:?}", mn, crate::engine::truncate(&hex(rdata), 120), rule, o.answers.first().map(|r| &r.rdata)),
                case.clone(),
            )),
            Ok(Err(_)) => {}
        }
    }
    out
}

/// positions (within the RDATA) of inner length fields: (offset of length, width, offset of data start)
fn inner_lengths(sch: &TypeSchema, vals: &[Val]) -> Vec<(usize, usize, usize)> {
    let mut out = Vec::new();
    let mut p = 0usize;
    let mut vi = 0usize;
    for (_, k) in sch.fields {
        if *k == Kind::GwType {
            p += 1;
            continue;
        }
        let v = &vals[vi];
        vi += 1;
        match v {
            Val::U8(_) => p += 1,
            Val::U16(_) => p += 2,
            Val::U24(_) => p += 3,
            Val::U32(_) | Val::I32(_) => p += 4,
            Val::U48(_) => p += 6,
            Val::Fixed(b) => p += b.0.len(),
            Val::Name(n) => p += n.wire_len(),
            Val::Str(s) => {
                out.push((p, 1, p + 1));
                p += 1 + s.0.len();
            }
            Val::Tail(t) => p += t.0.len(),
            Val::Strs(ss) => {
                for s in ss {
                    out.push((p, 1, p + 1));
                    p += 1 + s.0.len();
                }
            }
            Val::Params(ps) => {
                for (_, d) in ps {
                    out.push((p + 2, 2, p + 4));
                    p += 4 + d.0.len();
                }
            }
            Val::Windows(ws) => {
                for (_, d) in ws {
                    out.push((p + 1, 1, p + 2));
                    p += 2 + d.0.len();
                }
            }
            Val::Gateway(g) => {
                p += match g {
                    schema::Gw::None => 0,
                    schema::Gw::V4(_) => 4,
                    schema::Gw::V6(_) => 16,
                    schema::Gw::Domain(n) => n.wire_len(),
                }
            }
        }
    }
    out
}

fn seqs<T: Copy>(alpha: &[T], max: usize) -> Vec<Vec<T>> {
    let mut out: Vec<Vec<T>> = vec![vec![]];
    let mut frontier: Vec<Vec<T>> = vec![vec![]];
    for _ in 0..max {
        let mut next = Vec::new();
        for f in &frontier {
            for a in alpha {
                let mut x = f.clone();
                x.push(*a);
                next.push(x);
            }
        }
        out.extend(next.iter().cloned());
        frontier = next;
    }
    out
}

pub fn run(ctx: &Ctx) {
    let thorough = ctx.tier == crate::engine::Tier::Thorough;
    ctx.set_rule("per type: all value tuples with <= k deviations from byte-asymmetric defaults (k=2; full product when the schema has <= 3 fields, <= 4 with wider domains in the thorough tier), each parsed from its reference encoding (alone and followed by another record) and built through constructors, RDATA compared byte for byte; rejection families: LOC versions 1..=255, SVCB key sequences over {0,1,2}^<=3, NSEC window sequences over {0,1,2,255}^<=3, every inner length set one past the end of the RDATA. non-trivial = tuple differs from the defaults");
    ctx.assume("schemas transcribed from RFC 1035/1183/1706/1876/2782/3403/2230/4398/4034/4025/4701/6844/7043/8976/9460; validated at start-up against the 30 dnspython-generated sample records (must decode and re-encode byte for byte)");
    ctx.assume("outside the checked domain: ISDN without sub-address, NSAP other than the 20-octet layout, TXT with zero strings, NSEC bitmap lengths outside 1..=32 (the library's data model cannot express or does not police them)");
    match crate::refmodel::selfcheck_samples() {
        Ok((f, r)) => ctx.set_extra("reference_selfcheck", json!({"sample_files": f, "records": r, "result": "decode+re-encode byte-identical"})),
        Err(e) => {
            eprintln!("MACHINERY: reference model self-check failed: {}", e);
            std::process::exit(2);
        }
    }
    // value tuples
    let mut work: Vec<(u16, Vec<Val>)> = Vec::new();
    for sch in SCHEMAS {
        let mut tuples = gen::deviations(sch, 2, thorough);
        if schema::arity(sch) <= if thorough { 4 } else { 3 } {
            for t in gen::full_product(sch, thorough) {
                if !tuples.contains(&t) {
                    tuples.push(t);
                }
            }
        }
        for t in tuples {
            if gen::vals_wire_representable(sch, &t) && gen::vals_rfc_canonical(&t) {
                work.push((sch.code, t));
            }
        }
    }
    let chunks: Vec<&[(u16, Vec<Val>)]> = work.chunks(64).collect();
    par_shards(ctx, &chunks, |ws, t: &mut Tally| {
        for (code, vals) in ws.iter() {
            t.evals += 1;
            t.transitions += 3;
            if *vals != gen::default_vals(schema::schema(*code).unwrap()) {
                t.nontrivial += 1;
            }
            let f = check_values(*code, vals);
            t.outcome(if f.is_empty() { "agree" } else { "disagree" });
            if !f.is_empty() {
                ctx.violations(f);
            }
        }
    });
    ctx.space(&format!("value tuples over 39 typed schemas (<= 2 deviations over {} domains, full product for <= {} fields)", if thorough { "wide" } else { "boundary" }, if thorough { 4 } else { 3 }), work.len() as u64, "complete");
    for i in [0usize, work.len() / 3, work.len() / 2, work.len() - 1] {
        ctx.sample(json!({"kind": "values", "code": work[i].0, "vals": work[i].1}));
    }
    // every value of every 8/16-bit field, walking bits of wider ones, mid-range lengths and counts
    {
        let total = std::sync::atomic::AtomicU64::new(0);
        let schs: Vec<&'static schema::TypeSchema> = SCHEMAS.iter().collect();
        par_shards(ctx, &schs, |sch, t: &mut Tally| {
            let mut n = 0u64;
            let mut stride = 0u64;
            gen::field_sweep(sch, &mut |vals| {
                stride += 1;
                if !gen::vals_wire_representable(sch, vals) {
                    return;
                }
                n += 1;
                t.evals += 1;
                t.transitions += 4;
                t.nontrivial += 1;
                let f = check_values(sch.code, vals);
                if !f.is_empty() {
                    t.outcome("disagree");
                    ctx.violations(f);
                }
            });
            let _ = stride;
            total.fetch_add(n, std::sync::atomic::Ordering::Relaxed);
        });
        ctx.space("field sweep: every value of every 8-bit and 16-bit field, walking bits of 24/32/48-bit and fixed fields, mid-range string / tail / label lengths and list sizes", total.load(std::sync::atomic::Ordering::Relaxed), "complete");
    }
    // rejection families
    let mut t = Tally::default();
    let mut n = 0u64;
    // LOC version
    let loc = schema::schema(29).unwrap();
    for v in 1..=255u8 {
        let mut vals = gen::default_vals(loc);
        vals[0] = Val::U8(v);
        let mut enc = Vec::new();
        schema::encode_vals(loc, &vals, &mut enc);
        t.evals += 1;
        t.nontrivial += 1;
        n += 1;
        ctx.violations(check_reject(29, &enc, "loc-version"));
    }
    // SVCB / HTTPS key order
    for code in [64u16, 65] {
        let sch = schema::schema(code).unwrap();
        for ks in seqs(&[0u16, 1, 2], 3) {
            let increasing = ks.windows(2).all(|w| w[0] < w[1]);
            let vals = vec![Val::U16(1), Val::Name(crate::refmodel::RefName::txt("svc.example")), Val::Params(ks.iter().map(|k| (*k, B(vec![*k as u8]))).collect())];
            let mut enc = Vec::new();
            schema::encode_vals(sch, &vals, &mut enc);
            t.evals += 1;
            n += 1;
            if increasing {
                ctx.violations(check_values(code, &vals));
            } else {
                t.nontrivial += 1;
                ctx.violations(check_reject(code, &enc, "svcb-order"));
            }
        }
    }
    // NSEC window order
    let nsec = schema::schema(47).unwrap();
    for ws in seqs(&[0u8, 1, 2, 255], 3) {
        let increasing = ws.windows(2).all(|w| w[0] < w[1]);
        let vals = vec![Val::Name(crate::refmodel::RefName::txt("next.example")), Val::Windows(ws.iter().map(|w| (*w, B(vec![0x40, *w]))).collect())];
        let mut enc = Vec::new();
        schema::encode_vals(nsec, &vals, &mut enc);
        t.evals += 1;
        n += 1;
        if increasing {
            ctx.violations(check_values(47, &vals));
        } else {
            t.nontrivial += 1;
            ctx.violations(check_reject(47, &enc, "nsec-order"));
        }
    }
    // inner lengths one past the end
    for sch in SCHEMAS {
        for vals in gen::deviations(sch, 1, false) {
            if !gen::vals_wire_representable(sch, &vals) {
                continue;
            }
            let mut enc = Vec::new();
            schema::encode_vals(sch, &vals, &mut enc);
            for (lp, width, ds) in inner_lengths(sch, &vals) {
                let over = enc.len() - ds + 1;
                let mut x = enc.clone();
                if width == 1 {
                    if over > 255 {
                        continue;
                    }
                    x[lp] = over as u8;
                } else {
                    if over > 65535 {
                        continue;
                    }
                    x[lp..lp + 2].copy_from_slice(&(over as u16).to_be_bytes());
                }
                t.evals += 1;
                t.nontrivial += 1;
                n += 1;
                ctx.violations(check_reject(sch.code, &x, "inner-length-overrun"));
            }
        }
    }
    t.outcome("reject-family");
    ctx.merge(t);
    ctx.space("rejection families: LOC version 1..=255; SVCB+HTTPS key sequences {0,1,2}^<=3; NSEC windows {0,1,2,255}^<=3; every inner length one past the RDATA end (each with and without a following record)", n, "complete");
    ctx.sample(json!({"kind": "reject", "code": 47, "rdata": "00000140000001ff", "rule": "nsec-order"}));
}

pub fn replay(case: &Value) -> Vec<Finding> {
    match case["kind"].as_str().unwrap_or("") {
        "values" => {
            let vals: Vec<Val> = serde_json::from_value(case["vals"].clone()).unwrap_or_default();
            check_values(case["code"].as_u64().unwrap_or(0) as u16, &vals)
        }
        "reject" => check_reject(
            case["code"].as_u64().unwrap_or(0) as u16,
            &crate::engine::unhex(case["rdata"].as_str().unwrap_or("")),
            case["rule"].as_str().unwrap_or(""),
        ),
        _ => vec![],
    }
}
