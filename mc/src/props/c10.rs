//! C10 — each record type's RDATA layout and type code follow its RFC.
//! For each of the typed variants: deviation-bounded product over an independent declarative
//! schema; parse(reference encoding) yields the values, build(values) yields the encoding byte
//! for byte under the IANA type code; rejection families for the structural rules.

use super::finding;
use crate::bind::*;
use crate::engine::{guarded, hex, par_shards, Ctx, Finding, Tally};
use crate::gen;
use crate::refmodel::packet::*;
use crate::refmodel::schema::{self, Kind, TypeSchema, Val, SCHEMAS};
use crate::refmodel::wire::walk;
use crate::refmodel::B;
use serde_json::{json, Value};
use simple_dns::Packet;

fn pkt_with(rec: RefRR, trailing: bool) -> RefPacket {
    let mut p = RefPacket { id: 0x0a0b, flags: F_QR | F_AA, ..Default::default() };
    p.answers.push(rec);
    if trailing {
        p.answers.push(rr("t.example", typed(1, vec![Val::U32(0xc0a80001)])));
    }
    p
}

pub fn check_values(code: u16, vals: &[Val]) -> Vec<Finding> {
    let case = json!({"kind": "values", "code": code, "vals": vals});
    let sch = match schema::schema(code) {
        Some(s) => s,
        None => return vec![],
    };
    let mut enc = Vec::new();
    schema::encode_vals(sch, vals, &mut enc);
    let rec = RefRR { name: crate::refmodel::RefName::txt("r.example"), class: 1, cache_flush: false, ttl: 0x0102_0304, rdata: typed(code, vals.to_vec()) };
    let mut out = Vec::new();
    let mn = sch.mnemonic;
    // (a) parse the canonical encoding
    for trailing in [false, true] {
        let p = pkt_with(rec.clone(), trailing);
        let msg = p.encode(0);
        let r = guarded(|| Packet::parse(&msg).map(|x| observe(&x)));
        match r {
            Err(pn) => out.push(finding(format!("C10|{}|parse|{}", mn, pn.sig()), format!("parse of canonical {} encoding {}: {:?}", mn, hex(&enc), pn), case.clone())),
            Ok(Err(e)) => out.push(finding(
                format!("C10|{}|parse|rejects-canonical", mn),
                format!("canonical {} RDATA {} rejected: {:?}", mn, crate::engine::truncate(&hex(&enc), 200), e),
                case.clone(),
            )),
            Ok(Ok(o)) => {
                if o != p {
                    let got = o.answers.first().map(|r| format!("{:?}", r.rdata)).unwrap_or_default();
                    let which = match o.answers.first() {
                        Some(r) if r.rdata.code() != code => "type-code".to_string(),
                        Some(RefRR { rdata: RefRData::Typed { vals: gv, .. }, .. }) if gv.len() == vals.len() => {
                            let idx: Vec<String> = gv.iter().zip(vals.iter()).enumerate().filter(|(_, (a, b))| a != b).map(|(i, _)| field_name(sch, i).to_string()).collect();
                            if idx.is_empty() {
                                "envelope".to_string()
                            } else {
                                format!("field-{}", idx.join("+"))
                            }
                        }
                        _ => "shape".to_string(),
                    };
                    out.push(finding(
                        format!("C10|{}|parse|{}", mn, which),
                        format!("canonical {} RDATA {} parsed as {} expected {:?}", mn, crate::engine::truncate(&hex(&enc), 200), crate::engine::truncate(&got, 400), vals),
                        case.clone(),
                    ));
                }
            }
        }
    }
    // (b) build from values
    let p = pkt_with(rec.clone(), true);
    let r = guarded(|| to_lib(&p).and_then(|l| l.build_bytes_vec().map_err(|e| format!("{:?}", e))));
    match r {
        Err(pn) => out.push(finding(format!("C10|{}|build|{}", mn, pn.sig()), format!("{:?}", pn), case.clone())),
        Ok(Err(e)) => out.push(finding(format!("C10|{}|build|error", mn), format!("building {} {:?} fails: {}", mn, vals, e), case.clone())),
        Ok(Ok(bytes)) => match walk(&bytes) {
            Err(e) => out.push(finding(format!("C10|{}|build|unwalkable", mn), format!("output {} does not walk: {:?}", hex(&bytes), e), case.clone())),
            Ok(w) => match w.records.first() {
                None => out.push(finding(format!("C10|{}|build|no-record", mn), "no record written".to_string(), case.clone())),
                Some(r0) => {
                    if r0.rtype != code {
                        out.push(finding(format!("C10|{}|build|type-code", mn), format!("{} written under type code {} (IANA {})", mn, r0.rtype, code), case.clone()));
                    }
                    let got = &bytes[r0.rdata_start..r0.rdata_end().min(bytes.len())];
                    if got != &enc[..] {
                        // RDLENGTH problems are reported separately so that the layout verdict stays sharp
                        let natural = &bytes[r0.rdata_start..(r0.rdata_start + enc.len()).min(bytes.len())];
                        let which = if natural == &enc[..] { "rdlength" } else { "layout" };
                        out.push(finding(
                            format!("C10|{}|build|{}", mn, which),
                            format!("{} built as {} (RDLENGTH {}), RFC encoding {}", mn, crate::engine::truncate(&hex(got), 200), r0.rdlen, crate::engine::truncate(&hex(&enc), 200)),
                            case.clone(),
                        ));
                    }
                }
            },
        },
    }
    // (b'') writers that take only part of what they are offered (per write call, and in a
    // gathered write): the same bytes as the vector build
    {
        let r = guarded(|| -> Result<Vec<(String, String)>, String> {
            let l = to_lib(&p)?;
            let want = l.build_bytes_vec().map_err(|e| format!("{:?}", e))?;
            let mut bad = Vec::new();
            for n in [1usize, 15] {
                let mut w = crate::engine::Drip::new(n);
                let res = l.write_to(&mut w);
                let got = w.buf.into_inner();
                if res.is_err() || got != want {
                    bad.push(("drip-writer".to_string(), format!("a writer accepting {} bytes per call: result {:?}, {} bytes written, the vector build has {}; first difference at {:?}", n, res.map_err(|e| format!("{:?}", e)), got.len(), want.len(), got.iter().zip(want.iter()).position(|(a, b)| a != b))));
                }
            }
            for n in [5usize, 21] {
                let mut w = crate::engine::Gather::new(n);
                let res = l.write_to(&mut w);
                let got = w.buf.into_inner();
                if res.is_err() || got != want {
                    bad.push(("gather-writer".to_string(), format!("a writer with a gathered write limited to {} bytes per call: result {:?}, {} bytes written, the vector build has {}; first difference at {:?}", n, res.map_err(|e| format!("{:?}", e)), got.len(), want.len(), got.iter().zip(want.iter()).position(|(a, b)| a != b))));
                }
            }
            Ok(bad)
        });
        match r {
            Err(pn) => out.push(finding(format!("C10|{}|writer|{}", mn, pn.sig()), format!("{:?}", pn), case.clone())),
            Ok(Err(_)) => {}
            Ok(Ok(bad)) => {
                for (t, d) in bad {
                    out.push(finding(format!("C10|{}|build|{}", mn, t), d, case.clone()));
                }
            }
        }
    }
    // (b') the compressing serialiser must carry the same fields in the same order
    let r = guarded(|| to_lib(&p).and_then(|l| l.build_bytes_vec_compressed().map_err(|e| format!("{:?}", e))));
    match r {
        Err(pn) => out.push(finding(format!("C10|{}|build-compressed|{}", mn, pn.sig()), format!("{:?}", pn), case.clone())),
        Ok(Err(e)) => out.push(finding(format!("C10|{}|build-compressed|error", mn), e, case.clone())),
        Ok(Ok(bytes)) => match decode_packet(&bytes) {
            Err(e) => out.push(finding(format!("C10|{}|build-compressed|undecodable", mn), format!("{:?}: {}", e, crate::engine::truncate(&hex(&bytes), 300)), case.clone())),
            Ok((d, _)) => {
                for (tag, det) in diff(&p, &d) {
                    out.push(finding(format!("C10|{}|build-compressed|{}", mn, tag), format!("compressed build decodes differently: {}", det), case.clone()));
                }
            }
        },
    }
    // (b'') layout of a type whose names must not be compressed (RFC 3597 section 4): when every
    // name inside the RDATA has appeared earlier in the message, the compressing serialiser still
    // emits RDLENGTH + RDATA exactly as the uncompressed RFC encoding has them
    let names: Vec<(&crate::refmodel::RefName, schema::Comp)> = vals
        .iter()
        .zip(sch.fields.iter().filter(|(_, k)| !matches!(k, schema::Kind::GwType)))
        .filter_map(|(v, (_, k))| match (v, k) {
            (Val::Name(n), schema::Kind::Name(c)) => Some((n, *c)),
            _ => None,
        })
        .collect();
    if !names.is_empty() && names.iter().all(|(_, c)| matches!(c, schema::Comp::Never)) && names.iter().any(|(n, _)| !n.0.is_empty()) {
        let mut p2 = RefPacket { id: 0x0a0b, flags: F_QR | F_AA, ..Default::default() };
        for (n, _) in &names {
            // the name itself and its parent are both on the wire before the record
            p2.questions.push(RefQ { name: (*n).clone(), qtype: 1, qclass: 1, unicast: false });
        }
        let mut r2 = rec.clone();
        if let Some((n, _)) = names.iter().find(|(n, _)| n.0.len() > 1) {
            let mut owner = vec![crate::gen::b(b"host")];
            owner.extend(n.0[1..].iter().cloned());
            if owner.iter().map(|l| l.0.len() + 1).sum::<usize>() + 1 <= 255 {
                r2.name = crate::refmodel::RefName(owner);
            }
        }
        p2.answers.push(r2);
        let mut want = (enc.len() as u16).to_be_bytes().to_vec();
        want.extend_from_slice(&enc);
        let r = guarded(|| to_lib(&p2).and_then(|l| l.build_bytes_vec_compressed().map_err(|e| format!("{:?}", e))));
        match r {
            Err(pn) => out.push(finding(format!("C10|{}|build-compressed-shared|{}", mn, pn.sig()), format!("{:?}", pn), case.clone())),
            Ok(Err(e)) => {
                // a name that cannot be a question name is the caller's error, not a layout matter
                let _ = e;
            }
            Ok(Ok(bytes)) => {
                if enc.len() <= 65535 && !bytes.windows(want.len()).any(|w| w == &want[..]) {
                    out.push(finding(
                        format!("C10|{}|build-compressed-shared|rdata-not-verbatim", mn),
                        format!(
                            "{} names must be written in full: after the same names in the question section the compressed build {} does not contain RDLENGTH+RDATA {} of the RFC encoding",
                            mn,
                            crate::engine::truncate(&hex(&bytes), 400),
                            crate::engine::truncate(&hex(&want), 200)
                        ),
                        case.clone(),
                    ));
                }
            }
        }
    }
    out
}

fn field_name(sch: &TypeSchema, val_index: usize) -> &'static str {
    sch.fields.iter().filter(|(_, k)| *k != Kind::GwType).nth(val_index).map(|f| f.0).unwrap_or("?")
}

/// RDATA bytes that break a structural rule: must be rejected (Err), with and without a
/// trailing record.
pub fn check_reject(code: u16, rdata: &[u8], rule: &str) -> Vec<Finding> {
    let case = json!({"kind": "reject", "code": code, "rdata": hex(rdata), "rule": rule});
    let mn = schema::schema(code).map(|s| s.mnemonic).unwrap_or("?");
    let mut out = Vec::new();
    for trailing in [false, true] {
        let mut msg = vec![0x0a, 0x0b, 0x84, 0x00, 0, 0, 0, if trailing { 2 } else { 1 }, 0, 0, 0, 0];
        msg.extend_from_slice(&[1, b'r', 0]);
        msg.extend_from_slice(&code.to_be_bytes());
        msg.extend_from_slice(&[0, 1, 0, 0, 0, 60]);
        msg.extend_from_slice(&(rdata.len() as u16).to_be_bytes());
        msg.extend_from_slice(rdata);
        if trailing {
            msg.extend_from_slice(&[1, b't', 0, 0, 1, 0, 1, 0, 0, 0, 60, 0, 4, 192, 168, 0, 1]);
        }
        let r = guarded(|| Packet::parse(&msg).map(|x| observe(&x)));
        match r {
            Err(pn) => out.push(finding(format!("C10|{}|reject|{}", mn, pn.sig()), format!("{} {}: {:?}", mn, rule, pn), case.clone())),
            Ok(Ok(o)) => out.push(finding(
                format!("C10|{}|reject|{}-accepted", mn, rule),
                format!("{} RDATA {} breaks '{}' but was accepted as {:?}", mn, crate::engine::truncate(&hex(rdata), 120), rule, o.answers.first().map(|r| &r.rdata)),
                case.clone(),
            )),
            Ok(Err(_)) => {}
        }
    }
    out
}

/// positions (within the RDATA) of inner length fields: (offset of length, width, offset of data start)
fn inner_lengths(sch: &TypeSchema, vals: &[Val]) -> Vec<(usize, usize, usize)> {
    let mut out = Vec::new();
    let mut p = 0usize;
    let mut vi = 0usize;
    for (_, k) in sch.fields {
        if *k == Kind::GwType {
            p += 1;
            continue;
        }
        let v = &vals[vi];
        vi += 1;
        match v {
            Val::U8(_) => p += 1,
            Val::U16(_) => p += 2,
            Val::U24(_) => p += 3,
            Val::U32(_) | Val::I32(_) => p += 4,
            Val::U48(_) => p += 6,
            Val::Fixed(b) => p += b.0.len(),
            Val::Name(n) => p += n.wire_len(),
            Val::Str(s) => {
                out.push((p, 1, p + 1));
                p += 1 + s.0.len();
            }
            Val::Tail(t) => p += t.0.len(),
            Val::Strs(ss) => {
                for s in ss {
                    out.push((p, 1, p + 1));
                    p += 1 + s.0.len();
                }
            }
            Val::Params(ps) => {
                for (_, d) in ps {
                    out.push((p + 2, 2, p + 4));
                    p += 4 + d.0.len();
                }
            }
            Val::Windows(ws) => {
                for (_, d) in ws {
                    out.push((p + 1, 1, p + 2));
                    p += 2 + d.0.len();
                }
            }
            Val::Gateway(g) => {
                p += match g {
                    schema::Gw::None => 0,
                    schema::Gw::V4(_) => 4,
                    schema::Gw::V6(_) => 16,
                    schema::Gw::Domain(n) => n.wire_len(),
                }
            }
        }
    }
    out
}

fn seqs<T: Copy>(alpha: &[T], max: usize) -> Vec<Vec<T>> {
    let mut out: Vec<Vec<T>> = vec![vec![]];
    let mut frontier: Vec<Vec<T>> = vec![vec![]];
    for _ in 0..max {
        let mut next = Vec::new();
        for f in &frontier {
            for a in alpha {
                let mut x = f.clone();
                x.push(*a);
                next.push(x);
            }
        }
        out.extend(next.iter().cloned());
        frontier = next;
    }
    out
}

pub fn run(ctx: &Ctx) {
    let thorough = ctx.tier == crate::engine::Tier::Thorough;
    ctx.set_rule("per type: all value tuples with <= k deviations from byte-asymmetric defaults (k=2; full product when the schema has <= 3 fields, <= 4 with wider domains in the thorough tier), each parsed from its reference encoding (alone and followed by another record) and built through constructors, RDATA compared byte for byte; for the types whose names must not be compressed (SRV, NAPTR, KX, RRSIG, NSEC, SVCB, HTTPS) each tuple is also built compressed behind questions that carry the same names, and RDLENGTH + RDATA must appear exactly as in the uncompressed RFC encoding; rejection families: LOC versions 1..=255, SVCB key sequences over {0,1,2}^<=3, NSEC window sequences over {0,1,2,255}^<=3, every inner length set one past the end of the RDATA. non-trivial = tuple differs from the defaults");
    ctx.assume("schemas transcribed from RFC 1035/1183/1706/1876/2782/3403/2230/4398/4034/4025/4701/6844/7043/8976/9460; validated at start-up against the 30 dnspython-generated sample records (must decode and re-encode byte for byte)");
    ctx.assume("outside the checked domain: ISDN without sub-address, NSAP other than the 20-octet layout, TXT with zero strings, NSEC bitmap lengths outside 1..=32 (the library's data model cannot express or does not police them)");
    match crate::refmodel::selfcheck_samples() {
        Ok((f, r)) => ctx.set_extra("reference_selfcheck", json!({"sample_files": f, "records": r, "result": "decode+re-encode byte-identical"})),
        Err(e) => {
            eprintln!("MACHINERY: reference model self-check failed: {}", e);
            std::process::exit(2);
        }
    }
    // value tuples
    let mut work: Vec<(u16, Vec<Val>)> = Vec::new();
    for sch in SCHEMAS {
        let mut tuples = gen::deviations(sch, 2, thorough);
        if schema::arity(sch) <= if thorough { 4 } else { 3 } {
            for t in gen::full_product(sch, thorough) {
                if !tuples.contains(&t) {
                    tuples.push(t);
                }
            }
        }
        for t in tuples {
            if gen::vals_wire_representable(sch, &t) && gen::vals_rfc_canonical(&t) {
                work.push((sch.code, t));
            }
        }
    }
    let chunks: Vec<&[(u16, Vec<Val>)]> = work.chunks(64).collect();
    par_shards(ctx, &chunks, |ws, t: &mut Tally| {
        for (code, vals) in ws.iter() {
            t.evals += 1;
            t.transitions += 3;
            if *vals != gen::default_vals(schema::schema(*code).unwrap()) {
                t.nontrivial += 1;
            }
            let f = check_values(*code, vals);
            t.outcome(if f.is_empty() { "agree" } else { "disagree" });
            if !f.is_empty() {
                ctx.violations(f);
            }
        }
    });
    ctx.space(&format!("value tuples over 39 typed schemas (<= 2 deviations over {} domains, full product for <= {} fields)", if thorough { "wide" } else { "boundary" }, if thorough { 4 } else { 3 }), work.len() as u64, "complete");
    for i in [0usize, work.len() / 3, work.len() / 2, work.len() - 1] {
        ctx.sample(json!({"kind": "values", "code": work[i].0, "vals": work[i].1}));
    }
    // every value of every 8/16-bit field, walking bits of wider ones, mid-range lengths and counts
    {
        let total = std::sync::atomic::AtomicU64::new(0);
        let schs: Vec<&'static schema::TypeSchema> = SCHEMAS.iter().collect();
        par_shards(ctx, &schs, |sch, t: &mut Tally| {
            let mut n = 0u64;
            let mut stride = 0u64;
            gen::field_sweep(sch, &mut |vals| {
                stride += 1;
                if !gen::vals_wire_representable(sch, vals) {
                    return;
                }
                n += 1;
                t.evals += 1;
                t.transitions += 4;
                t.nontrivial += 1;
                let f = check_values(sch.code, vals);
                if !f.is_empty() {
                    t.outcome("disagree");
                    ctx.violations(f);
                }
            });
            let _ = stride;
            total.fetch_add(n, std::sync::atomic::Ordering::Relaxed);
        });
        ctx.space("field sweep: every value of every 8-bit and 16-bit field, walking bits of 24/32/48-bit and fixed fields, mid-range string / tail / label lengths and list sizes", total.load(std::sync::atomic::Ordering::Relaxed), "complete");
    }
    {
        let pairs = gen::size_pair_records();
        let chunks: Vec<&[RefRR]> = pairs.chunks(128).collect();
        par_shards(ctx, &chunks, |rs, t: &mut Tally| {
            for r in rs.iter() {
                if let RefRData::Typed { code, vals } = &r.rdata {
                    t.evals += 1;
                    t.transitions += 4;
                    t.nontrivial += 1;
                    let f = check_values(*code, vals);
                    if !f.is_empty() {
                        t.outcome("disagree");
                        ctx.violations(f);
                    }
                }
            }
        });
        ctx.space("size pairs: for every schema, every pair of variable-size fields over a 15-step size ladder each", pairs.len() as u64, "complete");
    }
    // rejection families
    let mut t = Tally::default();
    let mut n = 0u64;
    // LOC version
    let loc = schema::schema(29).unwrap();
    for v in 1..=255u8 {
        let mut vals = gen::default_vals(loc);
        vals[0] = Val::U8(v);
        let mut enc = Vec::new();
        schema::encode_vals(loc, &vals, &mut enc);
        t.evals += 1;
        t.nontrivial += 1;
        n += 1;
        ctx.violations(check_reject(29, &enc, "loc-version"));
    }
    // SVCB / HTTPS key order
    for code in [64u16, 65] {
        let sch = schema::schema(code).unwrap();
        for ks in seqs(&[0u16, 1, 2], 3) {
            let increasing = ks.windows(2).all(|w| w[0] < w[1]);
            let vals = vec![Val::U16(1), Val::Name(crate::refmodel::RefName::txt("svc.example")), Val::Params(ks.iter().map(|k| (*k, B(vec![*k as u8]))).collect())];
            let mut enc = Vec::new();
            schema::encode_vals(sch, &vals, &mut enc);
            t.evals += 1;
            n += 1;
            if increasing {
                ctx.violations(check_values(code, &vals));
            } else {
                t.nontrivial += 1;
                ctx.violations(check_reject(code, &enc, "svcb-order"));
            }
        }
    }
    // NSEC window order
    let nsec = schema::schema(47).unwrap();
    for ws in seqs(&[0u8, 1, 2, 255], 3) {
        let increasing = ws.windows(2).all(|w| w[0] < w[1]);
        let vals = vec![Val::Name(crate::refmodel::RefName::txt("next.example")), Val::Windows(ws.iter().map(|w| (*w, B(vec![0x40, *w]))).collect())];
        let mut enc = Vec::new();
        schema::encode_vals(nsec, &vals, &mut enc);
        t.evals += 1;
        n += 1;
        if increasing {
            ctx.violations(check_values(47, &vals));
        } else {
            t.nontrivial += 1;
            ctx.violations(check_reject(47, &enc, "nsec-order"));
        }
    }
    // NSEC values held in memory in any window order: written in RFC order, nothing lost
    {
        let mut orders: Vec<Vec<u8>> = Vec::new();
        let alpha = [0u8, 1, 2, 255];
        for m in 1u8..16 {
            let set: Vec<u8> = alpha.iter().enumerate().filter(|(i, _)| m & (1 << i) != 0).map(|(_, w)| *w).collect();
            // every permutation of the subset
            let mut perm = set.clone();
            let k = perm.len();
            let mut c = vec![0usize; k];
            orders.push(perm.clone());
            let mut i = 0;
            while i < k {
                if c[i] < i {
                    if i % 2 == 0 {
                        perm.swap(0, i);
                    } else {
                        perm.swap(c[i], i);
                    }
                    orders.push(perm.clone());
                    c[i] += 1;
                    i = 0;
                } else {
                    c[i] = 0;
                    i += 1;
                }
            }
        }
        for nw in [36usize, 100, 128, 129, 254, 255, 256] {
            let asc: Vec<u8> = (0..nw).map(|w| w as u8).collect();
            let mut rev = asc.clone();
            rev.reverse();
            let mut rot = asc.clone();
            rot.rotate_left(1);
            let mut sw0 = asc.clone();
            sw0.swap(0, 1);
            let mut swl = asc.clone();
            swl.swap(nw - 2, nw - 1);
            let inter: Vec<u8> = asc.iter().copied().filter(|w| w % 2 == 0).chain(asc.iter().copied().filter(|w| w % 2 == 1)).collect();
            orders.extend([asc, rev, rot, sw0, swl, inter]);
        }
        for o in &orders {
            t.evals += 1;
            t.nontrivial += 1;
            n += 1;
            ctx.violations(check_nsec_order(o));
        }
    }
    // inner lengths one past the end
    for sch in SCHEMAS {
        for vals in gen::deviations(sch, 1, false) {
            if !gen::vals_wire_representable(sch, &vals) {
                continue;
            }
            let mut enc = Vec::new();
            schema::encode_vals(sch, &vals, &mut enc);
            for (lp, width, ds) in inner_lengths(sch, &vals) {
                let over = enc.len() - ds + 1;
                let mut x = enc.clone();
                if width == 1 {
                    if over > 255 {
                        continue;
                    }
                    x[lp] = over as u8;
                } else {
                    if over > 65535 {
                        continue;
                    }
                    x[lp..lp + 2].copy_from_slice(&(over as u16).to_be_bytes());
                }
                t.evals += 1;
                t.nontrivial += 1;
                n += 1;
                ctx.violations(check_reject(sch.code, &x, "inner-length-overrun"));
            }
        }
    }
    t.outcome("reject-family");
    ctx.merge(t);
    ctx.space("rejection families: LOC version 1..=255; SVCB+HTTPS key sequences {0,1,2}^<=3; NSEC windows {0,1,2,255}^<=3; every inner length one past the RDATA end (each with and without a following record)", n, "complete");
    ctx.sample(json!({"kind": "reject", "code": 47, "rdata": "00000140000001ff", "rule": "nsec-order"}));
    {
        let mut t = Tally::default();
        let (f, n) = check_conversions();
        t.evals += n;
        t.nontrivial += n;
        ctx.violations(f);
        ctx.merge(t);
        ctx.space("conversions: walking-bit EUI48 / EUI64 / IPv4 / IPv6 addresses through the From impls; Deref / DerefMut / From of the name-wrapping record types", n, "complete");
    }
    // OPT (type 41) RDATA: option triples, through the EDNS oracle of C09 (parse of the RFC
    // layout with every option list, build inspected by the independent walker)
    {
        let mut t = Tally::default();
        let mut n = 0u64;
        for (i, list) in super::c09::option_lists().into_iter().enumerate() {
            let p = RefPacket { id: i as u16, flags: F_QR, opt: Some(RefOpt { udp: 1232, version: 0, options: list }), ..Default::default() };
            for f in super::c09::check_parse(&p, 0).into_iter().chain(super::c09::check_build(&p)) {
                ctx.violation(Finding { sig: f.sig.replacen("C09|", "C10|OPT|", 1), ..f });
            }
            n += 1;
            t.evals += 1;
            t.nontrivial += 1;
        }
        ctx.merge(t);
        ctx.space("OPT RDATA: every option list of the EDNS family (codes {0,1,0xffff}, data lengths {0,1,2,300}, up to 3 options, empty options in every position) parsed from the RFC layout and built", n, "complete");
    }
    // typed SVCB / HTTPS setters in every order
    {
        let mut seqs: Vec<Vec<u8>> = Vec::new();
        let mut b: Vec<u8> = Vec::new();
        crate::engine::for_each_string_upto(&[0, 1, 2, 3, 4, 5, 6], ctx.tier.pick(4, 5), &mut b, &mut |x| seqs.push(x.to_vec()));
        let chunks: Vec<&[Vec<u8>]> = seqs.chunks(256).collect();
        par_shards(ctx, &chunks, |ss, t: &mut Tally| {
            for s in ss.iter() {
                for variant in 0..3usize {
                    for https in [false, true] {
                        t.evals += 1;
                        if !s.is_empty() {
                            t.nontrivial += 1;
                        }
                        let f = check_svcb_builders(s, variant, https);
                        if !f.is_empty() {
                            t.outcome("disagree");
                            ctx.violations(f);
                        }
                    }
                }
            }
        });
        ctx.space(&format!("SVCB/HTTPS typed setters: every sequence of <= {} calls over {{mandatory, alpn, no-default-alpn, port, ipv4hint, ipv6hint, arbitrary key}} (repeats replace) x 3 value variants x {{SVCB, HTTPS}}; RDATA compared with the RFC 9460 encoding and parsed back", ctx.tier.pick(4, 5)), seqs.len() as u64 * 6, "complete");
        ctx.sample(json!({"kind": "svcb-builders", "seq": [3, 1, 0], "variant": 1, "https": true}));
    }
}

/// Small conversions around the record types: EUI48 / EUI64 to byte arrays, address conversions of
/// A / AAAA, Deref / DerefMut / From of the name-wrapping record types.
/// An NSEC value held in memory with its windows in the given order: both serialisers must
/// write the RFC 4034 encoding (every window, increasing window numbers).
pub fn check_nsec_order(order: &[u8]) -> Vec<Finding> {
    let case = json!({"kind": "nsec-order", "order": order});
    let next = crate::refmodel::RefName::txt("next.example");
    let win = |w: u8| (w, B(vec![0x40 >> (w % 3), w | 1]));
    let unsorted = vec![Val::Name(next.clone()), Val::Windows(order.iter().map(|w| win(*w)).collect())];
    let mut s = order.to_vec();
    s.sort();
    let sorted = vec![Val::Name(next), Val::Windows(s.iter().map(|w| win(*w)).collect())];
    let mk = |vals: Vec<Val>| pkt_with(RefRR { name: crate::refmodel::RefName::txt("r.example"), class: 1, cache_flush: false, ttl: 77, rdata: typed(47, vals) }, true);
    let (pu, ps) = (mk(unsorted), mk(sorted));
    let want = ps.encode(0);
    let mut out = Vec::new();
    match guarded(|| to_lib(&pu).and_then(|l| l.build_bytes_vec().map_err(|e| format!("{:?}", e)))) {
        Err(pn) => out.push(finding(format!("C10|NSEC|memory-order|{}", pn.sig()), format!("{:?}", pn), case.clone())),
        Ok(Err(e)) => out.push(finding("C10|NSEC|memory-order|error", e, case.clone())),
        Ok(Ok(bytes)) => {
            if bytes != want {
                out.push(finding("C10|NSEC|memory-order|layout", format!("{} windows held in memory in the order {:?}...: written {} expected {}", order.len(), &order[..order.len().min(8)], crate::engine::truncate(&hex(&bytes), 300), crate::engine::truncate(&hex(&want), 300)), case.clone()));
            }
        }
    }
    match guarded(|| to_lib(&pu).and_then(|l| l.build_bytes_vec_compressed().map_err(|e| format!("{:?}", e)))) {
        Err(pn) => out.push(finding(format!("C10|NSEC|memory-order|compressed|{}", pn.sig()), format!("{:?}", pn), case.clone())),
        Ok(Err(e)) => out.push(finding("C10|NSEC|memory-order|compressed|error", e, case.clone())),
        Ok(Ok(bytes)) => match decode_packet(&bytes) {
            Err(e) => out.push(finding("C10|NSEC|memory-order|compressed|undecodable", format!("{:?}: {}", e, crate::engine::truncate(&hex(&bytes), 300)), case.clone())),
            Ok((d, _)) => {
                for (tag, det) in diff(&ps, &d) {
                    out.push(finding(format!("C10|NSEC|memory-order|compressed|{}", tag), format!("compressed build decodes differently: {}", crate::engine::truncate(&det, 600)), case.clone()));
                }
            }
        },
    }
    out
}

pub fn check_conversions() -> (Vec<Finding>, u64) {
    use simple_dns::rdata::{A, AAAA, CNAME, EUI48, EUI64, NS, PTR};
    use simple_dns::Name;
    let case = json!({"kind": "conversions"});
    let r = guarded(|| {
        let mut bad: Vec<(String, String)> = Vec::new();
        let mut n = 0u64;
        for bit in 0..64usize {
            n += 1;
            let mut a8 = [0u8; 8];
            a8[bit / 8] = 0x80 >> (bit % 8);
            let back: [u8; 8] = EUI64 { address: a8 }.into();
            if back != a8 {
                bad.push(("eui64-into-array".into(), format!("{:?} -> {:?}", a8, back)));
            }
            if bit < 48 {
                let mut a6 = [0u8; 6];
                a6[bit / 8] = 0x80 >> (bit % 8);
                let back: [u8; 6] = EUI48 { address: a6 }.into();
                if back != a6 {
                    bad.push(("eui48-into-array".into(), format!("{:?} -> {:?}", a6, back)));
                }
            }
            if bit < 32 {
                let v = 1u32 << bit;
                let a = A::from(std::net::Ipv4Addr::from(v));
                if a.address != v {
                    bad.push(("a-from-ipv4".into(), format!("{:#x} -> {:#x}", v, a.address)));
                }
            }
            let v = 1u128 << (bit * 2);
            let a = AAAA::from(std::net::Ipv6Addr::from(v));
            if a.address != v {
                bad.push(("aaaa-from-ipv6".into(), format!("{:#x} -> {:#x}", v, a.address)));
            }
        }
        let n1 = Name::new_unchecked("a.example");
        let n2 = Name::new_unchecked("other.example");
        macro_rules! wrapper {
            ($t:ident) => {{
                n += 1;
                let mut w = $t(n1.clone());
                let via_from: $t = n1.clone().into();
                if *w != n1 || via_from != w {
                    bad.push((format!("wrapper-deref-{}", stringify!($t)), "Deref / From give another name".to_string()));
                }
                *w = n2.clone();
                if w.0 != n2 {
                    bad.push((format!("wrapper-deref-mut-{}", stringify!($t)), "DerefMut does not write the wrapped name".to_string()));
                }
            }};
        }
        wrapper!(NS);
        wrapper!(CNAME);
        wrapper!(PTR);
        (bad, n)
    });
    match r {
        Err(pn) => (vec![finding(format!("C10|conversions|{}", pn.sig()), format!("{:?}", pn), case)], 0),
        Ok((bad, n)) => (bad.into_iter().map(|(t, d)| finding(format!("C10|conversions|{}", t), d, case.clone())).collect(), n),
    }
}

/// SVCB / HTTPS built through the typed setters (mandatory, alpn, no-default-alpn, port, ipv4hint,
/// ipv6hint, arbitrary key) called in the given order; the RDATA written must be the RFC 9460
/// encoding: priority, target in full, parameters in increasing key order, each value in its
/// presentation-independent wire form. A setter called twice replaces the earlier value.
pub fn check_svcb_builders(seq: &[u8], variant: usize, https: bool) -> Vec<Finding> {
    use simple_dns::rdata::{RData, HTTPS, SVCB};
    use simple_dns::{CharacterString, Name, ResourceRecord, CLASS};
    let case = json!({"kind": "svcb-builders", "seq": seq, "variant": variant, "https": https});
    let mand: [&[u16]; 3] = [&[1], &[1, 3], &[1, 3, 4, 6]];
    let alpn: [&[&str]; 3] = [&["h2"], &["h2", "h3"], &["http/1.1", "h2", "x"]];
    let ports = [0u16, 443, 0xfffe];
    let v4: [&[u32]; 3] = [&[0xc0000201], &[0xc0000201, 0x0a000001], &[1, 2, 3]];
    let v6: [&[u128]; 3] = [&[1], &[0x2001_0db8_0000_0000_0000_0000_0000_0001, 0xfe80 << 112], &[u128::MAX]];
    let custom: [(u16, &[u8]); 3] = [(7, b"/dns-query{?dns}"), (65280, b""), (5, &[0, 1, 2])];
    let mut expect: std::collections::BTreeMap<u16, Vec<u8>> = std::collections::BTreeMap::new();
    let r = guarded(|| -> Result<Vec<u8>, String> {
        let mut s = SVCB::new(1 + variant as u16, Name::new_unchecked("svc.example"));
        for (step, id) in seq.iter().enumerate() {
            let v = (variant + step) % 3;
            match id {
                0 => s.set_mandatory(mand[v].iter().copied()).map_err(|e| format!("{:?}", e))?,
                1 => s.set_alpn(alpn[v].iter().map(|a| CharacterString::new(a.as_bytes()).unwrap())).map_err(|e| format!("{:?}", e))?,
                2 => s.set_no_default_alpn(),
                3 => s.set_port(ports[v]),
                4 => s.set_ipv4hint(v4[v].iter().copied()).map_err(|e| format!("{:?}", e))?,
                5 => s.set_ipv6hint(v6[v].iter().copied()).map_err(|e| format!("{:?}", e))?,
                _ => s.set_param(custom[v].0, custom[v].1).map_err(|e| format!("{:?}", e))?,
            }
        }
        let rdata = if https { RData::HTTPS(HTTPS(s)) } else { RData::SVCB(s) };
        let mut p = Packet::new_reply(1);
        p.answers.push(ResourceRecord::new(Name::new_unchecked("r.example"), CLASS::IN, 9, rdata));
        p.build_bytes_vec().map_err(|e| format!("{:?}", e))
    });
    for (step, id) in seq.iter().enumerate() {
        let v = (variant + step) % 3;
        match id {
            0 => {
                expect.insert(0, mand[v].iter().flat_map(|k| k.to_be_bytes()).collect());
            }
            1 => {
                let mut e = Vec::new();
                for a in alpn[v] {
                    e.push(a.len() as u8);
                    e.extend_from_slice(a.as_bytes());
                }
                expect.insert(1, e);
            }
            2 => {
                expect.insert(2, vec![]);
            }
            3 => {
                expect.insert(3, ports[v].to_be_bytes().to_vec());
            }
            4 => {
                expect.insert(4, v4[v].iter().flat_map(|k| k.to_be_bytes()).collect());
            }
            5 => {
                expect.insert(6, v6[v].iter().flat_map(|k| k.to_be_bytes()).collect());
            }
            _ => {
                expect.insert(custom[v].0, custom[v].1.to_vec());
            }
        }
    }
    let mut want: Vec<u8> = (1 + variant as u16).to_be_bytes().to_vec();
    want.extend_from_slice(b"\x03svc\x07example\x00");
    for (k, v) in &expect {
        want.extend_from_slice(&k.to_be_bytes());
        want.extend_from_slice(&(v.len() as u16).to_be_bytes());
        want.extend_from_slice(v);
    }
    let code = if https { 65 } else { 64 };
    match r {
        Err(pn) => vec![finding(format!("C10|svcb-builders|{}", pn.sig()), format!("{:?}", pn), case)],
        Ok(Err(e)) => vec![finding("C10|svcb-builders|error", format!("setters {:?}: {}", seq, e), case)],
        Ok(Ok(bytes)) => match walk(&bytes) {
            Err(e) => vec![finding("C10|svcb-builders|unwalkable", format!("{:?}", e), case)],
            Ok(w) => match w.records.first() {
                None => vec![finding("C10|svcb-builders|no-record", "no record written".to_string(), case)],
                Some(r0) => {
                    let got = &bytes[r0.rdata_start..r0.rdata_end()];
                    let mut out = Vec::new();
                    if r0.rtype != code {
                        out.push(finding("C10|svcb-builders|type-code", format!("written under type {}", r0.rtype), case.clone()));
                    }
                    if got != &want[..] {
                        out.push(finding("C10|svcb-builders|rdata", format!("setters {:?} (variant {}): RDATA {} expected {}", seq, variant, hex(got), hex(&want)), case.clone()));
                    }
                    // and what was built parses back to the same parameters
                    match guarded(|| Packet::parse(&bytes).map(|p| observe(&p))) {
                        Ok(Ok(o)) => {
                            let exp_params: Vec<(u16, B)> = expect.iter().map(|(k, v)| (*k, B(v.clone()))).collect();
                            match o.answers.first().map(|r| &r.rdata) {
                                Some(RefRData::Typed { vals, .. }) if vals.get(2) == Some(&Val::Params(exp_params.clone())) => {}
                                other => out.push(finding("C10|svcb-builders|reparse", format!("parsed back as {:?}, expected params {:?}", other, exp_params), case.clone())),
                            }
                        }
                        Ok(Err(e)) => out.push(finding("C10|svcb-builders|reparse-error", format!("{:?}", e), case.clone())),
                        Err(pn) => out.push(finding(format!("C10|svcb-builders|reparse|{}", pn.sig()), format!("{:?}", pn), case.clone())),
                    }
                    out
                }
            },
        },
    }
}

pub fn replay(case: &Value) -> Vec<Finding> {
    match case["kind"].as_str().unwrap_or("") {
        "conversions" => check_conversions().0,
        "nsec-order" => check_nsec_order(&case["order"].as_array().map(|a| a.iter().filter_map(|x| x.as_u64().map(|v| v as u8)).collect::<Vec<u8>>()).unwrap_or_default()),
        "build" | "parse" => match serde_json::from_value::<RefPacket>(case["packet"].clone()) {
            Ok(p) => {
                let fs = if case["kind"].as_str() == Some("build") { super::c09::check_build(&p) } else { super::c09::check_parse(&p, case["opt_pos"].as_u64().unwrap_or(0) as usize) };
                fs.into_iter().map(|f| Finding { sig: f.sig.replacen("C09|", "C10|OPT|", 1), ..f }).collect()
            }
            Err(_) => vec![],
        },
        "svcb-builders" => {
            let seq: Vec<u8> = case["seq"].as_array().map(|a| a.iter().filter_map(|x| x.as_u64().map(|v| v as u8)).collect()).unwrap_or_default();
            check_svcb_builders(&seq, case["variant"].as_u64().unwrap_or(0) as usize, case["https"].as_bool().unwrap_or(false))
        }
        "values" => {
            let vals: Vec<Val> = serde_json::from_value(case["vals"].clone()).unwrap_or_default();
            check_values(case["code"].as_u64().unwrap_or(0) as u16, &vals)
        }
        "reject" => check_reject(
            case["code"].as_u64().unwrap_or(0) as u16,
            &crate::engine::unhex(case["rdata"].as_str().unwrap_or("")),
            case["rule"].as_str().unwrap_or(""),
        ),
        _ => vec![],
    }
}
