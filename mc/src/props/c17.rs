//! C17 — textual name API: validation, display and suffix algebra.
//! Bounded-exhaustive over all strings up to length L over {a,A,1,-,_,.,\,é}, label lengths
//! 0..=70, encoded name lengths 250..=258, all pairs of names with <=4 labels over {a,b}, and all
//! case variants / near misses of "local".

use super::finding;
use crate::engine::{guarded, par_shards, Ctx, Finding, Tally};
use serde_json::{json, Value};
use simple_dns::{Label, Name};

const ALPHA: [&str; 8] = ["a", "A", "1", "-", "_", ".", "\\", "é"];

fn label_ok(l: &[u8]) -> bool {
    if l.is_empty() || l.len() > 63 {
        return false;
    }
    let alnum = |c: u8| c.is_ascii_alphabetic() || c.is_ascii_digit();
    let first = l[0];
    let last = l[l.len() - 1];
    (alnum(first) || first == b'_') && alnum(last) && l[1..].iter().all(|&c| alnum(c) || c == b'-' || c == b'_')
}

/// reference: split at dots, drop empty labels, each label valid, encoded length <= 255
fn ref_name(s: &str) -> Result<Vec<Vec<u8>>, &'static str> {
    let labels: Vec<Vec<u8>> = s.as_bytes().split(|c| *c == b'.').filter(|l| !l.is_empty()).map(|l| l.to_vec()).collect();
    for l in &labels {
        if !label_ok(l) {
            return Err("label");
        }
    }
    let enc: usize = labels.iter().map(|l| l.len() + 1).sum::<usize>() + 1;
    if enc > 255 {
        return Err("length");
    }
    Ok(labels)
}

pub fn check_text(s: &str) -> Vec<Finding> {
    let case = json!({"kind": "text", "s": s});
    let mut out = Vec::new();
    let exp = ref_name(s);
    let r = guarded(|| {
        let mut bad: Vec<(String, String)> = Vec::new();
        match (Name::new(s), &exp) {
            (Ok(n), Ok(labels)) => {
                let got: Vec<Vec<u8>> = n.get_labels().iter().map(|l| l.verif_bytes().to_vec()).collect();
                if &got != labels {
                    bad.push(("labels".into(), format!("Name::new({:?}) labels {:?} expected {:?}", s, got, labels)));
                }
                let shown = n.to_string();
                let want: String = labels.iter().map(|l| String::from_utf8_lossy(l).to_string()).collect::<Vec<_>>().join(".");
                if shown != want {
                    bad.push(("display".into(), format!("to_string {:?} expected {:?}", shown, want)));
                }
                match Name::new(&shown) {
                    Ok(n2) => {
                        if n2 != n {
                            bad.push(("recreate".into(), format!("Name::new(to_string) != original for {:?}", s)));
                        }
                    }
                    Err(e) => bad.push(("recreate".into(), format!("Name::new({:?}) (displayed form) fails: {:?}", shown, e))),
                }
            }
            (Err(_), Err(_)) => {}
            (Ok(_), Err(why)) => bad.push((format!("accepts-invalid-{}", why), format!("Name::new({:?}) accepted; grammar rejects ({})", s, why))),
            (Err(e), Ok(_)) => bad.push(("rejects-valid".into(), format!("Name::new({:?}) rejected with {:?}; grammar accepts", s, e))),
        }
        {
            use std::convert::TryFrom;
            let a = Name::new(s).ok();
            let b = Name::try_from(s).ok();
            if a.is_some() != b.is_some() || (a.is_some() && a != b) {
                bad.push(("try_from-disagrees".into(), format!("Name::try_from({:?}) and Name::new disagree", s)));
            }
        }
        // Label::new on the same text taken as a single label
        let lexp = label_ok(s.as_bytes());
        let lgot = Label::new(s.as_bytes()).is_ok();
        if lexp != lgot {
            bad.push(("label-new".into(), format!("Label::new({:?}) ok={} expected {}", s, lgot, lexp)));
        }
        bad
    });
    match r {
        Err(p) => out.push(finding(format!("C17|text|{}", p.sig()), format!("{:?} on {:?}", p, s), case)),
        Ok(bad) => {
            for (n, d) in bad {
                out.push(finding(format!("C17|text|{}", n), d, case.clone()));
            }
        }
    }
    out
}

fn names_upto(max_labels: usize) -> Vec<Vec<&'static str>> {
    let mut out: Vec<Vec<&'static str>> = vec![vec![]];
    let mut frontier: Vec<Vec<&'static str>> = vec![vec![]];
    for _ in 0..max_labels {
        let mut next = Vec::new();
        for f in &frontier {
            for l in ["a", "b"] {
                let mut x = f.clone();
                x.push(l);
                next.push(x);
            }
        }
        out.extend(next.iter().cloned());
        frontier = next;
    }
    out
}

fn mk(labels: &[&str]) -> Name<'static> {
    let ls: Vec<Label> = labels.iter().map(|l| Label::new_unchecked(l.as_bytes().to_vec())).collect();
    Name::new_with_labels(&ls)
}

pub fn check_pair(a: &[&str], b: &[&str]) -> Vec<Finding> {
    let case = json!({"kind": "pair", "a": a, "b": b});
    let mut out = Vec::new();
    let exp_sub = a.len() > b.len() && a[a.len() - b.len()..] == b[..];
    let r = guarded(|| {
        let (na, nb) = (mk(a), mk(b));
        let mut bad: Vec<(String, String)> = Vec::new();
        let sub = na.is_subdomain_of(&nb);
        if sub != exp_sub {
            bad.push(("is_subdomain_of".into(), format!("{:?}.is_subdomain_of({:?}) = {} expected {}", a, b, sub, exp_sub)));
        }
        let w = na.without(&nb);
        match (&w, exp_sub) {
            (Some(rest), true) => {
                let got: Vec<Vec<u8>> = rest.get_labels().iter().map(|l| l.verif_bytes().to_vec()).collect();
                let want: Vec<Vec<u8>> = a[..a.len() - b.len()].iter().map(|l| l.as_bytes().to_vec()).collect();
                if got != want {
                    bad.push(("without-labels".into(), format!("{:?}.without({:?}) = {:?} expected {:?}", a, b, got, want)));
                }
            }
            (None, false) => {}
            (Some(_), false) => bad.push(("without-some".into(), format!("{:?}.without({:?}) is Some but not a subdomain", a, b))),
            (None, true) => bad.push(("without-none".into(), format!("{:?}.without({:?}) is None but is a subdomain", a, b))),
        }
        // the From conversions build the same name as new_with_labels
        {
            let ls: Vec<Label> = a.iter().map(|l| Label::new_unchecked(l.as_bytes().to_vec())).collect();
            let from_slice = Name::from(&ls[..]);
            if from_slice != na || from_slice.to_string() != na.to_string() {
                bad.push(("from-slice".into(), format!("Name::from(&[Label]) of {:?} differs from new_with_labels", a)));
            }
            if a.len() == 2 {
                let arr = [Label::new_unchecked(a[0].as_bytes().to_vec()), Label::new_unchecked(a[1].as_bytes().to_vec())];
                let from_arr = Name::from(arr);
                if from_arr != na {
                    bad.push(("from-array".into(), format!("Name::from([Label; 2]) of {:?} differs from new_with_labels", a)));
                }
            }
        }
        let eq = na == nb;
        if eq != (a == b) {
            bad.push(("eq".into(), format!("{:?} == {:?} gives {}", a, b, eq)));
        }
        bad
    });
    match r {
        Err(p) => out.push(finding(format!("C17|pair|{}", p.sig()), format!("{:?}", p), case)),
        Ok(bad) => {
            for (n, d) in bad {
                out.push(finding(format!("C17|pair|{}", n), d, case.clone()));
            }
        }
    }
    out
}

/// Pairs in which the parent's first label has length L and the candidate's first label ends with
/// the byte L followed by the parent's first label: their wire encodings share a byte suffix that is
/// not aligned on a label boundary. Same label count, so never a subdomain.
pub fn check_wire_suffix(l: usize, extra_labels: usize) -> Vec<Finding> {
    let case = json!({"kind": "wire-suffix", "l": l, "extra": extra_labels});
    let r = guarded(|| {
        let tail: Vec<Vec<u8>> = (0..extra_labels).map(|i| vec![b'a' + i as u8; 3 + i]).collect();
        let parent_first = vec![b'a'; l];
        let mut cand_first = vec![b'b'];
        cand_first.push(l as u8);
        cand_first.extend_from_slice(&parent_first);
        let mk_name = |first: &Vec<u8>, lead: Option<&[u8]>| {
            let mut ls: Vec<Label> = Vec::new();
            if let Some(x) = lead {
                ls.push(Label::new_unchecked(x.to_vec()));
            }
            ls.push(Label::new_unchecked(first.clone()));
            for t in &tail {
                ls.push(Label::new_unchecked(t.clone()));
            }
            Name::new_with_labels(&ls)
        };
        let parent = mk_name(&parent_first, None);
        let cand = mk_name(&cand_first, None);
        let cand2 = mk_name(&cand_first, Some(b"www"));
        let mut bad: Vec<(String, String)> = Vec::new();
        if cand.is_subdomain_of(&parent) || cand.without(&parent).is_some() {
            bad.push(("wire-suffix-subdomain".into(), format!("label length {}: a name with the same number of labels is reported as a subdomain (its encoding merely ends with the parent's bytes)", l)));
        }
        if cand2.is_subdomain_of(&parent) || cand2.without(&parent).is_some() {
            bad.push(("wire-suffix-subdomain".into(), format!("label length {}: www.<label ending in the parent's bytes> is reported as a subdomain", l)));
        }
        if parent.is_subdomain_of(&cand) || cand == parent {
            bad.push(("wire-suffix-reverse".into(), "reverse relation wrong".into()));
        }
        // the true relations still hold
        let child = mk_name(&parent_first, Some(b"www"));
        if !child.is_subdomain_of(&parent) || child.without(&parent).map(|n| n.get_labels().len()) != Some(1) {
            bad.push(("true-subdomain-lost".into(), format!("label length {}: www.parent not recognised", l)));
        }
        bad
    });
    match r {
        Err(pn) => vec![finding(format!("C17|wire-suffix|{}", pn.sig()), format!("{:?}", pn), case)],
        Ok(bad) => bad.into_iter().map(|(t, d)| finding(format!("C17|pair|{}", t), d, case.clone())).collect(),
    }
}

pub fn check_local(labels: &[String]) -> Vec<Finding> {
    let case = json!({"kind": "local", "labels": labels});
    let exp = labels.last().map(|l| l.eq_ignore_ascii_case("local")).unwrap_or(false);
    let r = guarded(|| {
        let ls: Vec<Label> = labels.iter().map(|l| Label::new_unchecked(l.as_bytes().to_vec())).collect();
        Name::new_with_labels(&ls).is_link_local()
    });
    match r {
        Err(p) => vec![finding(format!("C17|local|{}", p.sig()), format!("{:?}", p), case)],
        Ok(g) if g != exp => vec![finding("C17|local|wrong", format!("is_link_local({:?}) = {} expected {}", labels, g, exp), case)],
        _ => vec![],
    }
}

/// label lengths: text made of one label of length n (and a 2-label variant)
pub fn check_lengths(lens: &[usize]) -> Vec<Finding> {
    let s: String = lens.iter().map(|n| "x".repeat(*n)).collect::<Vec<_>>().join(".");
    // the same labels written with a trailing dot, a leading dot and a doubled dot: empty labels
    // cost nothing on the wire, so the verdict must be the same
    let mut variants = vec![s.clone(), format!("{}.", s), format!(".{}", s), format!("{}..", s)];
    if let Some(i) = s.find('.') {
        variants.push(format!("{}.{}", &s[..i], &s[i..]));
    }
    let mut f = Vec::new();
    for (vi, v) in variants.iter().enumerate() {
        for mut x in check_text(v) {
            x.case = json!({"kind": "lengths", "lens": lens, "variant": vi});
            f.push(x);
        }
    }
    f
}

pub fn run(ctx: &Ctx) {
    let l = ctx.tier.pick(6usize, 7usize);
    ctx.set_rule("all strings of length <= L over {a,A,1,-,_,.,\\,é} through Name::new/Label::new/to_string; label lengths 0..=70; names with encoded length 245..=262; all pairs of names with <=4 labels over {a,b}; last label over all case variants and near misses of 'local'. non-trivial = the reference grammar accepts the text (or the pair is a true subdomain pair)");
    ctx.assume("grammar transcribed from the property statement: labels 1..=63 bytes, first [A-Za-z0-9_], inner [A-Za-z0-9_-], last [A-Za-z0-9], encoded name <= 255, letters are ASCII letters");
    // space 1: strings, sharded by the first two symbols
    let mut shards: Vec<String> = vec![String::new()];
    for a in ALPHA {
        shards.push(a.to_string());
        for b in ALPHA {
            shards.push(format!("{}{}", a, b));
        }
    }
    let total = std::sync::atomic::AtomicU64::new(0);
    par_shards(ctx, &shards, |prefix, t: &mut Tally| {
        let plen = prefix.chars().count();
        if plen < 2 {
            // the short prefixes themselves
            t.evals += 1;
            if ref_name(prefix).is_ok() {
                t.nontrivial += 1;
            }
            ctx.violations(check_text(prefix));
            total.fetch_add(1, std::sync::atomic::Ordering::Relaxed);
            return;
        }
        let mut stack: Vec<String> = vec![prefix.clone()];
        let mut n = 0u64;
        while let Some(s) = stack.pop() {
            t.evals += 1;
            n += 1;
            let ok = ref_name(&s).is_ok();
            if ok {
                t.nontrivial += 1;
            }
            let f = check_text(&s);
            if !f.is_empty() {
                ctx.violations(f);
            }
            if s.chars().count() < l {
                for a in ALPHA {
                    stack.push(format!("{}{}", s, a));
                }
            }
        }
        t.outcome("text");
        total.fetch_add(n, std::sync::atomic::Ordering::Relaxed);
    });
    ctx.space(&format!("all strings of length <= {} over 8 symbols", l), total.load(std::sync::atomic::Ordering::Relaxed), "complete");
    ctx.sample(json!({"kind": "text", "s": "a-.A_1"}));
    ctx.sample(json!({"kind": "text", "s": "_a..é"}));
    // space 2: label lengths and name lengths
    let mut t = Tally::default();
    let mut n = 0u64;
    for len in 0..=70usize {
        t.evals += 1;
        n += 1;
        if (1..=63).contains(&len) {
            t.nontrivial += 1;
        }
        ctx.violations(check_lengths(&[len]));
        ctx.violations(check_lengths(&[3, len]));
        ctx.violations(check_lengths(&[len, 3]));
    }
    for target in 245..=262usize {
        // encoded length = sum(len+1) + 1; build from 63-byte labels plus a remainder split in two
        for first in [63usize, 62, 1] {
            let mut lens = vec![first];
            let mut enc = first + 1 + 1;
            while target > enc + 64 {
                lens.push(63);
                enc += 64;
            }
            let rest = target - enc; // need labels summing (len+1) = rest
            if rest >= 2 {
                if rest - 1 <= 63 {
                    lens.push(rest - 1);
                } else {
                    lens.push(63);
                    let r2 = rest - 64;
                    if r2 >= 2 {
                        lens.push(r2 - 1);
                    } else {
                        continue;
                    }
                }
            } else if rest == 1 {
                continue;
            }
            t.evals += 1;
            n += 1;
            let e: usize = lens.iter().map(|x| x + 1).sum::<usize>() + 1;
            if e <= 255 {
                t.nontrivial += 1;
            }
            ctx.violations(check_lengths(&lens));
            if ctx.want_sample() && e == 255 {
                ctx.sample(json!({"kind": "lengths", "lens": lens, "encoded": e}));
            }
        }
    }
    t.outcome("lengths");
    ctx.space("label lengths 0..=70 (alone, as first and as last label) and encoded name lengths 245..=262", n, "complete");
    // space 2a': label counts: every count 1..=300 of short labels, alone and followed by one
    // longer / over-long label
    {
        let mut cases: Vec<Vec<usize>> = Vec::new();
        for count in 1..=300usize {
            for l in 1..=3usize {
                cases.push(vec![l; count]);
            }
            for last in [5usize, 63, 64] {
                let mut v = vec![1usize; count];
                v.push(last);
                cases.push(v);
            }
            let mut v = vec![1usize; count];
            v.insert(0, 64);
            cases.push(v);
        }
        let n3 = cases.len() as u64;
        par_shards(ctx, &cases, |lens, t: &mut Tally| {
            t.evals += 1;
            if lens.iter().map(|x| x + 1).sum::<usize>() + 1 <= 255 {
                t.nontrivial += 1;
            }
            let f = check_lengths(lens);
            t.outcome("lengths");
            if !f.is_empty() {
                ctx.violations(f);
            }
        });
        ctx.space("label counts: every count 1..=300 of 1-, 2- and 3-byte labels, and of 1-byte labels followed by a 5-, 63- or 64-byte label or preceded by a 64-byte one (5 dot placements each)", n3, "complete");
    }
    // space 2a'': texts that look like something else: every string of length <= 9 over
    // {0, 1, 9, '.'} (dotted quads and their neighbours), and well-known address and host literals
    {
        let mut texts: Vec<String> = Vec::new();
        let mut b = Vec::new();
        crate::engine::for_each_string_upto(b"019.", 9, &mut b, &mut |x| texts.push(String::from_utf8_lossy(x).to_string()));
        for s in [
            "127.0.0.1", "255.255.255.255", "0.0.0.0", "192.168.1.1", "10.0.0.1", "224.0.0.251", "1.2.3.4", "8.8.8.8", "169.254.1.1", "1.2.3.4.5", "1.2.3", "256.1.1.1", "01.1.1.1", "1.1.1.1.", "1.0.0.127.in-addr.arpa", "localhost",
            "localhost.localdomain", "0x7f.1", "1e3", "1e3.5", "0", "00", "-1", "4294967295", "18446744073709551615", "nan", "inf", "NaN", "true", "false", "null", "None", "a.b.c.d", "fe80", "ff02", "dead.beef", "0.0", "1.1",
            "com", "local", "example.com", "www.example.com", "_http._tcp.local", "xn--caf-dma.local", "xn--99999999", "1-2-3-4", "1_1", "a-", "-a", "a--b",
        ] {
            texts.push(s.to_string());
        }
        // names software knows (service instances, reverse zones, ...), as text, and the same with
        // a first label that contains a space / an escaped space / a capital / a trailing hyphen
        for n in crate::gen::dictionary_names(3) {
            let t: String = n.0.iter().map(|l| String::from_utf8_lossy(&l.0).to_string()).collect::<Vec<_>>().join(".");
            if !t.is_empty() {
                for first in ["My Printer", "Living Room TV", "a b", "a\\032b", "Ab", "a-", "a_b"] {
                    texts.push(format!("{}.{}", first, t));
                }
                texts.push(t);
            }
        }
        for first in ["My Printer", "a b", " a", "a ", "a  b"] {
            for svc in ["_ipp._tcp.local", "_ipp._TCP.local", "_x._udp.c", "_ipp._tcp", "_ipp._sctp.local", "ipp._tcp.local", "_http._tcp.example.com", "local"] {
                texts.push(format!("{}.{}", first, svc));
            }
        }
        let n4 = texts.len() as u64;
        let tchunks: Vec<&[String]> = texts.chunks(4096).collect();
        par_shards(ctx, &tchunks, |ts, t: &mut Tally| {
            for s in ts.iter() {
                t.evals += 1;
                if ref_name(s).is_ok() {
                    t.nontrivial += 1;
                }
                let f = check_text(s);
                t.outcome("text");
                if !f.is_empty() {
                    ctx.violations(f);
                }
            }
        });
        ctx.space("texts that look like something else: every string of length <= 9 over {0, 1, 9, '.'} (dotted quads and their neighbours), 60 well-known address, number, keyword and host literals, every dictionary name of <= 3 labels alone and behind 7 first labels (with a space, an escape, a capital, a trailing hyphen, an underscore), instance-like first labels in front of 8 service suffixes", n4, "complete");
    }
    // space 2b: character class x position x length: every label length 0..=70 with every
    // combination of first / interior / last character class, alone and inside a longer name
    {
        let classes: [char; 5] = ['a', '7', '_', '-', 'Z'];
        let mut n2 = 0u64;
        for len in 0..=70usize {
            for first in classes {
                for mid in classes {
                    for last in classes {
                        let label: String = (0..len).map(|i| if i == 0 { first } else if i == len - 1 { last } else { mid }).collect();
                        for s in [label.clone(), format!("x.{}.local", label), format!("{}.y", label)] {
                            t.evals += 1;
                            n2 += 1;
                            if ref_name(&s).is_ok() {
                                t.nontrivial += 1;
                            }
                            let f = check_text(&s);
                            if !f.is_empty() {
                                ctx.violations(f);
                            }
                        }
                        if len <= 2 {
                            continue;
                        }
                    }
                }
            }
        }
        // every total text length around the 255-byte limit with every label length as the last label
        for last_len in 1..=63usize {
            for total in 240..=260usize {
                // labels of 50 'a's separated by dots, then the last label; total counts encoded bytes
                let mut labels: Vec<String> = Vec::new();
                let mut enc = 1 + last_len + 1;
                while enc + 51 <= total {
                    labels.push("a".repeat(50));
                    enc += 51;
                }
                let rest = total - enc;
                if rest == 1 {
                    continue;
                }
                if rest >= 2 {
                    labels.push("b".repeat(rest - 1));
                }
                labels.push("c".repeat(last_len));
                let s = labels.join(".");
                t.evals += 1;
                n2 += 1;
                if ref_name(&s).is_ok() {
                    t.nontrivial += 1;
                }
                let f = check_text(&s);
                if !f.is_empty() {
                    ctx.violations(f);
                }
            }
        }
        ctx.space("labels of every length 0..=70 x every (first, interior, last) character class over {letter, digit, '_', '-', capital} alone / in the middle / at the start of a name; encoded name lengths 240..=260 x every last-label length 1..=63", n2, "complete");
    }
    // space 3: pairs
    let names = names_upto(ctx.tier.pick(4, 5));
    for a in &names {
        for b in &names {
            t.evals += 1;
            if a.len() > b.len() && a[a.len() - b.len()..] == b[..] {
                t.nontrivial += 1;
            }
            ctx.violations(check_pair(a, b));
        }
    }
    t.outcome("pair");
    ctx.space(&format!("all pairs of the {} names with <= {} labels over {{a,b}}", names.len(), ctx.tier.pick(4, 5)), (names.len() * names.len()) as u64, "complete");
    ctx.sample(json!({"kind": "pair", "a": ["a", "b", "a"], "b": ["b", "a"]}));
    for l in 1..=61usize {
        for extra in 0..=2usize {
            t.evals += 1;
            t.nontrivial += 1;
            ctx.violations(check_wire_suffix(l, extra));
        }
    }
    ctx.space("wire-suffix pairs: for every label length 1..=61, a same-depth name whose first label ends with that length byte followed by the parent's first label (0..=2 further labels)", 61 * 3, "complete");
    // space 4: link-local
    let mut lasts: Vec<String> = Vec::new();
    for m in 0..32u32 {
        let s: String = "local".chars().enumerate().map(|(i, c)| if m & (1 << i) != 0 { c.to_ascii_uppercase() } else { c }).collect();
        lasts.push(s);
    }
    for s in ["loca", "locall", "xlocal", "local.", "l0cal", "", "LOCAL ", "locaL\u{0}", "ĺocal", "lokal", "com"] {
        lasts.push(s.to_string());
    }
    let mut nl = 0u64;
    for last in &lasts {
        for pre in [vec![], vec!["a".to_string()], vec!["local".to_string()], vec!["a".to_string(), "local".to_string()]] {
            let mut labels = pre.clone();
            labels.push(last.clone());
            t.evals += 1;
            nl += 1;
            if last.eq_ignore_ascii_case("local") {
                t.nontrivial += 1;
            }
            ctx.violations(check_local(&labels));
        }
        // name ending in something else after "local"
        t.evals += 1;
        nl += 1;
        ctx.violations(check_local(&[last.clone(), "com".to_string()]));
    }
    ctx.violations(check_local(&[]));
    {
        // dictionary names: link-local, subdomain and suffix removal against every other dictionary name of <= 2 labels
        let dict3 = crate::gen::dictionary_names(3);
        let mut nd = 0u64;
        for n in &dict3 {
            let labels: Vec<String> = n.0.iter().map(|l| String::from_utf8_lossy(&l.0).to_string()).collect();
            t.evals += 1;
            nd += 1;
            if labels.last().map(|l| l.eq_ignore_ascii_case("local")).unwrap_or(false) {
                t.nontrivial += 1;
            }
            ctx.violations(check_local(&labels));
        }
        // (case variants stay out of the pair family: the property does not say whether label comparison folds case)
        let dict2: Vec<Vec<String>> = crate::gen::dictionary_names(2).iter().map(|n| n.0.iter().map(|l| String::from_utf8_lossy(&l.0).to_string()).collect::<Vec<String>>()).filter(|n| n.iter().all(|l| !l.bytes().any(|c| c.is_ascii_uppercase()))).collect();
        let small: Vec<&Vec<String>> = dict2.iter().filter(|n| n.len() <= 1 || n.iter().all(|l| ["local", "arpa", "in-addr", "ip6", "_tcp", "com", "8", "e"].contains(&l.as_str()))).collect();
        for a in &dict2 {
            for b in &small {
                let aa: Vec<&str> = a.iter().map(|s| s.as_str()).collect();
                let bb: Vec<&str> = b.iter().map(|s| s.as_str()).collect();
                t.evals += 1;
                nd += 1;
                ctx.violations(check_pair(&aa, &bb));
                ctx.violations(check_pair(&bb, &aa));
            }
        }
        ctx.space("dictionary names (labels with a conventional meaning: local, arpa, in-addr, ip6, _tcp, ...; well-known full names): is_link_local on every name of <= 3 labels, subdomain / suffix removal on pairs of names of <= 2 labels", nd, "complete");
    }
    t.outcome("local");
    ctx.space("is_link_local: 32 case variants of 'local' + 11 near misses, in 5 positions", nl + 1, "complete");
    ctx.merge(t);
}

pub fn replay(case: &Value) -> Vec<Finding> {
    match case["kind"].as_str().unwrap_or("") {
        "text" => check_text(case["s"].as_str().unwrap_or("")),
        "lengths" => {
            let l: Vec<usize> = case["lens"].as_array().map(|a| a.iter().map(|x| x.as_u64().unwrap_or(0) as usize).collect()).unwrap_or_default();
            check_lengths(&l)
        }
        "pair" => {
            let g = |k: &str| -> Vec<String> { case[k].as_array().map(|a| a.iter().map(|x| x.as_str().unwrap_or("").to_string()).collect()).unwrap_or_default() };
            let (a, b) = (g("a"), g("b"));
            let a: Vec<&str> = a.iter().map(|s| s.as_str()).collect();
            let b: Vec<&str> = b.iter().map(|s| s.as_str()).collect();
            check_pair(&a, &b)
        }
        "wire-suffix" => check_wire_suffix(case["l"].as_u64().unwrap_or(1) as usize, case["extra"].as_u64().unwrap_or(0) as usize),
        "local" => {
            let l: Vec<String> = case["labels"].as_array().map(|a| a.iter().map(|x| x.as_str().unwrap_or("").to_string()).collect()).unwrap_or_default();
            check_local(&l)
        }
        _ => vec![],
    }
}
