//! C12 — inspecting parsed data never panics.
//! Reference messages in which every name position and every character-string position of every
//! type carries, in turn, every byte string of length <= 3 (4) over {00 2e 5c 61 80 c3 ff} and the
//! maximal lengths; plus every accepted member of C01's sweeps; every public observer applied.

use super::finding;
use crate::engine::{guarded, hex, par_shards, unhex, Ctx, Finding, Tally};
use crate::gen;
use crate::refmodel::packet::*;
use crate::refmodel::schema::{Gw, Val, SCHEMAS};
use crate::refmodel::{RefName, B};
use serde_json::{json, Value};
use simple_dns::rdata::RData;
use simple_dns::{CharacterString, Name, Packet, QCLASS, QTYPE, TYPE};
use std::collections::hash_map::DefaultHasher;
use std::convert::TryFrom;
use std::hash::{Hash, Hasher};

/// Display under every kind of format specification (alternate flag, width, alignment, fill,
/// precision, sign / zero flags): an implementation may branch on any of them.
fn display_all<T: std::fmt::Display>(x: &T) {
    let _ = (format!("{:#}", x), format!("{:<12}", x), format!("{:>70}", x), format!("{:*^9.3}", x), format!("{:.0}", x), format!("{:+08}", x));
}

/// Debug under the alternate (pretty) flag and with width / precision.
fn debug_all<T: std::fmt::Debug>(x: &T) {
    let _ = (format!("{:#?}", x), format!("{:12.2?}", x), format!("{:#x?}", x));
}

fn h<T: Hash>(t: &T) -> u64 {
    let mut s = DefaultHasher::new();
    t.hash(&mut s);
    s.finish()
}

fn name_observers(n: &Name, other: &Name, step: &mut dyn FnMut(&str)) {
    step("Name Display");
    let _ = format!("{}", n);
    step("Name Display with format flags ({:#}, width, precision, fill)");
    display_all(n);
    step("Name Debug with format flags ({:#?}, width, precision)");
    debug_all(n);
    step("Name to_string");
    let _ = n.to_string();
    step("Name Debug");
    let _ = format!("{:?}", n);
    step("Name labels");
    for l in n.iter() {
        step("Label Display");
        let _ = format!("{}", l);
        step("Label Display with format flags ({:#}, width, precision, fill)");
        display_all(l);
        step("Label Debug with format flags ({:#?}, width, precision)");
        debug_all(l);
        step("Label to_string");
        let _ = l.to_string();
        step("Label Debug");
        let _ = format!("{:?}", l);
        let _ = (l.len(), l.is_empty());
        step("Label clone/into_owned/hash");
        let o = l.clone().into_owned();
        let _ = (o == *l, h(&o));
    }
    step("Name relations");
    let _ = (n.is_link_local(), n.is_subdomain_of(other), other.is_subdomain_of(n), n == other, h(n));
    let w = n.without(other);
    if let Some(w) = w {
        let _ = format!("{:?}", w);
    }
    let _ = other.without(n);
    step("Name clone/into_owned");
    let o = n.clone().into_owned();
    let _ = o == *n;
    let _ = n.get_labels().len();
}

fn cs_observers(c: &CharacterString, step: &mut dyn FnMut(&str)) {
    step("CharacterString Display");
    let _ = format!("{}", c);
    step("CharacterString Display with format flags ({:#}, width, precision, fill)");
    display_all(c);
    step("CharacterString Debug with format flags ({:#?}, width, precision)");
    debug_all(c);
    step("CharacterString to_string");
    let _ = c.to_string();
    step("CharacterString Debug");
    let _ = format!("{:?}", c);
    step("CharacterString String::try_from");
    if let Err(e) = String::try_from(c.clone()) {
        step("Display / Debug of the error a failed conversion returns");
        let _ = (format!("{}", e), format!("{:?}", e), e.to_string());
        display_all(&e);
        debug_all(&e);
    }
    step("CharacterString clone/into_owned/hash");
    let o = c.clone().into_owned();
    let _ = (o == *c, h(&o));
}

/// Apply every public observer to every part of the packet. `step` is told what is about to run.
pub fn inspect(p: &Packet, step: &mut dyn FnMut(&str)) {
    let local = Name::new_unchecked("local");
    step("Packet Debug");
    let _ = format!("{:?}", p);
    if p.questions.len() + p.answers.len() + p.name_servers.len() + p.additional_records.len() <= 2 {
        step("Packet Debug with the alternate flag ({:#?})");
        let _ = format!("{:#?}", p);
    }
    step("Packet clone");
    let c = p.clone();
    let _ = (c.id(), c.rcode(), c.opcode(), c.opt().map(|o| format!("{:?}", o)));
    step("Packet into_reply / flags");
    let rp = p.clone().into_reply();
    let _ = (format!("{:?}", rp), rp.has_flags(simple_dns::PacketFlag::RESPONSE), p.has_flags(simple_dns::PacketFlag::all()));
    for q in &p.questions {
        step("Question Debug");
        let _ = format!("{:?}", q);
        step("Question clone/into_owned");
        let o = q.clone().into_owned();
        let _ = format!("{:?}", o);
        name_observers(&q.qname, &local, step);
    }
    let all = p.answers.iter().chain(p.name_servers.iter()).chain(p.additional_records.iter());
    for r in all {
        step("ResourceRecord Debug");
        let _ = format!("{:?}", r);
        step("ResourceRecord clone/into_owned/eq/hash");
        let o = r.clone().into_owned();
        let _ = (o == *r, h(&o) == h(r), o.to_cache_flush_record().cache_flush);
        step("ResourceRecord match");
        for qt in [QTYPE::ANY, QTYPE::MAILB, QTYPE::MAILA, QTYPE::AXFR, QTYPE::IXFR, QTYPE::TYPE(TYPE::A), QTYPE::TYPE(TYPE::TXT), QTYPE::TYPE(r.rdata.type_code())] {
            let _ = r.match_qtype(qt);
        }
        let _ = (r.match_qclass(QCLASS::ANY), r.match_qclass(QCLASS::CLASS(r.class)));
        name_observers(&r.name, &local, step);
        if let Some(q) = p.questions.first() {
            step("Name relations (question)");
            let _ = (r.name.is_subdomain_of(&q.qname), r.name.without(&q.qname), r.name == q.qname);
        }
        step("RData Debug");
        let _ = format!("{:?}", r.rdata);
        step("RData Debug with the alternate flag ({:#?})");
        let _ = format!("{:#?}", r.rdata);
        step("RData clone/into_owned/eq/hash/type_code");
        let rd = r.rdata.clone().into_owned();
        let _ = (rd == r.rdata, h(&rd), rd.type_code());
        match &r.rdata {
            RData::TXT(t) => {
                step("TXT::attributes");
                let _ = t.attributes();
                step("TXT::long_attributes");
                if let Err(e) = t.clone().long_attributes() {
                    step("Display / Debug of the error long_attributes returns");
                    let _ = (format!("{}", e), format!("{:?}", e));
                    display_all(&e);
                    debug_all(&e);
                }
                step("String::try_from(TXT)");
                if let Err(e) = String::try_from(t.clone()) {
                    step("Display / Debug of the error String::try_from(TXT) returns");
                    let _ = (format!("{}", e), format!("{:?}", e));
                    display_all(&e);
                    debug_all(&e);
                }
                step("TXT Debug");
                let _ = format!("{:?}", t);
            }
            RData::HINFO(x) => {
                cs_observers(&x.cpu, step);
                cs_observers(&x.os, step);
            }
            RData::ISDN(x) => {
                cs_observers(&x.address, step);
                cs_observers(&x.sa, step);
            }
            RData::NAPTR(x) => {
                cs_observers(&x.flags, step);
                cs_observers(&x.services, step);
                cs_observers(&x.regexp, step);
                name_observers(&x.replacement, &local, step);
            }
            RData::CAA(x) => cs_observers(&x.tag, step),
            RData::NS(x) => name_observers(&x.0, &local, step),
            RData::CNAME(x) => name_observers(&x.0, &local, step),
            RData::PTR(x) => name_observers(&x.0, &local, step),
            RData::MX(x) => name_observers(&x.exchange, &local, step),
            RData::SRV(x) => name_observers(&x.target, &local, step),
            RData::SOA(x) => {
                name_observers(&x.mname, &local, step);
                name_observers(&x.rname, &local, step);
            }
            RData::SVCB(x) => {
                name_observers(&x.target, &local, step);
                step("SVCB params");
                for (k, _) in x.iter_params() {
                    let _ = x.get_param(k);
                }
            }
            RData::NULL(_, n) => {
                let _ = n.get_data().len();
            }
            _ => {}
        }
    }
}

/// (findings, accepted)
pub fn check_bytes(b: &[u8]) -> (Vec<Finding>, bool) {
    let mk = || json!({"kind": "bytes", "msg": hex(b)});
    let p = match guarded(|| Packet::parse(b)) {
        Ok(Ok(p)) => p,
        Ok(Err(e)) => {
            // the error a rejected message yields can be formatted as well
            return match guarded(|| {
                display_all(&e);
                debug_all(&e);
                (format!("{}", e), format!("{:?}", e)).0.len()
            }) {
                Ok(_) => (vec![], false),
                Err(pn) => (vec![finding(format!("C12|parse-error Display|{}", pn.sig()), format!("formatting the error returned for {}: {:?}", crate::engine::truncate(&hex(b), 200), pn), mk())], false),
            };
        }
        _ => return (vec![], false),
    };
    let quick = guarded(|| inspect(&p, &mut |_| {}));
    if quick.is_ok() {
        return (vec![], true);
    }
    // identify every observer that panics: run again, recording the step in progress
    let mut out = Vec::new();
    let mut seen = std::collections::BTreeSet::new();
    let current = std::cell::RefCell::new(String::new());
    let r = guarded(|| inspect(&p, &mut |s| *current.borrow_mut() = s.to_string()));
    if let Err(pn) = r {
        let step = current.borrow().clone();
        if seen.insert(step.clone()) {
            out.push(finding(
                format!("C12|{}|panic", step),
                format!("{} panicked: {} at {}; input {}", step, pn.message, pn.location, crate::engine::truncate(&hex(b), 300)),
                mk(),
            ));
        }
    }
    (out, true)
}

const SIGMA: [u8; 7] = [0x00, 0x2e, 0x5c, 0x61, 0x80, 0xc3, 0xff];

/// reference messages with hostile text at one position
pub fn hostile_messages(x: &[u8]) -> Vec<Vec<u8>> {
    let mut out = Vec::new();
    let label_ok = !x.is_empty() && x.len() <= 63;
    let hostile_name = RefName(vec![B(x.to_vec()), gen::b(b"svc"), gen::b(b"local")]);
    let hostile_single = RefName(vec![B(x.to_vec())]);
    let hostile_last = RefName(vec![gen::b(b"a"), B(x.to_vec())]);
    let q = RefQ { name: RefName::txt("q.local"), qtype: 255, qclass: 1, unicast: false };
    if label_ok {
        for hn in [&hostile_name, &hostile_single, &hostile_last] {
            // question name, owner name
            let mut p = RefPacket { id: 1, ..Default::default() };
            p.questions.push(RefQ { name: hn.clone(), qtype: 16, qclass: 1, unicast: true });
            p.answers.push(RefRR { name: hn.clone(), class: 1, cache_flush: false, ttl: 1, rdata: typed(1, vec![Val::U32(1)]) });
            out.push(p.encode(0));
            out.push(p.encode_compressed(0, true));
        }
    }
    for sch in SCHEMAS {
        let base = gen::default_vals(sch);
        for i in 0..base.len() {
            let mut variants: Vec<Val> = Vec::new();
            match &base[i] {
                Val::Name(_) if label_ok => {
                    variants.push(Val::Name(hostile_name.clone()));
                    variants.push(Val::Name(hostile_single.clone()));
                }
                Val::Gateway(_) if label_ok => variants.push(Val::Gateway(Gw::Domain(hostile_name.clone()))),
                Val::Str(_) if x.len() <= 255 => variants.push(Val::Str(B(x.to_vec()))),
                Val::Strs(_) if x.len() <= 255 => {
                    variants.push(Val::Strs(vec![B(x.to_vec())]));
                    variants.push(Val::Strs(vec![gen::b(b"k=v"), B(x.to_vec())]));
                    let mut kv = b"k=".to_vec();
                    kv.extend_from_slice(x);
                    if kv.len() <= 255 {
                        variants.push(Val::Strs(vec![B(kv)]));
                    }
                    let mut vk = x.to_vec();
                    vk.extend_from_slice(b"=v");
                    if vk.len() <= 255 {
                        variants.push(Val::Strs(vec![B(vk)]));
                    }
                }
                Val::Tail(_) => variants.push(Val::Tail(B(x.to_vec()))),
                _ => {}
            }
            for v in variants {
                let mut vals = base.clone();
                vals[i] = v;
                if !gen::vals_wire_representable(sch, &vals) {
                    continue;
                }
                let mut p = RefPacket { id: 2, flags: F_QR, ..Default::default() };
                p.questions.push(q.clone());
                p.answers.push(RefRR { name: RefName::txt("o.svc.local"), class: 1, cache_flush: true, ttl: 9, rdata: typed(sch.code, vals) });
                out.push(p.encode(0));
            }
        }
    }
    out
}

pub fn run(ctx: &Ctx) {
    let l = ctx.tier.pick(3usize, 4usize);
    ctx.set_rule("reference messages in which each name position (question, owner, every RDATA name) and each character-string / TXT / opaque position of every type carries each byte string of length <= L over {00,2e,5c,61,80,c3,ff} and the maximal lengths (63-byte label, 255-byte string) and ~200 labels putting a multi-byte character at every byte offset, plus every accepted member of the C01 input sweeps; on the parsed packet every public observer runs under catch_unwind: Debug and Display of Packet/Question/ResourceRecord/RData/Name/Label/CharacterString/TXT, to_string, clone, into_owned, Hash, ==, TXT::attributes, long_attributes, String::try_from (TXT, CharacterString), match_qtype, match_qclass, is_link_local, is_subdomain_of, without, label iteration, SVCB params. non-trivial = the parser accepted the message so the observers ran");
    ctx.assume("fallible conversions may return Err or a lossy rendering; only panics are violations");
    let mut xs: Vec<Vec<u8>> = Vec::new();
    let mut b = Vec::new();
    crate::engine::for_each_string_upto(&SIGMA, l, &mut b, &mut |x| xs.push(x.to_vec()));
    for fill in [0x61u8, 0xff, 0x00, 0x2e] {
        xs.push(vec![fill; 63]);
        xs.push(vec![fill; 255]);
        let mut m = vec![fill; 62];
        m.push(0xc3);
        xs.push(m);
    }
    xs.extend(gen::alignment_labels());
    // attribute-shaped text: every string of length <= 4 over {a, =, ", ;, \}
    {
        let mut b2 = Vec::new();
        crate::engine::for_each_string_upto(b"a=\";\\", 4, &mut b2, &mut |x| {
            if x.len() >= 2 {
                xs.push(x.to_vec());
            }
        });
        for s in gen::dictionary_strings() {
            xs.push(s.as_bytes().to_vec());
        }
    }
    // labels that software decodes: an encoding prefix (punycode, service underscore, wildcard)
    // followed by a run of one character of every length, or by every short string over
    // digits / letters / hyphen; as question name, owner name and PTR target
    {
        let mut labels: Vec<Vec<u8>> = Vec::new();
        for prefix in ["xn--", "XN--", "xn--a-", "_", "*"] {
            for ch in [b'9', b'z', b'a', b'0', b'-', b'A'] {
                for k in 1..=(63 - prefix.len()) {
                    let mut l = prefix.as_bytes().to_vec();
                    l.extend(std::iter::repeat(ch).take(k));
                    labels.push(l);
                }
            }
            let mut b3 = Vec::new();
            crate::engine::for_each_string_upto(b"az09-", 4, &mut b3, &mut |x| {
                let mut l = prefix.as_bytes().to_vec();
                l.extend_from_slice(x);
                labels.push(l);
            });
        }
        let n_labels = labels.len() as u64;
        let lchunks: Vec<&[Vec<u8>]> = labels.chunks(32).collect();
        par_shards(ctx, &lchunks, |ls, t: &mut Tally| {
            for l in ls.iter() {
                let name = RefName(vec![crate::refmodel::B(l.clone()), crate::refmodel::B(b"local".to_vec())]);
                let mut p = RefPacket { id: 0x1212, flags: F_QR | F_AA, ..Default::default() };
                p.questions.push(RefQ { name: name.clone(), qtype: 12, qclass: 1, unicast: false });
                p.answers.push(RefRR { name: name.clone(), class: 1, cache_flush: false, ttl: 9, rdata: typed(12, vec![crate::refmodel::schema::Val::Name(name.clone())]) });
                let m = p.encode(0);
                t.evals += 1;
                let (f, acc) = check_bytes(&m);
                if acc {
                    t.nontrivial += 1;
                }
                t.outcome(if !acc { "rejected" } else if f.is_empty() { "inspected" } else { "panicked" });
                if !f.is_empty() {
                    ctx.violations(f);
                }
            }
        });
        ctx.space("decodable labels: the prefixes xn-- / XN-- / xn--a- / _ / * followed by a run of 9, z, a, 0, - or A of every length up to the 63-byte limit, and by every string of length <= 4 over {a, z, 0, 9, -}; as question name, owner name and PTR target", n_labels, "complete");
    }
    let total = std::sync::atomic::AtomicU64::new(0);
    let chunks: Vec<&[Vec<u8>]> = xs.chunks(8).collect();
    par_shards(ctx, &chunks, |xs, t: &mut Tally| {
        for x in xs.iter() {
            let msgs = hostile_messages(x);
            total.fetch_add(msgs.len() as u64, std::sync::atomic::Ordering::Relaxed);
            for m in &msgs {
                t.evals += 1;
                let (f, acc) = check_bytes(m);
                if acc {
                    t.nontrivial += 1;
                }
                t.outcome(if !acc { "rejected" } else if f.is_empty() { "inspected" } else { "panicked" });
                if !f.is_empty() {
                    ctx.violations(f);
                }
            }
        }
    });
    ctx.space(&format!("hostile text: {} byte strings x every name / string / opaque position of 39 types + question and owner names", xs.len()), total.load(std::sync::atomic::Ordering::Relaxed), "complete");
    let s = hostile_messages(&[0xc3, 0x2e]);
    ctx.sample(json!({"kind": "bytes", "msg": hex(&s[0])}));
    ctx.sample(json!({"kind": "bytes", "msg": hex(&s[s.len() / 2])}));
    super::c01::enumerate_inputs(
        ctx,
        &|m, t| {
            t.evals += 1;
            let (f, acc) = check_bytes(m);
            if acc {
                t.nontrivial += 1;
            }
            t.outcome(if !acc { "rejected" } else if f.is_empty() { "inspected" } else { "panicked" });
            if !f.is_empty() {
                ctx.violations(f);
            }
        },
        1,
    );
}

pub fn replay(case: &Value) -> Vec<Finding> {
    check_bytes(&unhex(case["msg"].as_str().unwrap_or(""))).0
}
