//! C13 — mDNS replies contain exactly the matching records.
//! Graph mode: explicit-state BFS over add-authoritative / add-cached / remove / clear histories
//! on the real record store; in every state the full query menu is asked through the real
//! build_reply and compared with a reply model over a plain-set reference store.

use super::finding;
use crate::bind::*;
use crate::engine::{guarded, par_shards, Ctx, Finding, Tally};
use crate::refmodel::packet::*;
use crate::refmodel::schema::Val;
use crate::refmodel::{RefName, B};
use serde::{Deserialize, Serialize};
use serde_json::{json, Value};
use simple_mdns::verif::{build_reply, ResourceRecordManager};
use std::collections::{BTreeMap, BTreeSet, HashSet, VecDeque};

pub const OWNERS: [&str; 8] = ["foo.bar.local", "foobar.local", "bar.local", "local", "_my.local", "_mysrv.local", "a._mysrv.local", "other.local"];

fn a(owner: &str, class: u16, ip: u32) -> RefRR {
    RefRR { name: RefName::txt(owner), class, cache_flush: false, ttl: 120, rdata: typed(1, vec![Val::U32(ip)]) }
}

/// The record menu: chosen so that owners collide under label concatenation (foo.bar / foobar),
/// under byte-prefixing (_my / _mysrv, bar / foo.bar) and across classes and types.
pub fn menu() -> Vec<RefRR> {
    vec![
        a("foo.bar.local", 1, 0x0a000001),
        a("foobar.local", 1, 0x0a000002),
        a("bar.local", 1, 0x0a000003),
        RefRR { name: RefName::txt("foobar.local"), class: 1, cache_flush: false, ttl: 120, rdata: typed(28, vec![Val::Fixed(B((1..=16).collect()))]) },
        RefRR { name: RefName::txt("_mysrv.local"), class: 1, cache_flush: false, ttl: 120, rdata: typed(33, vec![Val::U16(0), Val::U16(0), Val::U16(8080), Val::Name(RefName::txt("foo.bar.local"))]) },
        RefRR { name: RefName::txt("a._mysrv.local"), class: 1, cache_flush: false, ttl: 120, rdata: typed(33, vec![Val::U16(0), Val::U16(0), Val::U16(9090), Val::Name(RefName::txt("foobar.local"))]) },
        RefRR { name: RefName::txt("_my.local"), class: 1, cache_flush: false, ttl: 120, rdata: typed(12, vec![Val::Name(RefName::txt("a._mysrv.local"))]) },
        RefRR { name: RefName::txt("_mysrv.local"), class: 1, cache_flush: false, ttl: 120, rdata: typed(16, vec![Val::Strs(vec![B(b"k=v".to_vec())])]) },
        a("local", 3, 0x0a000009),
        a("a._mysrv.local", 1, 0x0a00000a),
        RefRR { name: RefName::txt("foo.bar.local"), class: 3, cache_flush: false, ttl: 120, rdata: typed(16, vec![Val::Strs(vec![B(b"ch".to_vec())])]) },
        a("_my.local", 1, 0x0a00000c),
        // an SRV whose target has address records below it, and a self-targeting SRV (the shape
        // conversion_utils::port_to_srv_record produces) with an address record below its owner
        RefRR { name: RefName::txt("_my.local"), class: 1, cache_flush: false, ttl: 120, rdata: typed(33, vec![Val::U16(0), Val::U16(0), Val::U16(7070), Val::Name(RefName::txt("bar.local"))]) },
        RefRR { name: RefName::txt("_mysrv.local"), class: 1, cache_flush: false, ttl: 120, rdata: typed(33, vec![Val::U16(0), Val::U16(0), Val::U16(6060), Val::Name(RefName::txt("_mysrv.local"))]) },
        // same owner and RDATA as record 0, different class
        a("foo.bar.local", 3, 0x0a000001),
    ]
}

#[derive(Clone, Copy, PartialEq, Eq, Hash, Debug, Serialize, Deserialize, PartialOrd, Ord)]
pub enum Op {
    AddAuth(usize),
    AddCached(usize),
    Remove(usize),
    Clear,
}

#[derive(Clone, Copy, PartialEq, Eq, Hash, Debug, PartialOrd, Ord)]
pub enum Kind {
    Auth,
    Cached,
}

/// Reference store: record index -> kind, plus the owners touched since the last clear (the real
/// trie keeps their nodes; part of the state so that merged states have the same futures).
#[derive(Clone, PartialEq, Eq, Hash, Debug, PartialOrd, Ord, Default)]
pub struct RefStore {
    pub recs: BTreeMap<usize, Kind>,
    pub touched: BTreeSet<usize>,
}

impl RefStore {
    pub fn apply(&mut self, op: Op, m: &[RefRR]) {
        let owner_idx = |i: usize| OWNERS.iter().position(|o| RefName::txt(o) == m[i].name).unwrap_or(99);
        match op {
            Op::AddAuth(i) => {
                self.recs.insert(i, Kind::Auth);
                self.touched.insert(owner_idx(i));
            }
            Op::AddCached(i) => {
                // statement of C20: a network copy of an authoritative record does not demote it
                if self.recs.get(&i) != Some(&Kind::Auth) {
                    self.recs.insert(i, Kind::Cached);
                }
                self.touched.insert(owner_idx(i));
            }
            Op::Remove(i) => {
                self.recs.remove(&i);
            }
            Op::Clear => {
                self.recs.clear();
                self.touched.clear();
            }
        }
    }
}

pub struct World {
    pub menu: &'static Vec<RefRR>,
    pub lib: Vec<simple_dns::ResourceRecord<'static>>,
}

pub fn world() -> World {
    let m: &'static Vec<RefRR> = Box::leak(Box::new(menu()));
    let lib = m.iter().map(|r| lib_rr(r).expect("menu record")).collect();
    World { menu: m, lib }
}

pub fn build_store(w: &World, hist: &[Op]) -> ResourceRecordManager<'static> {
    let mut s = ResourceRecordManager::new();
    for op in hist {
        match op {
            Op::AddAuth(i) => s.add_authoritative_resource(w.lib[*i].clone()),
            Op::AddCached(i) => s.add_cached_resource(w.lib[*i].clone()),
            Op::Remove(i) => s.remove_resource_record(&w.lib[*i]),
            Op::Clear => s.clear(),
        }
    }
    s
}

#[derive(Clone, Debug, PartialEq, Eq, Serialize, Deserialize)]
pub struct Q {
    pub owner: usize,
    pub qtype: u16,
    pub qclass: u16,
    pub unicast: bool,
}

pub fn single_questions() -> Vec<Q> {
    let mut out = Vec::new();
    for owner in 0..OWNERS.len() {
        for qtype in [1u16, 28, 33, 16, 12, 255] {
            for qclass in [1u16, 3, 255] {
                for unicast in [false, true] {
                    out.push(Q { owner, qtype, qclass, unicast });
                }
            }
        }
    }
    out
}

pub fn pair_menu() -> Vec<Q> {
    let mut out = Vec::new();
    for owner in [0usize, 1, 2, 5, 6, 7] {
        for (qtype, qclass, unicast) in [(1u16, 1u16, false), (255, 255, true), (33, 1, false), (16, 3, true)] {
            out.push(Q { owner, qtype, qclass, unicast });
        }
    }
    out
}

fn type_matches(code: u16, qtype: u16) -> bool {
    qtype == 255 || qtype == code
}
fn class_matches(class: u16, qclass: u16) -> bool {
    qclass == 255 || qclass == class
}

/// Ask one query in one store state; returns (signature tag, detail) for every deviation.
pub fn judge(w: &World, store: &ResourceRecordManager<'static>, model: &RefStore, qs: &[Q], id: u16) -> Vec<(String, String)> {
    let qn: Vec<QN> = qs.iter().map(|q| QN { name: RefName::txt(OWNERS[q.owner]), qtype: q.qtype, qclass: q.qclass, unicast: q.unicast }).collect();
    judge_q(w, store, model, &qn, id, &[])
}

/// A question with an arbitrary name (for worlds other than the BFS menu).
#[derive(Clone, Debug, PartialEq, Eq, Serialize, Deserialize)]
pub struct QN {
    pub name: RefName,
    pub qtype: u16,
    pub qclass: u16,
    pub unicast: bool,
}

/// `known`: records the querier lists in the answer section of its query (known answers); the
/// property quantifies over every query and makes no exception for them.
pub fn judge_q(w: &World, store: &ResourceRecordManager<'static>, model: &RefStore, qs: &[QN], id: u16, known: &[RefRR]) -> Vec<(String, String)> {
    let mut query = RefPacket { id, ..Default::default() };
    query.answers.extend(known.iter().cloned());
    for q in qs {
        query.questions.push(RefQ { name: q.name.clone(), qtype: q.qtype, qclass: q.qclass, unicast: q.unicast });
    }
    let lib_query = match to_lib(&query) {
        Ok(p) => p,
        Err(e) => return vec![("construct".into(), e)],
    };
    let reply = build_reply(lib_query, store).map(|(pkt, unicast)| (observe(&pkt), Some(unicast)));
    judge_reply(w, model, qs, id, reply)
}

/// The reply oracle proper: `reply` is what came back (as observed fields), with the unicast
/// decision when the caller can see it (the socket stages cannot).
pub fn judge_reply(w: &World, model: &RefStore, qs: &[QN], id: u16, reply: Option<(RefPacket, Option<bool>)>) -> Vec<(String, String)> {
    let mut bad = Vec::new();
    let auth: Vec<&RefRR> = model.recs.iter().filter(|(_, k)| **k == Kind::Auth).map(|(i, _)| &w.menu[*i]).collect();
    let required: Vec<&RefRR> = auth
        .iter()
        .copied()
        .filter(|r| qs.iter().any(|q| r.name == q.name && type_matches(r.rdata.code(), q.qtype) && class_matches(r.class, q.qclass)))
        .collect();
    match reply {
        None => {
            if let Some(r) = required.first() {
                bad.push(("no-reply-but-match".into(), format!("no reply although authoritative record {:?} {} matches a question at its own name", r.name, r.rdata.code())));
            }
        }
        Some((o, unicast)) => {
            if o.answers.is_empty() {
                bad.push(("empty-reply".into(), "a reply without answers was produced".into()));
            }
            if o.id != id {
                bad.push(("id".into(), format!("reply id {} for query id {}", o.id, id)));
            }
            if o.flags & F_QR == 0 {
                bad.push(("response-flag".into(), "reply without the response flag".into()));
            }
            let want_uni = qs.iter().any(|q| q.unicast);
            if unicast.is_some() && unicast != Some(want_uni) {
                bad.push(("unicast".into(), format!("unicast delivery {:?} but questions asked {}", unicast, want_uni)));
            }
            if !o.questions.is_empty() || !o.authority.is_empty() || o.opt.is_some() {
                bad.push(("extra-sections".into(), "reply carries questions / authority / OPT".into()));
            }
            for ans in &o.answers {
                if !auth.iter().any(|r| *r == ans) {
                    let cached = model.recs.iter().any(|(i, k)| *k == Kind::Cached && &w.menu[*i] == ans);
                    bad.push((
                        if cached { "answer-cached".into() } else { "answer-not-registered".into() },
                        format!("answer {:?} type {} is not a registered authoritative record", ans.name, ans.rdata.code()),
                    ));
                    continue;
                }
                let justified = qs.iter().any(|q| {
                    let qn = q.name.clone();
                    (ans.name == qn || ans.name.is_strict_subdomain_of(&qn)) && type_matches(ans.rdata.code(), q.qtype) && class_matches(ans.class, q.qclass)
                });
                if !justified {
                    let by_name = qs.iter().any(|q| {
                        let qn = q.name.clone();
                        ans.name == qn || ans.name.is_strict_subdomain_of(&qn)
                    });
                    bad.push((
                        if by_name { "answer-type-or-class".into() } else { "answer-wrong-owner".into() },
                        format!("answer {:?} (type {}, class {}) matches no question {:?}", ans.name, ans.rdata.code(), ans.class, qs),
                    ));
                }
            }
            for r in &required {
                if !o.answers.iter().any(|x| x == *r) {
                    bad.push(("answer-missing".into(), format!("authoritative record {:?} type {} class {} matches a question at its own name but is not in the reply", r.name, r.rdata.code(), r.class)));
                }
            }
            // additional: only registered address records owned by the target of an included SRV answer
            let targets: Vec<RefName> = o
                .answers
                .iter()
                .filter_map(|x| match &x.rdata {
                    RefRData::Typed { code: 33, vals } => match &vals[3] {
                        Val::Name(n) => Some(n.clone()),
                        _ => None,
                    },
                    _ => None,
                })
                .collect();
            for ad in &o.additional {
                let is_addr = ad.rdata.code() == 1 || ad.rdata.code() == 28;
                let registered = auth.iter().any(|r| *r == ad);
                let owned = targets.iter().any(|t| *t == ad.name);
                if !(is_addr && registered && owned) {
                    bad.push((
                        "additional-unjustified".into(),
                        format!("additional record {:?} type {}: address={}, registered authoritative={}, owned by an SRV target={}", ad.name, ad.rdata.code(), is_addr, registered, owned),
                    ));
                }
            }
        }
    }
    bad
}

/// Read the real store back into the abstract state: for every owner, which menu records does it
/// hold as authoritative and which as (unexpired) cached.
pub fn probe(w: &World, store: &ResourceRecordManager<'static>) -> BTreeMap<usize, Kind> {
    use simple_mdns::verif::DomainResourceFilter;
    let mut out = BTreeMap::new();
    for o in OWNERS {
        let name = RefName::txt(o);
        let ln = lib_name(&name);
        for (filter, kind) in [(DomainResourceFilter::authoritative(false), Kind::Auth), (DomainResourceFilter::cached(), Kind::Cached)] {
            for r in store.get_domain_resources(&ln, filter).flatten() {
                let or = obs_rr(r);
                if let Some(i) = w.menu.iter().position(|m| *m == or) {
                    out.insert(i, kind);
                }
            }
        }
    }
    out
}

/// Conformance of one transition: the real store after `hist + op` must hold what the model holds.
pub fn check_transition(w: &World, hist: &[Op], op: Op) -> Vec<Finding> {
    let mut h = hist.to_vec();
    h.push(op);
    let mut model = RefStore::default();
    for o in &h {
        model.apply(*o, w.menu);
    }
    let r = guarded(|| probe(w, &build_store(w, &h)));
    match r {
        Err(pn) => vec![finding(format!("C13|transition|{}", pn.sig()), format!("{:?} after {:?}", pn, h), json!({"kind": "transition", "history": h}))],
        Ok(real) => {
            if real == model.recs {
                vec![]
            } else {
                let what = match op {
                    Op::AddAuth(_) => "add-authoritative",
                    Op::AddCached(_) => "add-cached",
                    Op::Remove(_) => "remove",
                    Op::Clear => "clear",
                };
                let was = hist.iter().fold(RefStore::default(), |mut m, o| {
                    m.apply(*o, w.menu);
                    m
                });
                let target_kind = match op {
                    Op::AddAuth(i) | Op::AddCached(i) | Op::Remove(i) => was.recs.get(&i).map(|k| format!("{:?}", k)).unwrap_or_else(|| "absent".into()),
                    Op::Clear => "-".into(),
                };
                vec![finding(
                    format!("C13|transition|{}-on-{}", what, target_kind.to_lowercase()),
                    format!("after {:?} the store holds {:?}, the reference store {:?}", h, real, model.recs),
                    json!({"kind": "transition", "history": h}),
                )]
            }
        }
    }
}

pub fn explore(w: &World, depth: usize, ops: &[Op]) -> Vec<(RefStore, Vec<Op>)> {
    let mut seen: HashSet<RefStore> = HashSet::new();
    let mut out = Vec::new();
    let mut frontier: VecDeque<(RefStore, Vec<Op>)> = VecDeque::new();
    seen.insert(RefStore::default());
    frontier.push_back((RefStore::default(), vec![]));
    while let Some((st, hist)) = frontier.pop_front() {
        out.push((st.clone(), hist.clone()));
        if hist.len() >= depth {
            continue;
        }
        for op in ops {
            let mut n = st.clone();
            n.apply(*op, w.menu);
            if seen.insert(n.clone()) {
                let mut h = hist.clone();
                h.push(*op);
                frontier.push_back((n, h));
            }
        }
    }
    out
}

pub fn all_ops(n: usize) -> Vec<Op> {
    let mut ops = Vec::new();
    for i in 0..n {
        ops.push(Op::AddAuth(i));
    }
    for i in 0..n {
        ops.push(Op::AddCached(i));
    }
    for i in 0..n {
        ops.push(Op::Remove(i));
    }
    ops.push(Op::Clear);
    ops
}

pub fn check_state(w: &World, hist: &[Op], singles: &[Q], pairs: &[Q], t: &mut Tally) -> Vec<Finding> {
    let mut model = RefStore::default();
    for op in hist {
        model.apply(*op, w.menu);
    }
    let r = guarded(|| {
        let store = build_store(w, hist);
        let mut found: Vec<(String, String, Vec<Q>, Vec<RefRR>)> = Vec::new();
        let mut n = 0u64;
        for q in singles {
            n += 1;
            for (tag, d) in judge(w, &store, &model, std::slice::from_ref(q), 0x4d51) {
                found.push((tag, d, vec![q.clone()], vec![]));
            }
        }
        // queries that list known answers: for every record of the state, a question for its own
        // name / type / class carrying (a) that record with TTL 1, (b) that record unchanged,
        // (c) an unrelated record
        for (i, _) in model.recs.iter() {
            let r = &w.menu[*i];
            let qn = QN { name: r.name.clone(), qtype: r.rdata.code(), qclass: r.class, unicast: false };
            let mut stale = r.clone();
            stale.ttl = 1;
            let other = w.menu[(*i + 1) % w.menu.len()].clone();
            for known in [vec![stale.clone()], vec![r.clone()], vec![other.clone()], vec![other, stale]] {
                n += 1;
                for (tag, d) in judge_q(w, &store, &model, std::slice::from_ref(&qn), 0x4d53, &known) {
                    found.push((format!("{}|known-answers", tag), format!("query lists {} known answer(s): {}", known.len(), d), vec![Q { owner: OWNERS.iter().position(|o| RefName::txt(o) == r.name).unwrap_or(0), qtype: r.rdata.code(), qclass: r.class, unicast: false }], known.clone()));
                }
            }
        }
        for a in pairs {
            for b in pairs {
                n += 1;
                for (tag, d) in judge(w, &store, &model, &[a.clone(), b.clone()], 7) {
                    found.push((tag, d, vec![a.clone(), b.clone()], vec![]));
                }
            }
        }
        (found, n)
    });
    match r {
        Err(pn) => vec![finding(format!("C13|{}", pn.sig()), format!("{:?} with history {:?}", pn, hist), json!({"kind": "state", "history": hist}))],
        Ok((found, n)) => {
            t.transitions += n;
            let mut seen = BTreeSet::new();
            found
                .into_iter()
                .filter(|(tag, _, _, _)| seen.insert(tag.clone()))
                .map(|(tag, d, qs, known)| finding(format!("C13|{}", tag), format!("history {:?}; query {:?}: {}", hist, qs, d), json!({"kind": "query", "history": hist, "questions": qs, "known": known})))
                .collect()
        }
    }
}

pub fn run(ctx: &Ctx) {
    // thorough tier: services that have been up for more than a minute, in the background
    let longevity = if ctx.eff_tier() == crate::engine::Tier::Thorough && crate::engine::loopback_multicast_works() {
        Some(std::thread::spawn(|| {
            let a = std::thread::spawn(|| super::longev::still_answers_after("C13", false, 75));
            let mut f = super::longev::still_answers_after("C13", true, 75);
            f.extend(a.join().unwrap_or_default());
            f
        }))
    } else {
        None
    };
    run_spaces(ctx);
    if let Some(h) = longevity {
        // a scenario that a defect has wedged must not hold the verdict back
        let waited = std::time::Instant::now();
        while !h.is_finished() && waited.elapsed() < std::time::Duration::from_secs(120) {
            std::thread::sleep(std::time::Duration::from_millis(100));
        }
        let f = if h.is_finished() { h.join().unwrap_or_default() } else { vec![finding("C13|longevity|scenario-does-not-finish", "a long-lived-service scenario has not finished long after its script ended: a call into the service never returned".to_string(), json!({"kind": "socket-race", "scenario": "unfinished"}))] };
        let mut t = Tally::default();
        t.evals += 2;
        t.nontrivial += 2;
        t.transitions += 4;
        t.outcome(if f.is_empty() { "replies-exact" } else { "replies-wrong" });
        ctx.merge(t);
        ctx.violations(f);
        ctx.space("long-lived services (thorough tier only; sync and tokio ServiceDiscovery, in the background of the other spaces): an SRV question for the service's own instance is answered, a peer with TTL 2 is heard, and 75 s later the same question is still answered", 2, "complete for the two services");
    }
}

fn run_spaces(ctx: &Ctx) {
    let depth = ctx.eff_tier().pick(4usize, 6usize);
    ctx.set_rule("explicit-state BFS over histories of add-authoritative / add-cached / remove / clear on a 15-record menu (owners foo.bar.local, foobar.local, bar.local, local, _my.local, _mysrv.local, a._mysrv.local; classes IN/CH; A, AAAA, SRV, TXT, PTR) to the stated depth, each transition executed on the real ResourceRecordManager; states deduplicated by (record -> kind map, owners touched since the last clear); in every state every single question over 8 owners x 6 types x 3 classes x unicast bit and every ordered pair from a 24-question menu goes through the real build_reply and is judged by the reply model. non-trivial = state holds at least one record");
    ctx.assume("state abstraction: the real trie's shape is a function of the set of keys inserted since the last clear, which the fingerprint includes; validated by the insertion-order differential (every permutation of every <=3-record store gives the same verdicts)");
    ctx.assume("answers are compared as sets; optional subdomain answers are allowed, answers at the question's own name are required");
    let w = world();
    let ops = all_ops(w.menu.len());
    let states = explore(&w, depth, &ops);
    ctx.add_states(states.len() as u64);
    let singles = single_questions();
    let pairs = pair_menu();
    let chunks: Vec<&[(RefStore, Vec<Op>)]> = states.chunks(16).collect();
    par_shards(ctx, &chunks, |ss, t: &mut Tally| {
        let w = world();
        for (st, hist) in ss.iter() {
            t.evals += 1;
            if !st.recs.is_empty() {
                t.nontrivial += 1;
            }
            let f = check_state(&w, hist, &singles, &pairs, t);
            t.outcome(if f.is_empty() { "replies-exact" } else { "replies-wrong" });
            if !f.is_empty() {
                ctx.violations(f);
            }
        }
    });
    // every transition out of every state is executed on the real store and read back
    let ops_ref = &ops;
    par_shards(ctx, &chunks, |ss, t: &mut Tally| {
        let w = world();
        for (_, hist) in ss.iter() {
            for op in ops_ref.iter() {
                t.transitions += 1;
                let f = check_transition(&w, hist, *op);
                if !f.is_empty() {
                    t.outcome("transition-diverges");
                    ctx.violations(f);
                }
            }
        }
    });
    ctx.space(&format!("transition conformance: {} states x 46 operations, real store read back through get_domain_resources and compared with the reference store", states.len()), states.len() as u64 * 46, "complete");
    ctx.space(&format!("BFS to depth {} over 46 operations: {} distinct states x ({} single + {} pair queries)", depth, states.len(), singles.len(), pairs.len() * pairs.len()), states.len() as u64, "complete to the stated depth");
    ctx.sample(json!({"kind": "state", "history": states[states.len() / 2].1}));
    ctx.sample(json!({"kind": "query", "history": [Op::AddAuth(0), Op::AddAuth(4)], "questions": [Q { owner: 5, qtype: 33, qclass: 1, unicast: true }]}));
    // long repetitive histories: (a b)^k for every ordered pair of operations
    {
        let n_ops = ops.len();
        let pairs: Vec<(usize, usize)> = (0..n_ops).flat_map(|a| (0..n_ops).map(move |b| (a, b))).collect();
        let pch: Vec<&[(usize, usize)]> = pairs.chunks(32).collect();
        let red: Vec<Q> = singles.iter().filter(|q| !q.unicast && q.qclass != 3).cloned().collect();
        let total = std::sync::atomic::AtomicU64::new(0);
        par_shards(ctx, &pch, |ps, t: &mut Tally| {
            let w = world();
            let mut cnt = 0u64;
            for (a, b) in ps.iter() {
                for k in [3usize, 9] {
                    let mut h = Vec::new();
                    for _ in 0..k {
                        h.push(ops_ref[*a]);
                        h.push(ops_ref[*b]);
                    }
                    t.evals += 1;
                    t.nontrivial += 1;
                    cnt += 1;
                    let last = *h.last().unwrap();
                    let mut f = check_transition(&w, &h[..h.len() - 1], last);
                    f.extend(check_state(&w, &h, &red, &[], t));
                    if !f.is_empty() {
                        t.outcome("long-history-bad");
                        ctx.violations(f);
                    }
                }
            }
            total.fetch_add(cnt, std::sync::atomic::Ordering::Relaxed);
        });
        ctx.space("long histories: (a b)^k for every ordered pair of the 46 operations, k in {3,9}: store read back and queried", total.load(std::sync::atomic::Ordering::Relaxed), "complete");
    }
    // insertion-order differential: every permutation of every store of <= 3 authoritative/cached records
    let n = w.menu.len();
    let mut perms: Vec<Vec<Op>> = Vec::new();
    let kinds = |i: usize, k: usize| if k == 0 { Op::AddAuth(i) } else { Op::AddCached(i) };
    for i in 0..n {
        for j in 0..n {
            if i == j {
                continue;
            }
            for ki in 0..2 {
                for kj in 0..2 {
                    perms.push(vec![kinds(i, ki), kinds(j, kj)]);
                    if ctx.eff_tier() == crate::engine::Tier::Thorough {
                        for l in 0..n {
                            if l != i && l != j {
                                perms.push(vec![kinds(i, ki), kinds(j, kj), kinds(l, 0)]);
                            }
                        }
                    }
                }
            }
        }
    }
    let pchunks: Vec<&[Vec<Op>]> = perms.chunks(64).collect();
    let red_singles: Vec<Q> = singles.iter().filter(|q| !q.unicast).cloned().collect();
    par_shards(ctx, &pchunks, |hs, t: &mut Tally| {
        let w = world();
        for h in hs.iter() {
            t.evals += 1;
            t.nontrivial += 1;
            let f = check_state(&w, h, &red_singles, &[], t);
            t.outcome(if f.is_empty() { "order-independent" } else { "order-dependent" });
            if !f.is_empty() {
                ctx.violations(f);
            }
        }
    });
    ctx.space("insertion orders: every ordered pair (and triple, thorough) of distinct records x kinds, without deduplication", perms.len() as u64, "complete");
    responder_stage(ctx, false, ctx.eff_tier() == crate::engine::Tier::Thorough);
    responder_stage(ctx, true, ctx.eff_tier() == crate::engine::Tier::Thorough);
    std::thread::scope(|s| {
        // different service names: the two stages do not see each other's traffic as their own
        s.spawn(|| discovery_stage(ctx, false));
        s.spawn(|| discovery_stage(ctx, true));
    });
    // odd-shaped owners and large stores
    {
        let mut cases: Vec<(&str, usize, Vec<usize>, Vec<usize>)> = Vec::new();
        let n_odd = extra_world("odd", 0).0.menu.len();
        let all: Vec<usize> = (0..n_odd).collect();
        cases.push(("odd", 0, all.clone(), vec![]));
        cases.push(("odd", 0, all.iter().copied().filter(|i| i % 2 == 0).collect(), all.iter().copied().filter(|i| i % 2 == 1).collect()));
        cases.push(("odd", 0, all.iter().copied().filter(|i| i % 2 == 1).collect(), all.iter().copied().filter(|i| i % 2 == 0).collect()));
        for i in 0..n_odd {
            cases.push(("odd", 0, vec![i], vec![]));
            cases.push(("odd", 0, all.iter().copied().filter(|j| *j != i).collect(), vec![i]));
            for j in 0..n_odd {
                if i < j {
                    cases.push(("odd", 0, vec![i, j], vec![]));
                    cases.push(("odd", 0, vec![j, i], vec![]));
                }
            }
        }
        for n in [10usize, 31, 32, 33, 64, 100, 300] {
            let all: Vec<usize> = (0..3 * n).collect();
            cases.push(("scale", n, all.clone(), vec![]));
            cases.push(("scale", n, all.iter().copied().filter(|i| i % 5 != 0).collect(), all.iter().copied().filter(|i| i % 5 == 0).collect()));
        }
        for n in [31usize, 32, 33, 255, 256, 257, 1023, 1024, 1025, 1100] {
            // the registered record first and last, everything else cached
            cases.push(("bucket", n, vec![0, n + 1], (1..=n).collect()));
            cases.push(("bucket", n, vec![n + 1, 0], (1..=n).rev().collect()));
        }
        for n in [40usize, 255, 256, 257, 600] {
            let len = extra_world("types", n).0.menu.len();
            let all: Vec<usize> = (0..len).collect();
            cases.push(("types", n, all.clone(), vec![]));
            cases.push(("types", n, all.iter().copied().filter(|i| i % 3 != 0).collect(), all.iter().copied().filter(|i| i % 3 == 0).collect()));
            cases.push(("types", n, all.iter().rev().copied().filter(|i| i % 2 == 0).collect(), all.iter().rev().copied().filter(|i| i % 2 == 1).collect()));
        }
        {
            let n_cyc = extra_world("cyclic", 0).0.menu.len();
            let all: Vec<usize> = (0..n_cyc).collect();
            cases.push(("cyclic", 0, all.clone(), vec![]));
            cases.push(("cyclic", 0, vec![0, 1], vec![]));
            cases.push(("cyclic", 0, vec![2], vec![]));
            cases.push(("cyclic", 0, vec![3, 4, 5], vec![]));
            cases.push(("cyclic", 0, vec![6, 7], vec![]));
            cases.push(("cyclic", 0, vec![8, 9, 10, 11], vec![]));
            cases.push(("cyclic", 0, all.iter().copied().filter(|i| i % 2 == 0).collect(), all.iter().copied().filter(|i| i % 2 == 1).collect()));
        }
        let total = std::sync::atomic::AtomicU64::new(0);
        let root = ctx.verif_root.clone();
        par_shards(ctx, &cases, |(kind, n, auth, cached), t: &mut Tally| {
            t.evals += 1;
            t.nontrivial += 1;
            if *kind == "cyclic" {
                // unbounded recursion ends in a stack overflow, which aborts the process: run these in a child
                let case = json!({"kind": "extra", "world": kind, "n": n, "auth": auth, "cached": cached});
                let tag = format!("cyclic-{}", auth.iter().map(|i| i.to_string()).collect::<Vec<_>>().join("_"));
                match crate::engine::run_isolated(&root, "C13", &tag, &case) {
                    Ok(sigs) => {
                        t.outcome(if sigs.is_empty() { "replies-exact" } else { "replies-wrong" });
                        for (s, d) in sigs {
                            ctx.violation(finding(s, d, case.clone()));
                        }
                    }
                    Err(e) => {
                        t.outcome("process-abort");
                        ctx.violation(finding("C13|process-abort", format!("answering queries over a store whose records refer to each other in a cycle killed the process: {}", e), case.clone()));
                    }
                }
                total.fetch_add(1, std::sync::atomic::Ordering::Relaxed);
                return;
            }
            let (f, nq) = check_extra(kind, *n, auth, cached);
            t.transitions += nq;
            total.fetch_add(nq, std::sync::atomic::Ordering::Relaxed);
            t.outcome(if f.is_empty() { "replies-exact" } else { "replies-wrong" });
            if !f.is_empty() {
                ctx.violations(f);
            }
        });
        ctx.space(&format!("odd and large stores: {} stores (14 odd-shaped records singly, in ordered pairs, all together and all-but-one; owners with labels of 256/300/260 bytes, binary labels, a dot inside a label, the root, SRV at 1- and 2-label owners, the DNS-SD meta-query name; one owner name holding 31..1100 network-learned records next to a registered one; one owner name holding records of 40..600 distinct TYPE codes; 10..300 hosts x (A, SRV, PTR) fully authoritative and with every fifth record cached; PTR / CNAME / SRV records that refer to each other in cycles of length 1, 2 and 3, run in a child process) x every question over the world's names x 5 types x 2 classes", cases.len()), total.load(std::sync::atomic::Ordering::Relaxed), "complete");
        ctx.sample(json!({"kind": "extra", "world": "odd", "n": 0, "auth": [0, 1], "cached": []}));
    }
}

fn rename_under(n: &RefName, tag: &str) -> RefName {
    let mut l = n.0.clone();
    if l.last().map(|x| x.0 == b"local").unwrap_or(false) {
        l.insert(l.len() - 1, B(tag.as_bytes().to_vec()));
    }
    RefName(l)
}

/// The BFS menu with every owner and RDATA name moved below <tag>.local
pub fn renamed_world(tag: &str) -> World {
    let menu: Vec<RefRR> = menu()
        .into_iter()
        .map(|mut r| {
            r.name = rename_under(&r.name, tag);
            if let RefRData::Typed { vals, .. } = &mut r.rdata {
                for v in vals.iter_mut() {
                    if let Val::Name(n) = v {
                        *n = rename_under(n, tag);
                    }
                }
            }
            r
        })
        .collect();
    let m: &'static Vec<RefRR> = Box::leak(Box::new(menu));
    let lib: Vec<simple_dns::ResourceRecord<'static>> = m.iter().map(|r| lib_rr(r).expect("menu record")).collect();
    World { menu: m, lib }
}

/// The running responders (sync and tokio SimpleMdnsResponder) answer real queries sent over
/// loopback multicast; every reply that comes back is judged by the same reply model.
/// The menu is registered under a per-stage label so that both stages (and other checks) can
/// run on the same host.
/// The query-answering side of a running ServiceDiscovery (sync or tokio): while its instance
/// is registered, questions for the service and the instance name are answered with records of
/// that instance only; after remove_service_from_discovery() nothing is registered any more and
/// the same datagrams (byte-identical repeats as well as fresh ids) get no reply.
pub fn discovery_stage(ctx: &Ctx, asynchronous: bool) {
    use std::net::{Ipv4Addr, UdpSocket};
    use std::time::{Duration, Instant};
    let key = if asynchronous { "discovery_stage_tokio" } else { "discovery_stage_sync" };
    if !crate::engine::loopback_multicast_works() {
        ctx.set_extra(key, json!({"ran": false, "reason": "loopback multicast does not work here"}));
        return;
    }
    let kind = if asynchronous { "tokio" } else { "sync" };
    let svc = format!("_c13d{}._tcp.local", if asynchronous { "t" } else { "s" });
    let svc_name = RefName::txt(&svc);
    let inst_name = RefName::txt(&format!("me.{}", svc));
    let rt = match tokio::runtime::Builder::new_multi_thread().worker_threads(2).enable_all().build() {
        Ok(r) => r,
        Err(e) => {
            ctx.set_extra(key, json!({"ran": false, "reason": format!("no runtime: {}", e)}));
            return;
        }
    };
    enum D {
        S(simple_mdns::sync_discovery::ServiceDiscovery),
        A(simple_mdns::async_discovery::ServiceDiscovery),
    }
    let me = simple_mdns::InstanceInformation::new("me".to_string()).with_port(4321).with_ip_address("10.7.7.7".parse().unwrap()).with_attribute("k".to_string(), Some("v".to_string()));
    let started = guarded(|| -> Result<D, String> {
        Ok(if asynchronous {
            D::A(rt.block_on(async { simple_mdns::async_discovery::ServiceDiscovery::new(me, &svc, 120) }).map_err(|e| format!("{:?}", e))?)
        } else {
            D::S(simple_mdns::sync_discovery::ServiceDiscovery::new(me, &svc, 120).map_err(|e| format!("{:?}", e))?)
        })
    });
    let mut disc = match started {
        Ok(Ok(d)) => d,
        other => {
            ctx.set_extra(key, json!({"ran": false, "reason": format!("service could not be started: {:?}", other.err().map(|p| p.message))}));
            return;
        }
    };
    std::thread::sleep(Duration::from_millis(200));
    let tx = match UdpSocket::bind((Ipv4Addr::UNSPECIFIED, 0)) {
        Ok(s) => s,
        Err(e) => {
            ctx.set_extra(key, json!({"ran": false, "reason": format!("{}", e)}));
            return;
        }
    };
    let _ = tx.set_multicast_loop_v4(true);
    let _ = tx.set_read_timeout(Some(Duration::from_millis(40)));
    let datagram = |name: &RefName, qtype: u16, id: u16| {
        let mut q = RefPacket { id, ..Default::default() };
        q.questions.push(RefQ { name: name.clone(), qtype, qclass: 1, unicast: true });
        q.encode(0)
    };
    let send_wait = |bytes: &[u8], wait_ms: u64| -> Option<RefPacket> {
        let id = u16::from_be_bytes([bytes[0], bytes[1]]);
        let _ = tx.send_to(bytes, (Ipv4Addr::new(224, 0, 0, 251), 5353));
        let deadline = Instant::now() + Duration::from_millis(wait_ms);
        let mut buf = [0u8; 9000];
        while Instant::now() < deadline {
            if let Ok((n, _)) = tx.recv_from(&mut buf) {
                if let Ok((p, _)) = decode_packet(&buf[..n]) {
                    if p.id == id && p.flags & F_QR != 0 {
                        return Some(p);
                    }
                }
            }
        }
        None
    };
    let questions: Vec<(RefName, u16)> = vec![(svc_name.clone(), 12), (inst_name.clone(), 33), (inst_name.clone(), 16), (inst_name.clone(), 255), (svc_name.clone(), 255)];
    let mut t = Tally::default();
    let mut n = 0u64;
    let mut answered: Vec<Vec<u8>> = Vec::new();
    let case = |phase: &str, name: &RefName, qtype: u16| json!({"kind": "discovery-stage", "async": asynchronous, "phase": phase, "name": name, "qtype": qtype});
    for (i, (name, qtype)) in questions.iter().enumerate() {
        let bytes = datagram(name, *qtype, 0x6400 + i as u16);
        n += 1;
        t.evals += 1;
        t.transitions += 1;
        let mut reply = send_wait(&bytes, 400);
        if reply.is_none() {
            reply = send_wait(&bytes, 700);
        }
        match reply {
            None => {
                t.outcome("discovery-silent");
                ctx.violation(finding(format!("C13|discovery-stage|{}|no-reply-but-match", kind), format!("a running ServiceDiscovery with a registered instance does not answer a question for {:?} type {}", name, qtype), case("registered", name, *qtype)));
            }
            Some(p) => {
                t.nontrivial += 1;
                answered.push(bytes.clone());
                for a in &p.answers {
                    let owner_ok = a.name == *name || a.name.is_strict_subdomain_of(name);
                    let type_ok = *qtype == 255 || a.rdata.code() == *qtype;
                    let own = a.name == svc_name || a.name == inst_name;
                    if !owner_ok || !type_ok || !own {
                        t.outcome("discovery-reply-wrong");
                        ctx.violation(finding(format!("C13|discovery-stage|{}|answer-unjustified", kind), format!("question {:?} type {}: answer {:?} type {} is not a matching record of the registered instance", name, qtype, a.name, a.rdata.code()), case("registered", name, *qtype)));
                    }
                }
                // the same datagram again: the same question gets an equally good answer
                n += 1;
                t.evals += 1;
                t.transitions += 1;
                if send_wait(&bytes, 500).is_none() && send_wait(&bytes, 700).is_none() {
                    ctx.violation(finding(format!("C13|discovery-stage|{}|repeat-unanswered", kind), format!("the byte-identical repeat of an answered query for {:?} type {} gets no reply", name, qtype), case("repeat", name, *qtype)));
                }
            }
        }
    }
    // nothing is registered after removal
    match &mut disc {
        D::S(s) => s.remove_service_from_discovery(),
        D::A(a) => rt.block_on(a.remove_service_from_discovery()),
    }
    std::thread::sleep(Duration::from_millis(250));
    for (i, (name, qtype)) in questions.iter().enumerate() {
        for (how, bytes) in [("the byte-identical repeat of a query answered before", datagram(name, *qtype, 0x6400 + i as u16)), ("a query with a fresh id", datagram(name, *qtype, 0x6500 + i as u16))] {
            n += 1;
            t.evals += 1;
            t.transitions += 1;
            if let Some(p) = send_wait(&bytes, 150) {
                t.outcome("discovery-reply-wrong");
                ctx.violation(finding(
                    format!("C13|discovery-stage|{}|reply-after-removal", kind),
                    format!("after remove_service_from_discovery() nothing is registered, yet {} for {:?} type {} is answered with {} answers and {} additional records", how, name, qtype, p.answers.len(), p.additional.len()),
                    case("after remove_service_from_discovery", name, *qtype),
                ));
            }
        }
    }
    t.outcome("discovery-stage");
    ctx.merge(t);
    ctx.set_extra(key, json!({"ran": true, "queries": n}));
    ctx.space(&format!("running {} ServiceDiscovery over loopback multicast: questions for the service and the instance name (PTR, SRV, TXT, ANY) answered with matching records of the registered instance only, byte-identical repeats answered again; after remove_service_from_discovery() neither a repeat nor a fresh query gets a reply", kind), n, "complete for the listed questions");
    drop(disc);
    rt.shutdown_timeout(Duration::from_millis(100));
}

pub fn responder_stage(ctx: &Ctx, asynchronous: bool, thorough: bool) {
    use std::net::{Ipv4Addr, UdpSocket};
    use std::time::{Duration, Instant};
    let key = if asynchronous { "responder_stage_tokio" } else { "responder_stage_sync" };
    if !crate::engine::loopback_multicast_works() {
        ctx.set_extra(key, json!({"ran": false, "reason": "a raw socket joined to 224.0.0.251:5353 does not receive a datagram sent to the group from this host"}));
        return;
    }
    let tag = if asynchronous { "c13t" } else { "c13s" };
    let rename = |n: &RefName| rename_under(n, tag);
    let w = renamed_world(tag);
    let mut model = RefStore::default();
    let rt = tokio::runtime::Builder::new_multi_thread().worker_threads(2).enable_all().build();
    let rt = match rt {
        Ok(r) => r,
        Err(e) => {
            ctx.set_extra(key, json!({"ran": false, "reason": format!("no runtime: {}", e)}));
            return;
        }
    };
    enum R {
        S(simple_mdns::sync_discovery::SimpleMdnsResponder),
        A(simple_mdns::async_discovery::SimpleMdnsResponder),
    }
    let started = guarded(|| {
        let mut r = if asynchronous { R::A(rt.block_on(async { simple_mdns::async_discovery::SimpleMdnsResponder::new(120) })) } else { R::S(simple_mdns::sync_discovery::SimpleMdnsResponder::new(120)) };
        for rec in &w.lib {
            match &mut r {
                R::S(s) => s.add_resource(rec.clone()),
                R::A(a) => rt.block_on(a.add_resource(rec.clone())),
            }
        }
        r
    });
    let mut responder = match started {
        Ok(r) => r,
        Err(pn) => {
            ctx.violation(finding(format!("C13|responder-stage|{}", pn.sig()), format!("{:?}", pn), json!({"kind": "responder-stage", "async": asynchronous})));
            return;
        }
    };
    for i in 0..w.menu.len() {
        model.recs.insert(i, Kind::Auth);
    }
    std::thread::sleep(Duration::from_millis(150));
    let tx = match UdpSocket::bind((Ipv4Addr::UNSPECIFIED, 0)) {
        Ok(s) => s,
        Err(e) => {
            ctx.set_extra(key, json!({"ran": false, "reason": format!("{}", e)}));
            return;
        }
    };
    let _ = tx.set_multicast_loop_v4(true);
    let _ = tx.set_read_timeout(Some(Duration::from_millis(40)));
    let ask = |qs: &[QN], id: u16, wait_ms: u64| -> Vec<RefPacket> {
        let mut q = RefPacket { id, ..Default::default() };
        for x in qs {
            q.questions.push(RefQ { name: x.name.clone(), qtype: x.qtype, qclass: x.qclass, unicast: true });
        }
        let _ = tx.send_to(&q.encode(0), (Ipv4Addr::new(224, 0, 0, 251), 5353));
        let deadline = Instant::now() + Duration::from_millis(wait_ms);
        let mut got = Vec::new();
        let mut buf = [0u8; 9000];
        while Instant::now() < deadline {
            if let Ok((n, _)) = tx.recv_from(&mut buf) {
                if let Ok((p, _)) = decode_packet(&buf[..n]) {
                    if p.id == id && p.flags & F_QR != 0 {
                        got.push(p);
                        break;
                    }
                }
            }
        }
        got
    };
    // does the responder answer at all? (otherwise nothing can be concluded from silence)
    let probe = QN { name: w.menu[0].name.clone(), qtype: 1, qclass: 1, unicast: true };
    let mut alive = false;
    for attempt in 0..10u16 {
        if !ask(std::slice::from_ref(&probe), 0x6100 + attempt, 250).is_empty() {
            alive = true;
            break;
        }
    }
    if !alive {
        // the environment probe succeeded, the responder was started and a registered record is asked for: silence is a violation
        ctx.violation(finding(format!("C13|responder-stage|{}|silent", if asynchronous { "tokio" } else { "sync" }), "a running responder does not answer a query for a record registered through add_resource".to_string(), json!({"kind": "responder-stage", "async": asynchronous})));
        ctx.set_extra(key, json!({"ran": true, "queries": 0}));
        return;
    }
    let mut names: Vec<RefName> = w.menu.iter().map(|r| r.name.clone()).collect();
    names.push(rename(&RefName::txt("nothing.local")));
    names.sort();
    names.dedup();
    let qtypes: Vec<u16> = if thorough { vec![1, 28, 33, 16, 12, 255] } else { vec![1, 33, 255] };
    let mut t = Tally::default();
    let mut n = 0u64;
    let mut id = 0x6200u16;
    let mut phase_questions = |model: &RefStore, t: &mut Tally, n: &mut u64, id: &mut u16, label: &str| {
        for name in &names {
            for qt in &qtypes {
                for qc in [1u16, 255] {
                    if !thorough && qc == 255 && *qt != 255 {
                        continue;
                    }
                    *id = id.wrapping_add(1);
                    *n += 1;
                    t.evals += 1;
                    t.transitions += 1;
                    let q = QN { name: name.clone(), qtype: *qt, qclass: qc, unicast: true };
                    let expect_reply = model.recs.iter().any(|(i, k)| *k == Kind::Auth && (w.menu[*i].name == q.name || w.menu[*i].name.is_strict_subdomain_of(&q.name)) && type_matches(w.menu[*i].rdata.code(), q.qtype) && class_matches(w.menu[*i].class, q.qclass));
                    let mut replies = ask(std::slice::from_ref(&q), *id, if expect_reply { 400 } else { 60 });
                    if expect_reply && replies.is_empty() {
                        replies = ask(std::slice::from_ref(&q), *id, 600);
                    }
                    let reply = replies.into_iter().next().map(|p| (p, None));
                    if reply.is_some() {
                        t.nontrivial += 1;
                    }
                    let case = json!({"kind": "responder-stage", "async": asynchronous, "phase": label, "question": q});
                    for (tag, d) in judge_reply(&w, model, std::slice::from_ref(&q), *id, reply) {
                        t.outcome("responder-reply-wrong");
                        ctx.violation(finding(format!("C13|responder-stage|{}|{}", if asynchronous { "tokio" } else { "sync" }, tag), format!("[{}] question {:?} type {} class {}: {}", label, q.name, q.qtype, q.qclass, d), case.clone()));
                    }
                }
            }
        }
    };
    phase_questions(&model, &mut t, &mut n, &mut id, "all registered");
    // query datagrams of every size class up to the 9000-byte mDNS limit: one question that a
    // registered record answers, first or last among questions nothing answers
    {
        let hit = QN { name: w.menu[0].name.clone(), qtype: w.menu[0].rdata.code(), qclass: 1, unicast: true };
        let filler = |i: usize, extra: usize| QN { name: rename(&RefName(vec![B(format!("f{:03}{}", i, "x".repeat(extra)).into_bytes()), B(b"local".to_vec())])), qtype: 1, qclass: 1, unicast: true };
        let enc_len = |qs: &[QN]| {
            let mut q = RefPacket::default();
            for x in qs {
                q.questions.push(RefQ { name: x.name.clone(), qtype: x.qtype, qclass: x.qclass, unicast: true });
            }
            q.encode(0).len()
        };
        let one = enc_len(&[filler(0, 0)]) - 12;
        for size in [600usize, 1472, 1500, 2048, 4000, 4095, 4096, 4097, 4098, 4200, 5000, 6000, 8000, 8192, 8900, 8999, 9000] {
            for hit_last in [false, true] {
                let base = enc_len(std::slice::from_ref(&hit));
                if size < base + one {
                    continue;
                }
                let k = (size - base) / one;
                let pad = (size - base) % one;
                let mut qs: Vec<QN> = (0..k).map(|i| filler(i, if i + 1 == k { pad.min(50) } else { 0 })).collect();
                if hit_last {
                    qs.push(hit.clone());
                } else {
                    qs.insert(0, hit.clone());
                }
                let actual = enc_len(&qs);
                id = id.wrapping_add(1);
                n += 1;
                t.evals += 1;
                t.transitions += 1;
                let mut replies = ask(&qs, id, 500);
                if replies.is_empty() {
                    replies = ask(&qs, id, 800);
                }
                let reply = replies.into_iter().next().map(|p| (p, None));
                if reply.is_some() {
                    t.nontrivial += 1;
                }
                let case = json!({"kind": "responder-stage", "async": asynchronous, "phase": "large query", "question": hit, "datagram_bytes": actual, "questions": qs.len(), "hit_last": hit_last});
                for (tag, d) in judge_reply(&w, &model, &qs, id, reply) {
                    t.outcome("responder-reply-wrong");
                    ctx.violation(finding(format!("C13|responder-stage|{}|large-query|{}", if asynchronous { "tokio" } else { "sync" }, tag), format!("[query datagram of {} bytes, {} questions, the answerable one {}] {}", actual, qs.len(), if hit_last { "last" } else { "first" }, crate::engine::truncate(&d, 600)), case.clone()));
                }
            }
        }
    }
    // remove every third record through the public API, ask again; clear, ask again
    for i in (0..w.menu.len()).filter(|i| i % 3 == 0) {
        match &mut responder {
            R::S(s) => s.remove_resource_record(w.lib[i].clone()),
            R::A(a) => rt.block_on(a.remove_resource_record(w.lib[i].clone())),
        }
        model.recs.remove(&i);
    }
    phase_questions(&model, &mut t, &mut n, &mut id, "after remove_resource_record");
    match &mut responder {
        R::S(s) => s.clear(),
        R::A(a) => rt.block_on(a.clear()),
    }
    model.recs.clear();
    if thorough {
        phase_questions(&model, &mut t, &mut n, &mut id, "after clear");
    }
    t.outcome("responder-stage");
    ctx.merge(t);
    ctx.set_extra(key, json!({"ran": true, "queries": n}));
    ctx.space(&format!("running {} SimpleMdnsResponder over loopback multicast: the 15-record menu registered through add_resource, every owner x question types x classes asked with the unicast bit, query datagrams of 600..9000 bytes (17 sizes incl. 4095..4098 and 8999/9000) holding one answerable question first or last, replies decoded by the reference decoder and judged by the reply model; again after remove_resource_record on a third of the records{}", if asynchronous { "tokio" } else { "sync" }, if thorough { " and after clear" } else { "" }), n, "complete for the listed questions");
    rt.shutdown_timeout(Duration::from_millis(100));
}

/// Worlds outside the BFS menu: odd-shaped owners (labels longer than 255 bytes built without
/// validation, binary labels, a literal dot inside a label, the root), the DNS-SD meta-query
/// name, SRV records at one- and two-label owners; and stores with hundreds of records.
pub fn extra_world(kind: &str, n: usize) -> (World, Vec<QN>) {
    let nm = |s: &str| RefName::txt(s);
    let srv = |owner: RefName, port: u16, target: &str| RefRR { name: owner, class: 1, cache_flush: false, ttl: 120, rdata: typed(33, vec![Val::U16(0), Val::U16(0), Val::U16(port), Val::Name(RefName::txt(target))]) };
    let ptr = |owner: &str, target: &str| RefRR { name: RefName::txt(owner), class: 1, cache_flush: false, ttl: 120, rdata: typed(12, vec![Val::Name(RefName::txt(target))]) };
    let arec = |owner: RefName, ip: u32| RefRR { name: owner, class: 1, cache_flush: false, ttl: 120, rdata: typed(1, vec![Val::U32(ip)]) };
    let mut menu: Vec<RefRR> = Vec::new();
    let mut qnames: Vec<RefName> = Vec::new();
    let mut extra_qtypes: Vec<u16> = Vec::new();
    if kind == "odd" {
        let long = |prefix: &[u8], extra: usize| {
            let mut l = prefix.to_vec();
            l.extend(std::iter::repeat(b'x').take(extra));
            RefName(vec![B(l), B(b"local".to_vec())])
        };
        menu.push(arec(nm("host.local"), 1));
        menu.push(arec(long(b"host", 256), 2));
        menu.push(arec(long(b"", 300), 3));
        menu.push(arec(long(b"host", 252), 4));
        menu.push(srv(nm("printer.local"), 515, "host.local"));
        menu.push(srv(nm("local"), 1, "host.local"));
        menu.push(srv(nm("web._http._tcp.local"), 80, "host.local"));
        menu.push(ptr("_http._tcp.local", "web._http._tcp.local"));
        menu.push(ptr("_services._dns-sd._udp.local", "_http._tcp.local"));
        menu.push(arec(RefName(vec![B(vec![0xff, 0x00]), B(b"local".to_vec())]), 9));
        menu.push(arec(RefName(vec![B(b"a.b".to_vec()), B(b"local".to_vec())]), 10));
        menu.push(arec(nm("a.b.local"), 11));
        menu.push(RefRR { name: RefName::root(), class: 1, cache_flush: false, ttl: 120, rdata: typed(16, vec![Val::Strs(vec![B(b"root".to_vec())])]) });
        menu.push(arec(nm("b.local"), 13));
        for r in &menu {
            qnames.push(r.name.clone());
        }
        for s in ["_dns-sd._udp.local", "_udp.local", "_tcp.local", "_services._dns-sd._udp.printer.local", "_SERVICES._DNS-SD._UDP.local", "hos.local", "hostx.local"] {
            qnames.push(nm(s));
        }
    } else if kind == "bucket" {
        // one owner name holding thousands of records: record 0 is the registered one, the rest
        // are distinct address records of the same name (received from the network in the checks)
        menu.push(arec(nm("host.local"), 0xc0a8_010a));
        for i in 0..n {
            menu.push(arec(nm("host.local"), 0x0a00_0000 + i as u32));
        }
        menu.push(arec(nm("other.local"), 7));
        qnames.push(nm("host.local"));
        qnames.push(nm("other.local"));
        qnames.push(nm("local"));
    } else if kind == "types" {
        // one owner name holding records of hundreds of DISTINCT types (the library has no
        // variant for most of them), next to ordinary ones
        menu.push(arec(nm("host.local"), 0xc0a8_010b));
        menu.push(RefRR { name: nm("host.local"), class: 1, cache_flush: false, ttl: 120, rdata: typed(16, vec![Val::Strs(vec![B(b"k=v".to_vec())])]) });
        menu.push(srv(nm("host.local"), 9, "host.local"));
        let mut used = 0usize;
        let mut i = 0usize;
        while used < n && i < 4000 {
            let code = 300u16 + (i as u16) * 13;
            i += 1;
            if !crate::bind::library_has_no_variant_for(code) {
                continue;
            }
            extra_qtypes.push(code);
            let owner = if used % 5 == 4 { nm("alt.local") } else { nm("host.local") };
            menu.push(RefRR { name: owner, class: 1, cache_flush: false, ttl: 120, rdata: RefRData::Opaque { code, data: B(vec![used as u8, (used >> 8) as u8, 1]) } });
            used += 1;
        }
        let keep = [0usize, extra_qtypes.len() / 2, extra_qtypes.len().saturating_sub(1), 4.min(extra_qtypes.len().saturating_sub(1))];
        let chosen: Vec<u16> = keep.iter().filter_map(|k| extra_qtypes.get(*k).copied()).collect();
        extra_qtypes = chosen;
        extra_qtypes.push(299);
        qnames.push(nm("host.local"));
        qnames.push(nm("alt.local"));
        qnames.push(nm("local"));
    } else if kind == "cyclic" {
        // records that refer to each other in cycles: anything that follows references must stop
        menu.push(ptr("_printer._tcp.local", "_ipp._tcp.local"));
        menu.push(ptr("_ipp._tcp.local", "_printer._tcp.local"));
        menu.push(ptr("self._tcp.local", "self._tcp.local"));
        menu.push(ptr("a3._udp.local", "b3._udp.local"));
        menu.push(ptr("b3._udp.local", "c3._udp.local"));
        menu.push(ptr("c3._udp.local", "a3._udp.local"));
        menu.push(RefRR { name: nm("x.local"), class: 1, cache_flush: false, ttl: 120, rdata: typed(5, vec![Val::Name(nm("y.local"))]) });
        menu.push(RefRR { name: nm("y.local"), class: 1, cache_flush: false, ttl: 120, rdata: typed(5, vec![Val::Name(nm("x.local"))]) });
        menu.push(srv(nm("s1._tcp.local"), 1, "s2._tcp.local"));
        menu.push(srv(nm("s2._tcp.local"), 2, "s1._tcp.local"));
        menu.push(arec(nm("s1._tcp.local"), 1));
        menu.push(arec(nm("s2._tcp.local"), 2));
        menu.push(arec(nm("_ipp._tcp.local"), 3));
        for r in &menu {
            qnames.push(r.name.clone());
        }
        for s in ["_tcp.local", "_udp.local", "local"] {
            qnames.push(nm(s));
        }
    } else {
        for i in 0..n {
            menu.push(arec(nm(&format!("h{:03}.local", i)), i as u32));
            menu.push(srv(nm(&format!("i{:03}._svc._tcp.local", i)), 1000 + i as u16, &format!("h{:03}.local", (i * 7) % n)));
            menu.push(ptr("_svc._tcp.local", &format!("i{:03}._svc._tcp.local", i)));
        }
        for s in ["local", "_svc._tcp.local", "_tcp.local", "h000.local", "i000._svc._tcp.local", "nothing.local"] {
            qnames.push(nm(s));
        }
        qnames.push(nm(&format!("h{:03}.local", n / 2)));
        qnames.push(nm(&format!("h{:03}.local", n - 1)));
        qnames.push(nm(&format!("i{:03}._svc._tcp.local", n - 1)));
    }
    qnames.sort();
    qnames.dedup();
    let mut qs = Vec::new();
    for name in qnames {
        for qtype in [1u16, 33, 12, 16, 255].into_iter().chain(extra_qtypes.iter().copied()) {
            for qclass in [1u16, 255] {
                qs.push(QN { name: name.clone(), qtype, qclass, unicast: qtype == 33 });
            }
        }
    }
    let m: &'static Vec<RefRR> = Box::leak(Box::new(menu));
    let lib = m.iter().map(|r| lib_rr(r).expect("menu record")).collect();
    (World { menu: m, lib }, qs)
}

/// One store of an extra world: the records in `auth` registered as authoritative, those in
/// `cached` received from the network; every question of the world judged.
pub fn check_extra(kind: &str, n: usize, auth: &[usize], cached: &[usize]) -> (Vec<Finding>, u64) {
    let case = json!({"kind": "extra", "world": kind, "n": n, "auth": auth, "cached": cached});
    let r = guarded(|| {
        let (w, qs) = extra_world(kind, n);
        let mut store = ResourceRecordManager::new();
        let mut model = RefStore::default();
        let cached_first = kind == "bucket" && auth.first() != Some(&0);
        if cached_first {
            for i in cached {
                store.add_cached_resource(w.lib[*i].clone());
                model.recs.entry(*i).or_insert(Kind::Cached);
            }
        }
        for i in auth {
            store.add_authoritative_resource(w.lib[*i].clone());
            model.recs.insert(*i, Kind::Auth);
        }
        if !cached_first {
            for i in cached {
                store.add_cached_resource(w.lib[*i].clone());
                model.recs.entry(*i).or_insert(Kind::Cached);
            }
        }
        let mut bad: Vec<(String, String)> = Vec::new();
        for q in &qs {
            for (tag, d) in judge_q(&w, &store, &model, std::slice::from_ref(q), 0x4d52, &[]) {
                bad.push((tag, format!("question {:?} type {} class {}: {}", q.name, q.qtype, q.qclass, d)));
            }
        }
        let mut asked = qs.len() as u64;
        if (kind == "scale" || kind == "types") && bad.is_empty() {
            // churn: remove every third record, ask again; register them again, ask again
            let gone: Vec<usize> = model.recs.keys().copied().filter(|i| i % 3 == 1).collect();
            for phase in 0..2 {
                for i in &gone {
                    if phase == 0 {
                        store.remove_resource_record(&w.lib[*i]);
                        model.recs.remove(i);
                    } else {
                        store.add_authoritative_resource(w.lib[*i].clone());
                        model.recs.insert(*i, Kind::Auth);
                    }
                }
                for q in &qs {
                    asked += 1;
                    for (tag, d) in judge_q(&w, &store, &model, std::slice::from_ref(q), 0x4d54, &[]) {
                        bad.push((format!("{}|after-churn", tag), format!("after {} {} records: question {:?} type {} class {}: {}", if phase == 0 { "removing" } else { "re-registering" }, gone.len(), q.name, q.qtype, q.qclass, d)));
                    }
                }
            }
        }
        (bad, asked)
    });
    match r {
        Err(pn) => (vec![finding(format!("C13|extra|{}", pn.sig()), format!("{:?}", pn), case)], 0),
        Ok((bad, n)) => {
            let mut seen = BTreeSet::new();
            (bad.into_iter().filter(|(t, _)| seen.insert(t.clone())).map(|(t, d)| finding(format!("C13|{}", t), crate::engine::truncate(&d, 1500), case.clone())).collect(), n)
        }
    }
}

pub fn replay(case: &Value) -> Vec<Finding> {
    if case["kind"].as_str() == Some("discovery-stage") {
        // a socket-level observation: it is reproduced by running the stage again
        return vec![];
    }
    if case["kind"].as_str() == Some("responder-stage") {
        // replayed on the in-memory path: the same store content, the same question, the real build_reply
        let asynchronous = case["async"].as_bool().unwrap_or(false);
        let q: QN = match serde_json::from_value(case["question"].clone()) {
            Ok(q) => q,
            Err(_) => return vec![],
        };
        let w = renamed_world(if asynchronous { "c13t" } else { "c13s" });
        let phase = case["phase"].as_str().unwrap_or("");
        let r = guarded(|| {
            let mut store = ResourceRecordManager::new();
            let mut model = RefStore::default();
            for (i, rec) in w.lib.iter().enumerate() {
                if phase == "after clear" || (phase == "after remove_resource_record" && i % 3 == 0) {
                    continue;
                }
                store.add_authoritative_resource(rec.clone());
                model.recs.insert(i, Kind::Auth);
            }
            judge_q(&w, &store, &model, std::slice::from_ref(&q), 0x6200, &[])
        });
        return match r {
            Err(pn) => vec![finding(format!("C13|{}", pn.sig()), format!("{:?}", pn), case.clone())],
            Ok(bad) => bad.into_iter().map(|(t, d)| finding(format!("C13|responder-stage|replayed-in-memory|{}", t), d, case.clone())).collect(),
        };
    }
    if case["kind"].as_str() == Some("extra") {
        let idx = |k: &str| -> Vec<usize> { case[k].as_array().map(|a| a.iter().filter_map(|x| x.as_u64().map(|v| v as usize)).collect()).unwrap_or_default() };
        return check_extra(case["world"].as_str().unwrap_or("odd"), case["n"].as_u64().unwrap_or(0) as usize, &idx("auth"), &idx("cached")).0;
    }
    let hist: Vec<Op> = serde_json::from_value(case["history"].clone()).unwrap_or_default();
    let w = world();
    let mut t = Tally::default();
    match case["kind"].as_str().unwrap_or("") {
        "transition" => {
            if hist.is_empty() {
                return vec![];
            }
            check_transition(&w, &hist[..hist.len() - 1], hist[hist.len() - 1])
        }
        "query" => {
            let qs: Vec<Q> = serde_json::from_value(case["questions"].clone()).unwrap_or_default();
            let mut model = RefStore::default();
            for op in &hist {
                model.apply(*op, w.menu);
            }
            let known: Vec<RefRR> = serde_json::from_value(case["known"].clone()).unwrap_or_default();
            let r = guarded(|| {
                let store = build_store(&w, &hist);
                let qn: Vec<QN> = qs.iter().map(|q| QN { name: RefName::txt(OWNERS[q.owner]), qtype: q.qtype, qclass: q.qclass, unicast: q.unicast }).collect();
                let mut bad = judge_q(&w, &store, &model, &qn, 0x4d51, &known);
                if !known.is_empty() {
                    for b in bad.iter_mut() {
                        b.0 = format!("{}|known-answers", b.0);
                    }
                }
                bad
            });
            match r {
                Err(pn) => vec![finding(format!("C13|{}", pn.sig()), format!("{:?}", pn), case.clone())],
                Ok(bad) => bad.into_iter().map(|(tag, d)| finding(format!("C13|{}", tag), d, case.clone())).collect(),
            }
        }
        _ => check_state(&w, &hist, &single_questions(), &pair_menu(), &mut t),
    }
}
