//! Long-lived service objects under the real clock: scenarios that need 10-80 s of elapsed
//! time (the services' own 5-second refresh polls, minute-scale housekeeping). They run on a
//! background thread while the rest of a property's spaces are explored and are joined at the
//! end, so they cost no extra wall time.

use super::finding;
use crate::engine::Finding;
use crate::refmodel::packet::*;
use crate::refmodel::schema::Val;
use crate::refmodel::RefName;
use serde_json::json;
use std::net::{Ipv4Addr, UdpSocket};
use std::time::{Duration, Instant};

/// The scenarios sleep for many seconds and call into services that a defect may have wedged:
/// they are not "one case of the code under test" for the hang monitor, so panics are caught
/// here without its heartbeat, and calls that may never return are made on helper threads.
fn shielded<T>(f: impl FnOnce() -> T + std::panic::UnwindSafe) -> Result<T, String> {
    std::panic::catch_unwind(f).map_err(|e| {
        if let Some(s) = e.downcast_ref::<&str>() {
            s.to_string()
        } else if let Some(s) = e.downcast_ref::<String>() {
            s.clone()
        } else {
            "panic".to_string()
        }
    })
}

/// Run `f` on a helper thread; None if it has not returned after `limit`.
fn within<T: Send + 'static>(limit: Duration, f: impl FnOnce() -> T + Send + 'static) -> Option<T> {
    let (tx, rx) = std::sync::mpsc::channel();
    std::thread::spawn(move || {
        let _ = tx.send(f());
    });
    rx.recv_timeout(limit).ok()
}

enum D {
    S(simple_mdns::sync_discovery::ServiceDiscovery),
    A(simple_mdns::async_discovery::ServiceDiscovery),
}

fn start(rt: &tokio::runtime::Runtime, asynchronous: bool, name: &str, svc: &str) -> Result<D, String> {
    let me = simple_mdns::InstanceInformation::new(name.to_string()).with_port(4555).with_ip_address("10.6.6.6".parse().unwrap());
    Ok(if asynchronous {
        D::A(rt.block_on(async { simple_mdns::async_discovery::ServiceDiscovery::new(me, svc, 120) }).map_err(|e| format!("{:?}", e))?)
    } else {
        D::S(simple_mdns::sync_discovery::ServiceDiscovery::new(me, svc, 120).map_err(|e| format!("{:?}", e))?)
    })
}

fn known(rt: &tokio::runtime::Runtime, d: &D) -> Vec<String> {
    let set = match d {
        D::S(s) => s.get_known_services(),
        D::A(a) => rt.block_on(a.get_known_services()),
    };
    let mut v: Vec<String> = set.iter().map(|i| i.unescaped_instance_name()).collect();
    v.sort();
    v
}

fn announcement(svc: &str, inst: &str, ttl: u32) -> Vec<u8> {
    let n = RefName::txt(&format!("{}.{}", inst, svc));
    let mut p = RefPacket { id: 0, flags: F_QR | F_AA, ..Default::default() };
    p.answers.push(RefRR { name: n.clone(), class: 1, cache_flush: false, ttl, rdata: typed(33, vec![Val::U16(0), Val::U16(0), Val::U16(4100), Val::Name(n.clone())]) });
    p.answers.push(RefRR { name: n.clone(), class: 1, cache_flush: false, ttl, rdata: typed(1, vec![Val::U32(0x0a060601)]) });
    p.encode_compressed(0, true)
}

fn sender() -> Result<UdpSocket, String> {
    let tx = UdpSocket::bind((Ipv4Addr::UNSPECIFIED, 0)).map_err(|e| format!("{}", e))?;
    let _ = tx.set_multicast_loop_v4(true);
    let _ = tx.set_read_timeout(Some(Duration::from_millis(40)));
    Ok(tx)
}

fn ask_srv(tx: &UdpSocket, name: &RefName, id: u16, wait_ms: u64) -> bool {
    let mut q = RefPacket { id, ..Default::default() };
    q.questions.push(RefQ { name: name.clone(), qtype: 33, qclass: 1, unicast: true });
    let _ = tx.send_to(&q.encode(0), (Ipv4Addr::new(224, 0, 0, 251), 5353));
    let deadline = Instant::now() + Duration::from_millis(wait_ms);
    let mut buf = [0u8; 9000];
    while Instant::now() < deadline {
        if let Ok((n, _)) = tx.recv_from(&mut buf) {
            if let Ok((p, _)) = decode_packet(&buf[..n]) {
                if p.id == id && p.flags & F_QR != 0 && !p.answers.is_empty() {
                    return true;
                }
            }
        }
    }
    false
}

/// C14: one response from a peer that then stays silent (TTL 12: its refresh point passes and
/// nobody answers the refresh query). 13 s later the service still works: announce() succeeds
/// and a new response is still ingested.
pub fn silent_peer(prop: &str, asynchronous: bool) -> Vec<Finding> {
    let kind = if asynchronous { "tokio" } else { "sync" };
    let svc = format!("_lv14{}._tcp.local", if asynchronous { "t" } else { "s" });
    let case = json!({"kind": "socket-race", "scenario": "silent-peer", "async": asynchronous});
    let rt = match tokio::runtime::Builder::new_multi_thread().worker_threads(2).enable_all().build() {
        Ok(r) => r,
        Err(_) => return vec![],
    };
    let r = shielded(std::panic::AssertUnwindSafe(|| -> Result<Vec<(String, String)>, String> {
        let mut bad = Vec::new();
        let d = start(&rt, asynchronous, "me", &svc)?;
        std::thread::sleep(Duration::from_millis(300));
        let tx = sender()?;
        tx.send_to(&announcement(&svc, "ghost", 12), (Ipv4Addr::new(224, 0, 0, 251), 5353)).map_err(|e| format!("{}", e))?;
        std::thread::sleep(Duration::from_millis(13_000));
        let d = std::sync::Arc::new(std::sync::Mutex::new(d));
        let d2 = d.clone();
        let handle = rt.handle().clone();
        let alive_api = within(Duration::from_secs(5), move || match &mut *d2.lock().unwrap() {
            D::S(s) => {
                s.announce(false);
                true
            }
            D::A(a) => handle.block_on(a.announce(false)).is_ok(),
        });
        let alive_api = match alive_api {
            Some(v) => v,
            None => {
                bad.push(("silent-peer|announce-does-not-return".to_string(), format!("13 s after a single response from a peer that never answered again, announce() on the {} ServiceDiscovery has not returned after 5 s: the service is wedged", kind)));
                return Ok(bad);
            }
        };
        if !alive_api {
            bad.push(("silent-peer|announce-fails".to_string(), format!("13 s after a single response (TTL 12) from a peer that never answered again, announce() on the {} ServiceDiscovery returns an error: the service has stopped", kind)));
        }
        tx.send_to(&announcement(&svc, "late", 120), (Ipv4Addr::new(224, 0, 0, 251), 5353)).map_err(|e| format!("{}", e))?;
        let deadline = Instant::now() + Duration::from_millis(1500);
        let mut seen = false;
        while Instant::now() < deadline {
            let d3 = d.clone();
            let handle = rt.handle().clone();
            let names = within(Duration::from_secs(5), move || {
                let g = d3.lock().unwrap();
                let set = match &*g {
                    D::S(s) => s.get_known_services(),
                    D::A(a) => handle.block_on(a.get_known_services()),
                };
                set.iter().map(|i| i.unescaped_instance_name()).collect::<Vec<String>>()
            });
            match names {
                None => {
                    bad.push(("silent-peer|store-does-not-answer".to_string(), format!("get_known_services() on the {} ServiceDiscovery has not returned after 5 s: the store is wedged", kind)));
                    return Ok(bad);
                }
                Some(v) => {
                    if v.iter().any(|n| n == "late") {
                        seen = true;
                        break;
                    }
                }
            }
            std::thread::sleep(Duration::from_millis(50));
        }
        if !seen {
            bad.push(("silent-peer|receive-loop-dead".to_string(), format!("13 s after a single response (TTL 12) from a peer that never answered again, the {} ServiceDiscovery no longer ingests a new response", kind)));
        }
        Ok(bad)
    }));
    rt.shutdown_timeout(Duration::from_millis(100));
    match r {
        Err(pn) => vec![finding(format!("{}|longevity|panic", prop), pn, case)],
        Ok(Err(_)) => vec![],
        Ok(Ok(bad)) => bad.into_iter().map(|(t, x)| finding(format!("{}|longevity|{}|{}", prop, t, kind), x, case.clone())).collect(),
    }
}

/// C20: two peers heard once, x with TTL 2 and y with TTL 8, half a second after the watcher
/// started: {x, y} after 1 s, {y} after 3 s, nothing after 10 s (the watcher's own 5 s refresh
/// polls fall in between and must not renew anything).
pub fn two_lifetimes(prop: &str, asynchronous: bool) -> Vec<Finding> {
    let kind = if asynchronous { "tokio" } else { "sync" };
    let svc = format!("_lv20{}._tcp.local", if asynchronous { "t" } else { "s" });
    let case = json!({"kind": "socket-race", "scenario": "two-lifetimes", "async": asynchronous});
    let rt = match tokio::runtime::Builder::new_multi_thread().worker_threads(2).enable_all().build() {
        Ok(r) => r,
        Err(_) => return vec![],
    };
    let r = shielded(std::panic::AssertUnwindSafe(|| -> Result<Vec<(String, String)>, String> {
        let mut bad = Vec::new();
        let d = start(&rt, asynchronous, "watcher", &svc)?;
        std::thread::sleep(Duration::from_millis(500));
        let tx = sender()?;
        tx.send_to(&announcement(&svc, "x", 2), (Ipv4Addr::new(224, 0, 0, 251), 5353)).map_err(|e| format!("{}", e))?;
        tx.send_to(&announcement(&svc, "y", 8), (Ipv4Addr::new(224, 0, 0, 251), 5353)).map_err(|e| format!("{}", e))?;
        let t0 = Instant::now();
        std::thread::sleep(Duration::from_millis(900));
        let k1 = known(&rt, &d);
        if k1 != vec!["x".to_string(), "y".to_string()] {
            // reception itself is C15's question: without both peers listed nothing can be said about expiry
            return Ok(bad);
        }
        for (at, want) in [(3000u64, vec!["y".to_string()]), (10_400, vec![])] {
            let now = t0.elapsed();
            if now < Duration::from_millis(at) {
                std::thread::sleep(Duration::from_millis(at) - now);
            }
            let k = known(&rt, &d);
            let stale: Vec<&String> = k.iter().filter(|n| !want.contains(n)).collect();
            if !stale.is_empty() {
                bad.push(("two-lifetimes|still-listed".to_string(), format!("peers heard once with TTL 2 (x) and TTL 8 (y): {} ms after reception the {} watcher lists {:?}, only {:?} can still be alive", at, kind, k, want)));
                break;
            }
        }
        Ok(bad)
    }));
    rt.shutdown_timeout(Duration::from_millis(100));
    match r {
        Err(pn) => vec![finding(format!("{}|longevity|panic", prop), pn, case)],
        Ok(Err(_)) => vec![],
        Ok(Ok(bad)) => bad.into_iter().map(|(t, x)| finding(format!("{}|longevity|{}|{}", prop, t, kind), x, case.clone())).collect(),
    }
}

/// C13 (thorough): a service that has been up for more than a minute, and has in the meantime
/// heard a short-lived peer, still answers a question for its own instance.
pub fn still_answers_after(prop: &str, asynchronous: bool, secs: u64) -> Vec<Finding> {
    let kind = if asynchronous { "tokio" } else { "sync" };
    let svc = format!("_lv13{}._tcp.local", if asynchronous { "t" } else { "s" });
    let case = json!({"kind": "socket-race", "scenario": "still-answers", "async": asynchronous, "secs": secs});
    let rt = match tokio::runtime::Builder::new_multi_thread().worker_threads(2).enable_all().build() {
        Ok(r) => r,
        Err(_) => return vec![],
    };
    let r = shielded(std::panic::AssertUnwindSafe(|| -> Result<Vec<(String, String)>, String> {
        let mut bad = Vec::new();
        let _d = start(&rt, asynchronous, "me", &svc)?;
        std::thread::sleep(Duration::from_millis(300));
        let tx = sender()?;
        let inst = RefName::txt(&format!("me.{}", svc));
        if !ask_srv(&tx, &inst, 0x6601, 500) && !ask_srv(&tx, &inst, 0x6602, 800) {
            // whether a fresh service answers is the responder stage's question
            return Ok(bad);
        }
        tx.send_to(&announcement(&svc, "ghost", 2), (Ipv4Addr::new(224, 0, 0, 251), 5353)).map_err(|e| format!("{}", e))?;
        std::thread::sleep(Duration::from_secs(secs));
        if !ask_srv(&tx, &inst, 0x6603, 500) && !ask_srv(&tx, &inst, 0x6604, 900) {
            bad.push(("still-answers|silent".to_string(), format!("a {} ServiceDiscovery that answered an SRV question for its own instance no longer answers it {} s later (one short-lived peer was heard in between, nothing was unregistered)", kind, secs)));
        }
        Ok(bad)
    }));
    rt.shutdown_timeout(Duration::from_millis(100));
    match r {
        Err(pn) => vec![finding(format!("{}|longevity|panic", prop), pn, case)],
        Ok(Err(_)) => vec![],
        Ok(Ok(bad)) => bad.into_iter().map(|(t, x)| finding(format!("{}|longevity|{}|{}", prop, t, kind), x, case.clone())).collect(),
    }
}
