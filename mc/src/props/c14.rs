//! C14 — no datagram can crash or wedge the mDNS services.
//! Pure handling pipelines (responder, sync discovery with and without channel, async ingest,
//! one-shot resolver) composed from the real functions in the order each receive loop uses them,
//! driven with a datagram alphabet against several store states, each hostile datagram followed by
//! benign traffic; then a socket-level replay against the running services on loopback multicast.

use super::finding;
use crate::engine::{guarded, hex, par_shards, unhex, Ctx, Finding, PanicInfo, Tally};
use crate::refmodel::packet::*;
use crate::refmodel::schema::Val;
use crate::refmodel::{RefName, B};
use serde_json::{json, Value};
use simple_dns::rdata::{RData, PTR};
use simple_dns::{header_buffer, Name, Packet, PacketFlag, ResourceRecord, CLASS, TYPE};
use simple_mdns::verif::{add_response_to_resources, add_response_to_resources_async, build_reply, DomainResourceFilter, ResourceRecordManager};
use simple_mdns::InstanceInformation;
use std::net::{IpAddr, Ipv4Addr, Ipv6Addr, SocketAddr, UdpSocket};
use std::sync::{Arc, RwLock};
use std::time::{Duration, Instant};

const SERVICE: &str = "_mysrv._tcp.local";
type Store = Arc<RwLock<ResourceRecordManager<'static>>>;

fn service_name() -> Name<'static> {
    Name::new(SERVICE).unwrap().into_owned()
}
fn own_full() -> Name<'static> {
    Name::new_unchecked("me._mysrv._tcp.local").into_owned()
}

fn own_instance() -> InstanceInformation {
    InstanceInformation::new("me".into()).with_ip_address("10.9.9.9".parse().unwrap()).with_port(4242)
}

/// store kinds: 0 empty, 1 as ServiceDiscovery::new initialises it, 2 the same plus a cached peer,
/// 3 kind 1 plus odd-shaped authoritative records (binary labels, a dot inside a label, SRV at one- and
/// two-label owners, DNS-SD meta-query PTR, a record at the root), 4 kind 1 plus 40 hosts x (A, SRV, PTR)
pub fn make_store(kind: u8) -> Store {
    let mut s = ResourceRecordManager::new();
    if kind == 3 || kind == 4 || kind == 5 {
        let (w, _) = super::c13::extra_world(if kind == 3 { "odd" } else if kind == 4 { "scale" } else { "cyclic" }, 40);
        for (i, r) in w.lib.iter().enumerate() {
            // names built with new_unchecked beyond the wire limits cannot be serialised by
            // contract; the store states quantified over hold representable names only
            if w.menu[i].name.is_wire_valid() {
                s.add_authoritative_resource(r.clone());
            }
        }
    }
    if kind >= 1 {
        s.add_authoritative_resource(ResourceRecord::new(service_name(), CLASS::IN, 120, RData::PTR(PTR(own_full()))));
        for r in own_instance().into_records(&own_full(), 120).unwrap() {
            s.add_authoritative_resource(r);
        }
    }
    if kind >= 2 {
        let peer = Name::new_unchecked("peer._mysrv._tcp.local").into_owned();
        for r in InstanceInformation::new("peer".into()).with_ip_address("10.1.1.1".parse().unwrap()).with_port(80).into_records(&peer, 120).unwrap() {
            s.add_cached_resource(r);
        }
    }
    Arc::new(RwLock::new(s))
}

pub fn benign_query() -> Vec<u8> {
    let mut p = RefPacket { id: 0, ..Default::default() };
    p.questions.push(RefQ { name: RefName::txt("me._mysrv._tcp.local"), qtype: 33, qclass: 1, unicast: true });
    p.encode(0)
}

pub fn benign_response() -> Vec<u8> {
    let peer = Name::new_unchecked("good._mysrv._tcp.local").into_owned();
    let mut packet = Packet::new_reply(1);
    for r in InstanceInformation::new("good".into()).with_ip_address("10.2.2.2".parse().unwrap()).with_port(8080).with_attribute("k".into(), Some("v".into())).into_records(&peer, 120).unwrap() {
        packet.answers.push(r);
    }
    packet.build_bytes_vec_compressed().unwrap()
}

// ---- pipelines: the real functions in the order the receive loops call them -------------------

/// responder_loop body (sync and async responders share it): returns the reply bytes, if any
fn responder_step(d: &[u8], store: &Store) -> Option<Vec<u8>> {
    if header_buffer::has_flags(d, PacketFlag::RESPONSE).unwrap_or(true) {
        return None;
    }
    match Packet::parse(d) {
        Ok(packet) => match build_reply(packet, &store.read().unwrap()) {
            Some((reply_packet, _unicast)) => reply_packet.build_bytes_vec_compressed().ok(),
            None => None,
        },
        Err(_) => None,
    }
}

/// sync ServiceDiscovery receive loop body
fn discovery_step(d: &[u8], store: &Store, chan: &mut Option<std::sync::mpsc::Sender<InstanceInformation>>) -> Option<Vec<u8>> {
    match Packet::parse(d) {
        Ok(packet) => {
            if packet.has_flags(PacketFlag::RESPONSE) {
                add_response_to_resources(packet, &service_name(), &own_full(), &mut store.write().unwrap(), chan);
                None
            } else {
                match build_reply(packet, &store.read().unwrap()) {
                    Some((reply_packet, _)) => reply_packet.build_bytes_vec_compressed().ok(),
                    None => None,
                }
            }
        }
        Err(_) => None,
    }
}

/// async ServiceDiscovery ingest (handler function driven on a current-thread runtime)
fn async_ingest_step(d: &[u8], store: &Store) {
    if let Ok(packet) = Packet::parse(d) {
        if packet.has_flags(PacketFlag::RESPONSE) {
            let rt = tokio::runtime::Builder::new_current_thread().build().unwrap();
            let (tx, _rx) = tokio::sync::mpsc::channel::<InstanceInformation>(16);
            let mut chan = Some(tx);
            let mut guard = store.write().unwrap();
            rt.block_on(add_response_to_resources_async(packet, &service_name(), &own_full(), &mut guard, &mut chan));
        }
    }
}

/// OneShotMdnsResolver: get_next_response filter + both answer extractions
fn resolver_step(d: &[u8]) -> Option<SocketAddr> {
    let mut buf = [0u8; 4096];
    let count = d.len().min(4096);
    buf[..count].copy_from_slice(&d[..count]);
    let accept = header_buffer::has_flags(&buf, PacketFlag::RESPONSE).ok()? && header_buffer::id(&buf).ok()? == 0 && header_buffer::answers(&buf).ok()? > 0;
    if !accept {
        return None;
    }
    let buffer = buf[..count].to_vec();
    let response = Packet::parse(&buffer).ok()?;
    let service = Name::new(SERVICE).ok()?;
    let mut addr = None;
    for answer in response.answers.iter() {
        if answer.name != service {
            continue;
        }
        addr = match &answer.rdata {
            RData::A(a) => Some(IpAddr::V4(Ipv4Addr::from(a.address))),
            RData::AAAA(a) => Some(IpAddr::V6(Ipv6Addr::from(a.address))),
            _ => None,
        };
        break;
    }
    let port = response.answers.iter().filter(|a| a.name == service && a.match_qtype(TYPE::SRV.into())).find_map(|a| match &a.rdata {
        RData::SRV(srv) => Some(srv.port),
        _ => None,
    });
    let address = response.additional_records.iter().filter(|a| a.name == service && a.match_qtype(TYPE::A.into())).find_map(|a| match &a.rdata {
        RData::A(a) => Some(IpAddr::V4(Ipv4Addr::from(a.address))),
        RData::AAAA(a) => Some(IpAddr::V6(Ipv6Addr::from(a.address))),
        _ => None,
    });
    match (port, address.or(addr)) {
        (Some(p), Some(a)) => Some(SocketAddr::new(a, p)),
        _ => None,
    }
}

fn known(store: &Store) -> Result<Vec<String>, String> {
    let g = store.read().map_err(|_| "lock poisoned".to_string())?;
    let sn = service_name();
    let mut v: Vec<String> = g
        .get_domain_resources(&sn, DomainResourceFilter::cached())
        .filter_map(|grp| simple_mdns::verif::instance_from_records(&sn, grp))
        .map(|i| i.escaped_instance_name())
        .collect();
    v.sort();
    Ok(v)
}

/// One datagram against one store kind through every pipeline, then benign traffic.
pub fn check_datagram(d: &[u8], store_kind: u8, benign_first: bool) -> Vec<Finding> {
    crate::engine::watch_begin(d);
    let r = check_datagram_inner(d, store_kind, benign_first);
    crate::engine::watch_end();
    r
}

fn check_datagram_inner(d: &[u8], store_kind: u8, benign_first: bool) -> Vec<Finding> {
    let mk = || json!({"kind": "datagram", "datagram": hex(d), "store": store_kind, "benign_first": benign_first});
    let mut out: Vec<Finding> = Vec::new();
    let mut report = |stage: &str, tag: String, det: String| out.push(finding(format!("C14|{}|{}", stage, tag), det, mk()));
    let died = |pn: &PanicInfo| format!("handler panicked: {} at {} — the receive thread dies here", pn.message, pn.location);
    let bq = benign_query();
    let br = benign_response();
    // expected benign reply from an untouched store of the same kind
    let fresh = make_store(store_kind);
    let expected_reply: Option<RefPacket> = responder_step(&bq, &fresh).and_then(|b| decode_packet(&b).ok().map(|x| x.0));
    let reply_set = |b: &Option<Vec<u8>>| -> Result<Option<Vec<RefRR>>, String> {
        match b {
            None => Ok(None),
            Some(bytes) => match decode_packet(bytes) {
                Ok((p, _)) => {
                    let mut a = p.answers.clone();
                    a.sort_by(|x, y| format!("{:?}", x).cmp(&format!("{:?}", y)));
                    Ok(Some(a))
                }
                Err(e) => Err(format!("{:?}", e)),
            },
        }
    };
    let exp_set = expected_reply.as_ref().map(|p| {
        let mut a = p.answers.clone();
        a.sort_by(|x, y| format!("{:?}", x).cmp(&format!("{:?}", y)));
        a
    });

    // ---- responder
    {
        let store = make_store(store_kind);
        if benign_first {
            let _ = guarded(|| responder_step(&bq, &store));
        }
        match guarded(|| responder_step(d, &store)) {
            Err(pn) => report("responder", pn.sig(), died(&pn)),
            Ok(reply) => {
                if let Some(r) = &reply {
                    if !guarded(|| Packet::parse(r).is_ok()).unwrap_or(false) || decode_packet(r).is_err() {
                        report("responder", "reply-unparseable".into(), format!("reply {} is not a parseable DNS message", hex(r)));
                    }
                }
            }
        }
        if store.is_poisoned() {
            report("responder", "lock-poisoned".into(), "record store lock poisoned".into());
        }
        match guarded(|| responder_step(&bq, &store)) {
            Err(pn) => report("responder", format!("after|{}", pn.sig()), format!("benign query after the datagram: {}", died(&pn))),
            Ok(reply) => match reply_set(&reply) {
                Ok(s) if s == exp_set => {}
                Ok(s) => report("responder", "benign-reply-changed".into(), format!("benign query answered {:?}, an untouched store answers {:?}", s, exp_set)),
                Err(e) => report("responder", "benign-reply-unparseable".into(), e),
            },
        }
    }
    // ---- sync discovery, with and without a channel
    for with_chan in [true, false] {
        let stage = if with_chan { "discovery" } else { "discovery-nochannel" };
        let store = make_store(store_kind);
        let (tx, rx) = std::sync::mpsc::channel::<InstanceInformation>();
        let mut chan = if with_chan { Some(tx) } else { None };
        if benign_first {
            let _ = guarded(|| discovery_step(&br, &store, &mut chan));
        }
        match guarded(|| discovery_step(d, &store, &mut chan)) {
            Err(pn) => report(stage, pn.sig(), died(&pn)),
            Ok(reply) => {
                if let Some(r) = &reply {
                    if decode_packet(r).is_err() || !guarded(|| Packet::parse(r).is_ok()).unwrap_or(false) {
                        report(stage, "reply-unparseable".into(), format!("reply {} is not a parseable DNS message", hex(r)));
                    }
                }
            }
        }
        if store.is_poisoned() {
            report(stage, "lock-poisoned".into(), "record store lock poisoned: every later read()/write().unwrap() of the application panics".into());
            continue;
        }
        // the application thread: known services must be computable, and whatever was delivered must be inspectable
        match guarded(|| known(&store)) {
            Err(pn) => report(stage, format!("get_known_services|{}", pn.sig()), format!("get_known_services panics after the datagram: {} at {}", pn.message, pn.location)),
            Ok(Err(e)) => report(stage, "get_known_services".into(), e),
            Ok(Ok(_)) => {}
        }
        for i in rx.try_iter() {
            if let Err(pn) = guarded(|| format!("{:?} {} {}", i, i.escaped_instance_name(), i.unescaped_instance_name())) {
                report(stage, format!("delivered-instance|{}", pn.sig()), "formatting the delivered InstanceInformation panics".into());
            }
        }
        // benign traffic afterwards: query answered as before, response ingested
        match guarded(|| discovery_step(&bq, &store, &mut chan)) {
            Err(pn) => report(stage, format!("after|{}", pn.sig()), format!("benign query after the datagram: {}", died(&pn))),
            Ok(reply) => match reply_set(&reply) {
                Ok(s) if s == exp_set => {}
                Ok(s) => report(stage, "benign-reply-changed".into(), format!("benign query answered {:?}, an untouched store answers {:?}", s, exp_set)),
                Err(e) => report(stage, "benign-reply-unparseable".into(), e),
            },
        }
        match guarded(|| {
            discovery_step(&br, &store, &mut chan);
            known(&store)
        }) {
            Err(pn) => report(stage, format!("after|{}", pn.sig()), format!("benign response after the datagram: {}", died(&pn))),
            Ok(Err(e)) => report(stage, "after-known".into(), e),
            Ok(Ok(k)) => {
                // (an empty store is what a responder holds; discovery stores always have the
                // service-name PTR, which is what the cached lookup hangs off)
                if store_kind >= 1 && !k.iter().any(|n| n == "good") {
                    report(stage, "benign-peer-not-discovered".into(), format!("after the datagram a benign announcement is no longer discovered (known: {:?})", k));
                }
            }
        }
    }
    // ---- async ingest
    {
        let store = make_store(store_kind);
        if let Err(pn) = guarded(|| async_ingest_step(d, &store)) {
            report("async-discovery", pn.sig(), died(&pn));
        }
        if store.is_poisoned() {
            report("async-discovery", "lock-poisoned".into(), "record store lock poisoned".into());
        }
    }
    // ---- one-shot resolver
    if let Err(pn) = guarded(|| resolver_step(d)) {
        report("resolver", pn.sig(), died(&pn));
    }
    out
}

// ---- datagram alphabet ---------------------------------------------------------------------

fn hostile_labels() -> Vec<(&'static str, Vec<u8>)> {
    vec![
        ("non-utf8", vec![0x80]),
        ("non-utf8-2", vec![0xff, 0xfe, b'a']),
        ("nul", vec![0x00]),
        ("dot", b"a.b".to_vec()),
        ("backslash", b"a\\".to_vec()),
        ("label63", vec![b'x'; 63]),
        ("utf8-partial", vec![0xc3]),
    ]
}

pub fn hostile_datagrams() -> Vec<(String, Vec<u8>)> {
    let mut out = Vec::new();
    let svc = RefName::txt(SERVICE);
    let other = RefName::txt("_other._udp.local");
    let mut names: Vec<(String, RefName)> = Vec::new();
    for (tag, l) in hostile_labels() {
        for (wtag, base) in [("under-service", &svc), ("outside", &other)] {
            let mut n = vec![B(l.clone())];
            n.extend(base.0.iter().cloned());
            names.push((format!("{}-{}", tag, wtag), RefName(n)));
        }
        names.push((format!("{}-alone", tag), RefName(vec![B(l.clone())])));
        names.push((format!("{}-tld", tag), RefName(vec![B(b"a".to_vec()), B(l.clone())])));
    }
    // multi-byte characters (valid, and lossy renderings of invalid bytes) at every byte offset of
    // the rendered instance name, alone and after a long first label
    for (i, l) in crate::gen::alignment_labels().into_iter().enumerate() {
        let mut n = vec![B(l)];
        n.extend(svc.0.iter().cloned());
        names.push((format!("align{}-under-service", i), RefName(n)));
    }
    for k in 55..=63usize {
        for second in ["éé", "€x", "\u{1F600}"] {
            let mut n = vec![B(vec![b'x'; k]), B(second.as_bytes().to_vec())];
            n.extend(svc.0.iter().cloned());
            names.push((format!("two-label-instance-{}-{}", k, second.len()), RefName(n)));
        }
    }
    names.push(("name255".into(), crate::gen::max_name()));
    let mut long_under = vec![B(vec![b'y'; 63]), B(vec![b'z'; 63]), B(vec![b'w'; 63])];
    long_under.extend(svc.0.iter().cloned());
    names.push(("long-under-service".into(), RefName(long_under)));
    for (tag, n) in &names {
        // query
        let mut q = RefPacket { id: 0, ..Default::default() };
        q.questions.push(RefQ { name: n.clone(), qtype: 255, qclass: 1, unicast: false });
        q.questions.push(RefQ { name: svc.clone(), qtype: 12, qclass: 255, unicast: true });
        out.push((format!("query-{}", tag), q.encode(0)));
        // response: records owned by the hostile name, and records pointing at it
        let mut r = RefPacket { id: 0, flags: F_QR | F_AA, ..Default::default() };
        r.answers.push(RefRR { name: n.clone(), class: 1, cache_flush: true, ttl: 120, rdata: typed(1, vec![Val::U32(0x0a000005)]) });
        r.answers.push(RefRR { name: n.clone(), class: 1, cache_flush: false, ttl: 120, rdata: typed(33, vec![Val::U16(0), Val::U16(0), Val::U16(99), Val::Name(n.clone())]) });
        r.answers.push(RefRR { name: n.clone(), class: 1, cache_flush: false, ttl: 120, rdata: typed(16, vec![Val::Strs(vec![B(vec![0xff, b'=', 0x80]), B(b"k".to_vec()), B(vec![])])]) });
        r.additional.push(RefRR { name: svc.clone(), class: 1, cache_flush: false, ttl: 120, rdata: typed(12, vec![Val::Name(n.clone())]) });
        out.push((format!("response-{}", tag), r.encode(0)));
        if !tag.starts_with("align") && !tag.starts_with("two-label") {
            out.push((format!("response-compressed-{}", tag), r.encode_compressed(0, true)));
        }
    }
    // sizes
    let mut big = vec![0u8; 9000];
    big[..12].copy_from_slice(&[0, 0, 0x84, 0, 0, 0, 0xff, 0xff, 0, 0, 0, 0]);
    out.push(("9000-bytes-garbage-response".into(), big.clone()));
    big[2] = 0;
    big[4..8].copy_from_slice(&[0xff, 0xff, 0, 0]);
    out.push(("9000-bytes-garbage-query".into(), big));
    let mut padded = benign_response();
    padded.resize(9000, 0);
    out.push(("benign-response-padded-to-9000".into(), padded));
    let mut many = RefPacket { id: 0, flags: F_QR, ..Default::default() };
    for i in 0..400 {
        many.answers.push(RefRR { name: RefName(vec![B(format!("i{}", i).into_bytes()), B(b"_mysrv".to_vec()), B(b"_tcp".to_vec()), B(b"local".to_vec())]), class: 1, cache_flush: false, ttl: 1, rdata: typed(1, vec![Val::U32(i)]) });
    }
    out.push(("400-instances-response".into(), many.encode_compressed(0, false)));
    // many questions in one datagram: the reply grows with the number of questions
    for (n, qname, qtype) in [(50usize, "me._mysrv._tcp.local", 255u16), (200, "me._mysrv._tcp.local", 255), (600, "me._mysrv._tcp.local", 33), (200, SERVICE, 255), (400, "peer._mysrv._tcp.local", 255), (1400, SERVICE, 12), (1450, "me._mysrv._tcp.local", 255), (1490, SERVICE, 255)] {
        // (with 1400 and more questions the reply exceeds what one UDP datagram can carry: sending it fails)
        let mut q = RefPacket { id: 0, ..Default::default() };
        for i in 0..n {
            q.questions.push(RefQ { name: RefName::txt(qname), qtype, qclass: if i % 2 == 0 { 1 } else { 255 }, unicast: i % 3 == 0 });
        }
        let b = q.encode_compressed(0, false);
        if b.len() <= 9000 {
            out.push((format!("{}-questions-{}", n, qtype), b));
        }
    }
    out.push(("benign-query".into(), benign_query()));
    out.push(("benign-response".into(), benign_response()));
    out.push(("empty".into(), vec![]));
    out
}

/// every cut and every byte perturbation of a seed
fn cut_perturb(seed: &[u8]) -> Vec<Vec<u8>> {
    let mut out = Vec::new();
    for c in 0..=seed.len() {
        out.push(seed[..c].to_vec());
    }
    for i in 0..seed.len() {
        for p in [0x00u8, 0x01, 0x3f, 0x40, 0x80, 0xc0, 0xff, seed[i].wrapping_add(1), seed[i].wrapping_sub(1)] {
            if p != seed[i] {
                let mut x = seed.to_vec();
                x[i] = p;
                out.push(x);
            }
        }
    }
    out
}

// ---- socket-level replay ---------------------------------------------------------------------

struct Net {
    tx: UdpSocket,
    group: SocketAddr,
}

impl Net {
    fn new() -> std::io::Result<Net> {
        let tx = UdpSocket::bind((Ipv4Addr::UNSPECIFIED, 0))?;
        tx.set_read_timeout(Some(Duration::from_millis(150)))?;
        tx.set_multicast_loop_v4(true)?;
        Ok(Net { tx, group: SocketAddr::new(IpAddr::V4(Ipv4Addr::new(224, 0, 0, 251)), 5353) })
    }
    fn send(&self, d: &[u8]) -> std::io::Result<usize> {
        self.tx.send_to(d, self.group)
    }
    /// send a unicast-response probe query for `name`/`qtype`; true if a reply carrying an answer owned by `name` arrives
    fn probe(&self, name: &str, qtype: u16, id: u16) -> bool {
        let mut q = RefPacket { id, ..Default::default() };
        q.questions.push(RefQ { name: RefName::txt(name), qtype, qclass: 1, unicast: true });
        let bytes = q.encode(0);
        let want = RefName::txt(name);
        for _attempt in 0..24 {
            if self.send(&bytes).is_err() {
                return false;
            }
            let deadline = Instant::now() + Duration::from_millis(250);
            let mut buf = [0u8; 9000];
            while Instant::now() < deadline {
                if let Ok((n, _)) = self.tx.recv_from(&mut buf) {
                    if let Ok((p, _)) = decode_packet(&buf[..n]) {
                        if p.flags & F_QR != 0 && p.answers.iter().any(|a| a.name == want) {
                            return true;
                        }
                    }
                }
            }
        }
        false
    }
}

pub fn socket_stage(ctx: &Ctx, reps: &[(String, Vec<u8>)]) {
    use simple_mdns::sync_discovery::{ServiceDiscovery, SimpleMdnsResponder};
    let net = match Net::new() {
        Ok(n) => n,
        Err(e) => {
            ctx.set_extra("socket_stage", json!({"ran": false, "reason": format!("cannot open a UDP socket: {}", e)}));
            return;
        }
    };
    // real services
    let started = guarded(|| -> Result<(SimpleMdnsResponder, ServiceDiscovery), String> {
        let mut responder = SimpleMdnsResponder::new(10);
        let rn = Name::new_unchecked("resp._verif._udp.local").into_owned();
        responder.add_resource(ResourceRecord::new(rn, CLASS::IN, 10, RData::A(simple_dns::rdata::A { address: 0x7f000001 })));
        let disc = ServiceDiscovery::new(own_instance(), SERVICE, 120).map_err(|e| format!("{:?}", e))?;
        Ok((responder, disc))
    });
    let (_responder, disc) = match started {
        Ok(Ok(x)) => x,
        other => {
            ctx.set_extra("socket_stage", json!({"ran": false, "reason": format!("services could not be started: {:?}", other.err().map(|p| p.message))}));
            return;
        }
    };
    std::thread::sleep(Duration::from_millis(150));
    // both services must answer before anything hostile is sent; otherwise multicast does not work here
    if !net.probe("resp._verif._udp.local", 1, 0x7001) || !net.probe("me._mysrv._tcp.local", 33, 0x7002) {
        ctx.set_extra("socket_stage", json!({"ran": false, "reason": "services do not answer a benign probe over loopback multicast in this environment"}));
        return;
    }
    let mut t = Tally::default();
    let mut sent = 0u64;
    for (i, (class, d)) in reps.iter().enumerate() {
        if d.len() > 9000 {
            continue;
        }
        let case = json!({"kind": "socket", "class": class, "datagram": hex(d)});
        if net.send(d).is_err() {
            continue;
        }
        sent += 1;
        t.evals += 1;
        t.transitions += 3;
        t.nontrivial += 1;
        let id = 0x7100 + (i as u16 & 0xff);
        if !net.probe("resp._verif._udp.local", 1, id) {
            ctx.violation(finding("C14|socket|responder-dead", format!("SimpleMdnsResponder stopped answering after datagram class {} ({} bytes): {}", class, d.len(), crate::engine::truncate(&hex(d), 200)), case.clone()));
            t.outcome("socket-responder-dead");
            break;
        }
        if !net.probe("me._mysrv._tcp.local", 33, id) {
            ctx.violation(finding("C14|socket|discovery-dead", format!("ServiceDiscovery stopped answering after datagram class {} ({} bytes): {}", class, d.len(), crate::engine::truncate(&hex(d), 200)), case.clone()));
            t.outcome("socket-discovery-dead");
            break;
        }
        match guarded(|| disc.get_known_services().len()) {
            Ok(_) => t.outcome("socket-alive"),
            Err(pn) => {
                ctx.violation(finding("C14|socket|application-thread-panics", format!("get_known_services panics after datagram class {}: {}", class, pn.message), case));
                break;
            }
        }
    }
    ctx.merge(t);
    ctx.space("socket-level replay: datagram representatives sent over loopback multicast to a running SimpleMdnsResponder and sync ServiceDiscovery, each followed by probe queries that must be answered and by get_known_services()", sent, "complete for the representative set");
    ctx.set_extra("socket_stage", json!({"ran": true, "datagrams_sent": sent}));
    // the application keeps using the service (announce, get_known_services) while responses
    // arrive: neither side may wedge the other. Free-running threads: the interleavings are
    // whatever the OS scheduler produces, they are not enumerated.
    {
        const CALLS: u64 = 1500;
        let progress = std::sync::Arc::new(std::sync::atomic::AtomicU64::new(0));
        let p2 = progress.clone();
        let app = std::thread::spawn(move || {
            for i in 0..CALLS {
                disc.announce(i % 16 == 0);
                let _ = disc.get_known_services().len();
                p2.fetch_add(1, std::sync::atomic::Ordering::SeqCst);
            }
            disc
        });
        let traffic = [benign_response(), benign_query()];
        let mut last = (0u64, std::time::Instant::now());
        let mut wedged = false;
        let mut k = 0usize;
        loop {
            let now = progress.load(std::sync::atomic::Ordering::SeqCst);
            if now >= CALLS {
                break;
            }
            if now != last.0 {
                last = (now, std::time::Instant::now());
            } else if last.1.elapsed() > Duration::from_secs(4) {
                wedged = true;
                break;
            }
            let _ = net.send(&traffic[k % 2]);
            k += 1;
            std::thread::sleep(Duration::from_micros(300));
        }
        let mut t = Tally::default();
        t.evals += 1;
        t.nontrivial += 1;
        t.transitions += progress.load(std::sync::atomic::Ordering::SeqCst);
        if wedged {
            t.outcome("socket-application-wedged");
            ctx.violation(finding(
                "C14|socket|application-thread-wedged",
                format!("an application thread calling announce() and get_known_services() on a running sync ServiceDiscovery stopped making progress after {} of {} rounds while ordinary responses were arriving (no progress for 4 s): the service and its store are wedged", progress.load(std::sync::atomic::Ordering::SeqCst), CALLS),
                json!({"kind": "socket-race", "async": false}),
            ));
        } else {
            let _ = app.join();
            t.outcome("socket-alive");
        }
        ctx.merge(t);
        ctx.space("application thread against the receive loop (sync ServiceDiscovery): 1500 rounds of announce() + get_known_services() while responses and queries arrive every 0.3 ms; free-running threads, interleavings not enumerated", CALLS, "one run under the OS scheduler (not exhaustive over interleavings)");
    }
}

pub fn run(ctx: &Ctx) {
    // long-lived services under the real clock, in the background of everything below
    let longevity = if crate::engine::loopback_multicast_works() {
        Some(std::thread::spawn(|| {
            let a = std::thread::spawn(|| super::longev::silent_peer("C14", false));
            let mut f = super::longev::silent_peer("C14", true);
            f.extend(a.join().unwrap_or_default());
            f
        }))
    } else {
        None
    };
    run_spaces(ctx);
    if let Some(h) = longevity {
        // a scenario that a defect has wedged must not hold the verdict back
        let waited = std::time::Instant::now();
        while !h.is_finished() && waited.elapsed() < std::time::Duration::from_secs(40) {
            std::thread::sleep(std::time::Duration::from_millis(100));
        }
        let f = if h.is_finished() { h.join().unwrap_or_default() } else { vec![finding("C14|longevity|scenario-does-not-finish", "a long-lived-service scenario has not finished long after its script ended: a call into the service never returned".to_string(), json!({"kind": "socket-race", "scenario": "unfinished"}))] };
        let mut t = Tally::default();
        t.evals += 2;
        t.nontrivial += 2;
        t.transitions += 4;
        t.outcome(if f.is_empty() { "socket-alive" } else { "socket-dead-after-a-while" });
        ctx.merge(t);
        ctx.violations(f);
        ctx.space("long-lived services (sync and tokio ServiceDiscovery, in the background of the other spaces): one response with TTL 12 from a peer that then stays silent; 13 s later announce() still succeeds and a new response is still ingested", 2, "complete for the two services");
    }
}

fn run_spaces(ctx: &Ctx) {
    let thorough = ctx.eff_tier() == crate::engine::Tier::Thorough;
    ctx.set_rule("datagram alphabet: every buffer of length <= L over {00,80,ff}; every cut and byte perturbation of a benign query, a benign announcement and a hostile-name response; queries and responses carrying each hostile label class (non-UTF-8, NUL, dot, backslash, 63 bytes, 255-byte name) under and outside the watched service, plain and compressed; 9000-byte datagrams; benign traffic. Each datagram x 3 store kinds (empty, as ServiceDiscovery::new builds it, plus a cached peer) x {fresh, after benign traffic} goes through the responder, sync discovery (with / without channel), async ingest and one-shot resolver pipelines composed from the real functions, under the real RwLock; afterwards the lock must be unpoisoned, get_known_services computable, a benign query answered exactly as by an untouched store, a benign announcement discovered, every reply parseable. Representatives are replayed against running services over loopback multicast. non-trivial = the datagram parses (the handlers run past the parser)");
    ctx.assume("the pipelines mirror the receive-loop bodies of simple_responder.rs / service_discovery.rs / oneshot_resolver.rs (sync and async); the loops themselves are exercised by the socket stage on a representative set");
    {
        // a handler that never returns wedges the receive loop just as a panic kills it
        let root = ctx.verif_root.clone();
        crate::engine::start_watchdog(Duration::from_secs(20), move |what, dt| {
            let path = format!("{}/replays/C14-hang.json", root);
            let _ = std::fs::create_dir_all(format!("{}/replays", root));
            let body = json!({"property": "C14", "signature": "C14|handler-hangs", "detail": format!("handling a datagram did not return after {:?}: the receive loop is wedged", dt), "case": {"kind": "datagram", "datagram": hex(what), "store": 1, "benign_first": false}});
            let _ = std::fs::write(&path, serde_json::to_string(&body).unwrap());
            println!("VIOLATION property=C14 replay={}", path);
            println!("  signature: C14|handler-hangs");
            println!("  detail: handling a {}-byte datagram did not return after {:?}", what.len(), dt);
            std::process::exit(1);
        });
    }
    let l = ctx.eff_tier().pick(7usize, 10usize);
    let mut data: Vec<Vec<u8>> = Vec::new();
    let mut b = Vec::new();
    crate::engine::for_each_string_upto(&[0x00, 0x80, 0xff], l, &mut b, &mut |x| data.push(x.to_vec()));
    let n_short = data.len();
    let hostile = hostile_datagrams();
    for (_, d) in &hostile {
        data.push(d.clone());
    }
    let seeds: Vec<Vec<u8>> = {
        let mut s = vec![benign_query(), benign_response()];
        if let Some((_, d)) = hostile.iter().find(|(c, _)| c == "response-compressed-non-utf8-under-service") {
            s.push(d.clone());
        }
        if thorough {
            if let Some((_, d)) = hostile.iter().find(|(c, _)| c == "query-dot-under-service") {
                s.push(d.clone());
            }
        }
        s
    };
    let mut n_cp = 0usize;
    for s in &seeds {
        let v = cut_perturb(s);
        n_cp += v.len();
        data.extend(v);
    }
    let chunks: Vec<&[Vec<u8>]> = data.chunks(64).collect();
    par_shards(ctx, &chunks, |ds, t: &mut Tally| {
        for d in ds.iter() {
            let parses = guarded(|| Packet::parse(d).is_ok()).unwrap_or(false);
            for store_kind in 0..3u8 {
                for benign_first in [false, true] {
                    t.evals += 1;
                    t.transitions += 9;
                    if parses {
                        t.nontrivial += 1;
                    }
                    let f = check_datagram(d, store_kind, benign_first);
                    t.outcome(if f.is_empty() { "survived" } else { "wedged" });
                    if !f.is_empty() {
                        ctx.violations(f);
                    }
                }
            }
        }
    });
    // well-known and odd question names against stores holding odd-shaped and many records
    {
        let mut wk: Vec<Vec<u8>> = Vec::new();
        for kind in ["odd", "scale"] {
            let (_, qs) = super::c13::extra_world(kind, 40);
            for q in qs {
                for flags in [0u16, 0x8400] {
                    let mut p = RefPacket { id: 0, flags, ..Default::default() };
                    p.questions.push(RefQ { name: q.name.clone(), qtype: q.qtype, qclass: q.qclass, unicast: q.unicast });
                    if q.name.is_wire_valid() {
                        wk.push(p.encode(0));
                    }
                }
            }
        }
        for (_, d) in &hostile {
            wk.push(d.clone());
        }
        wk.push(benign_query());
        wk.push(benign_response());
        let wchunks: Vec<&[Vec<u8>]> = wk.chunks(16).collect();
        par_shards(ctx, &wchunks, |ds, t: &mut Tally| {
            for d in ds.iter() {
                for store_kind in 0..5u8 {
                    t.evals += 1;
                    t.transitions += 9;
                    t.nontrivial += 1;
                    let f = check_datagram(d, store_kind, false);
                    t.outcome(if f.is_empty() { "survived" } else { "wedged" });
                    if !f.is_empty() {
                        ctx.violations(f);
                    }
                }
            }
        });
        ctx.space("queries and responses for every name of the odd and 40-host worlds of C13 (incl. the DNS-SD meta-query name, the root, parents of registered names) x 5 types x 2 classes, plus the hostile-name families, x 5 store kinds (incl. odd-shaped authoritative records: binary labels, a dot inside a label, SRV at 1- and 2-label owners, a record at the root; and 120 records)", wk.len() as u64 * 5, "complete");
        ctx.add_states(wk.len() as u64 * 5);
    }
    // a store whose records refer to each other in cycles; every query over its names, each in a
    // child process (a stack overflow aborts the process and cannot be caught in-process)
    {
        let (_, qs) = super::c13::extra_world("cyclic", 0);
        let mut dg: Vec<Vec<u8>> = Vec::new();
        for q in qs {
            let mut p = RefPacket { id: 0, ..Default::default() };
            p.questions.push(RefQ { name: q.name.clone(), qtype: q.qtype, qclass: q.qclass, unicast: q.unicast });
            dg.push(p.encode(0));
        }
        dg.push(benign_query());
        let root = ctx.verif_root.clone();
        let idx: Vec<usize> = (0..dg.len()).collect();
        par_shards(ctx, &idx, |i, t: &mut Tally| {
            t.evals += 1;
            t.nontrivial += 1;
            t.transitions += 9;
            let case = json!({"kind": "datagram", "datagram": hex(&dg[*i]), "store": 5, "benign_first": false});
            match crate::engine::run_isolated(&root, "C14", &format!("cyclic-{}", i), &case) {
                Ok(sigs) => {
                    t.outcome(if sigs.is_empty() { "survived" } else { "wedged" });
                    for (s, d) in sigs {
                        ctx.violation(finding(s, d, case.clone()));
                    }
                }
                Err(e) => {
                    t.outcome("process-abort");
                    ctx.violation(finding("C14|process-abort", format!("handling a query over a store whose records refer to each other in a cycle killed the process (a receive loop would die with it): {}", e), case.clone()));
                }
            }
        });
        ctx.space("store with PTR / CNAME / SRV reference cycles of length 1, 2 and 3: a query for every owner and parent name x 5 types x 2 classes, each handled in a child process", dg.len() as u64, "complete");
        ctx.add_states(dg.len() as u64);
    }
    ctx.add_states(data.len() as u64 * 6);
    ctx.space(&format!("short buffers: every string of length <= {} over {{00,80,ff}}", l), n_short as u64, "complete");
    ctx.space("hostile-name and size families", hostile.len() as u64, "complete");
    ctx.space(&format!("cut/perturb of {} seed datagrams", seeds.len()), n_cp as u64, "complete");
    ctx.space("each datagram x 3 store kinds x {fresh, after benign traffic} x 5 pipelines + benign traffic afterwards", data.len() as u64 * 6, "complete");
    ctx.sample(json!({"kind": "datagram", "datagram": "", "store": 1, "benign_first": false}));
    ctx.sample(json!({"kind": "datagram", "datagram": hex(&hostile[0].1), "store": 2, "benign_first": true, "class": hostile[0].0}));
    // socket-level replay
    let mut reps: Vec<(String, Vec<u8>)> = Vec::new();
    for n in 0..=13usize {
        reps.push((format!("zeros-{}", n), vec![0u8; n]));
        reps.push((format!("ff-{}", n), vec![0xffu8; n]));
        reps.push((format!("response-bit-{}", n), vec![0x80u8; n]));
    }
    reps.extend(hostile.iter().cloned());
    if thorough {
        for s in &seeds {
            for (i, v) in cut_perturb(s).into_iter().enumerate() {
                reps.push((format!("cut-perturb-{}", i), v));
            }
        }
    } else {
        for s in &seeds {
            let v = cut_perturb(s);
            let step = (v.len() / 40).max(1);
            for (i, x) in v.into_iter().enumerate() {
                if i % step == 0 {
                    reps.push((format!("cut-perturb-{}", i), x));
                }
            }
        }
    }
    socket_stage(ctx, &reps);
    socket_stage_async(ctx, &reps);
    socket_stage_resolvers(ctx, &reps, if thorough { 400 } else { 30 });
}

/// The same replay against the tokio-based services (their receive loops are separate code).
pub fn socket_stage_async(ctx: &Ctx, reps: &[(String, Vec<u8>)]) {
    use simple_mdns::async_discovery::{ServiceDiscovery, SimpleMdnsResponder};
    let net = match Net::new() {
        Ok(n) => n,
        Err(e) => {
            ctx.set_extra("socket_stage_async", json!({"ran": false, "reason": format!("cannot open a UDP socket: {}", e)}));
            return;
        }
    };
    let rt = match tokio::runtime::Builder::new_multi_thread().worker_threads(2).enable_all().build() {
        Ok(rt) => rt,
        Err(e) => {
            ctx.set_extra("socket_stage_async", json!({"ran": false, "reason": format!("no tokio runtime: {}", e)}));
            return;
        }
    };
    let started = guarded(|| -> Result<(SimpleMdnsResponder, ServiceDiscovery), String> {
        rt.block_on(async {
            let mut responder = SimpleMdnsResponder::new(10);
            let rn = Name::new_unchecked("aresp._verif._udp.local").into_owned();
            responder.add_resource(ResourceRecord::new(rn, CLASS::IN, 10, RData::A(simple_dns::rdata::A { address: 0x7f000002 }))).await;
            let inst = InstanceInformation::new("ame".into()).with_ip_address("10.9.9.8".parse().unwrap()).with_port(4243);
            let disc = ServiceDiscovery::new(inst, "_amysrv._tcp.local", 120).map_err(|e| format!("{:?}", e))?;
            Ok((responder, disc))
        })
    });
    let (_responder, disc) = match started {
        Ok(Ok(x)) => x,
        other => {
            ctx.set_extra("socket_stage_async", json!({"ran": false, "reason": format!("services could not be started: {:?}", other.err().map(|p| p.message))}));
            return;
        }
    };
    std::thread::sleep(Duration::from_millis(200));
    if !net.probe("aresp._verif._udp.local", 1, 0x7201) || !net.probe("ame._amysrv._tcp.local", 33, 0x7202) {
        ctx.set_extra("socket_stage_async", json!({"ran": false, "reason": "the tokio services do not answer a benign probe over loopback multicast in this environment"}));
        return;
    }
    let mut t = Tally::default();
    let mut sent = 0u64;
    for (i, (class, d)) in reps.iter().enumerate() {
        if d.len() > 9000 {
            continue;
        }
        let case = json!({"kind": "socket", "class": class, "datagram": hex(d)});
        if net.send(d).is_err() {
            continue;
        }
        sent += 1;
        t.evals += 1;
        t.transitions += 3;
        t.nontrivial += 1;
        let id = 0x7300 + (i as u16 & 0xff);
        if !net.probe("aresp._verif._udp.local", 1, id) {
            ctx.violation(finding("C14|socket-async|responder-dead", format!("the tokio SimpleMdnsResponder stopped answering after datagram class {} ({} bytes): {}", class, d.len(), crate::engine::truncate(&hex(d), 200)), case.clone()));
            t.outcome("socket-async-responder-dead");
            break;
        }
        if !net.probe("ame._amysrv._tcp.local", 33, id) {
            ctx.violation(finding("C14|socket-async|discovery-dead", format!("the tokio ServiceDiscovery stopped answering after datagram class {} ({} bytes): {}", class, d.len(), crate::engine::truncate(&hex(d), 200)), case.clone()));
            t.outcome("socket-async-discovery-dead");
            break;
        }
        match guarded(|| rt.block_on(disc.get_known_services()).len()) {
            Ok(_) => t.outcome("socket-async-alive"),
            Err(pn) => {
                ctx.violation(finding("C14|socket-async|application-task-panics", format!("get_known_services panics after datagram class {}: {}", class, pn.message), case));
                break;
            }
        }
    }
    ctx.merge(t);
    ctx.space("socket-level replay (tokio services): the same representatives sent to a running async SimpleMdnsResponder and async ServiceDiscovery, each followed by probe queries that must be answered and by get_known_services()", sent, "complete for the representative set");
    ctx.set_extra("socket_stage_async", json!({"ran": true, "datagrams_sent": sent}));
    #[allow(unused_variables)]
    {
        const CALLS: u64 = 600;
        let progress = std::sync::Arc::new(std::sync::atomic::AtomicU64::new(0));
        let p2 = progress.clone();
        let mut disc = disc;
        let app = rt.spawn(async move {
            for i in 0..CALLS {
                let _ = disc.announce(i % 16 == 0).await;
                let _ = disc.get_known_services().await.len();
                p2.fetch_add(1, std::sync::atomic::Ordering::SeqCst);
            }
            disc
        });
        let traffic = [benign_response(), benign_query()];
        let mut last = (0u64, std::time::Instant::now());
        let mut wedged = false;
        let mut k = 0usize;
        loop {
            let now = progress.load(std::sync::atomic::Ordering::SeqCst);
            if now >= CALLS {
                break;
            }
            if now != last.0 {
                last = (now, std::time::Instant::now());
            } else if last.1.elapsed() > Duration::from_secs(4) {
                wedged = true;
                break;
            }
            let _ = net.send(&traffic[k % 2]);
            k += 1;
            std::thread::sleep(Duration::from_micros(300));
        }
        let mut t = Tally::default();
        t.evals += 1;
        t.nontrivial += 1;
        t.transitions += progress.load(std::sync::atomic::Ordering::SeqCst);
        if wedged {
            t.outcome("socket-async-application-wedged");
            ctx.violation(finding(
                "C14|socket-async|application-task-wedged",
                format!("an application task calling announce() and get_known_services() on a running tokio ServiceDiscovery stopped making progress after {} of {} rounds while ordinary responses were arriving (no progress for 4 s)", progress.load(std::sync::atomic::Ordering::SeqCst), CALLS),
                json!({"kind": "socket-race", "async": true}),
            ));
        } else {
            let _ = rt.block_on(app);
            t.outcome("socket-async-alive");
        }
        ctx.merge(t);
        ctx.space("application task against the receive task (tokio ServiceDiscovery): 600 rounds of announce() + get_known_services() while responses and queries arrive every 0.3 ms; free-running, interleavings not enumerated", CALLS, "one run under the OS / tokio schedulers (not exhaustive over interleavings)");
    }
    rt.shutdown_timeout(Duration::from_millis(200));
}

/// The one-shot resolvers (sync and tokio): a query is started, the hostile datagram arrives
/// first, then a genuine answer. The call must return (with the genuine address, or nothing)
/// within its timeout plus a margin, and must not panic.
pub fn socket_stage_resolvers(ctx: &Ctx, reps: &[(String, Vec<u8>)], max_reps: usize) {
    let net = match Net::new() {
        Ok(n) => n,
        Err(e) => {
            ctx.set_extra("socket_stage_resolvers", json!({"ran": false, "reason": format!("cannot open a UDP socket: {}", e)}));
            return;
        }
    };
    let genuine = {
        let mut p = RefPacket { id: 0, flags: F_QR | F_AA, ..Default::default() };
        p.answers.push(RefRR { name: RefName::txt("res._verif._udp.local"), class: 1, cache_flush: false, ttl: 10, rdata: typed(1, vec![crate::refmodel::schema::Val::U32(0x7f000009)]) });
        p.encode(0)
    };
    let want: IpAddr = "127.0.0.9".parse().unwrap();
    // genuine answers of several shapes for the address-and-port lookups
    let srv_reply = |with: u8| -> Vec<u8> {
        let name = RefName::txt("res._verif._udp.local");
        let mut p = RefPacket { id: 0, flags: F_QR | F_AA, ..Default::default() };
        p.answers.push(RefRR { name: name.clone(), class: 1, cache_flush: false, ttl: 10, rdata: typed(33, vec![crate::refmodel::schema::Val::U16(0), crate::refmodel::schema::Val::U16(0), crate::refmodel::schema::Val::U16(8080), crate::refmodel::schema::Val::Name(if with == 3 { RefName::txt("elsewhere.local") } else { name.clone() })]) });
        match with {
            1 => p.additional.push(RefRR { name: name.clone(), class: 1, cache_flush: false, ttl: 10, rdata: typed(1, vec![crate::refmodel::schema::Val::U32(0x7f000009)]) }),
            2 => p.additional.push(RefRR { name: name.clone(), class: 1, cache_flush: false, ttl: 10, rdata: typed(28, vec![crate::refmodel::schema::Val::Fixed(B((1..=16).collect()))]) }),
            _ => {}
        }
        p.encode(0)
    };
    // the port lookups: whatever arrives (SRV with an address, SRV alone, SRV with only an IPv6
    // address, SRV for another host, nothing), the call returns within its timeouts
    let run_port = |asynchronous: bool, reply: Option<Vec<u8>>| -> Result<Option<Duration>, String> {
        let (txr, rxr) = std::sync::mpsc::channel();
        let h = std::thread::spawn(move || {
            guarded(|| -> Result<(), String> {
                if asynchronous {
                    let rt = tokio::runtime::Builder::new_current_thread().enable_all().build().map_err(|e| format!("{}", e))?;
                    rt.block_on(async {
                        let mut r = simple_mdns::async_discovery::OneShotMdnsResolver::new().map_err(|e| format!("{:?}", e))?;
                        r.set_query_timeout(Duration::from_millis(400));
                        let _ = txr.send(());
                        let _ = r.query_service_address_and_port("res._verif._udp.local").await;
                        Ok(())
                    })
                } else {
                    let mut r = simple_mdns::sync_discovery::OneShotMdnsResolver::new().map_err(|e| format!("{:?}", e))?;
                    r.set_query_timeout(Duration::from_millis(400));
                    let _ = txr.send(());
                    let _ = r.query_service_address_and_port("res._verif._udp.local");
                    Ok(())
                }
            })
        });
        let t0 = Instant::now();
        let _ = rxr.recv_timeout(Duration::from_secs(2));
        std::thread::sleep(Duration::from_millis(40));
        if let Some(d) = &reply {
            let _ = net.send(d);
        }
        let deadline = Instant::now() + Duration::from_secs(5);
        while !h.is_finished() && Instant::now() < deadline {
            std::thread::sleep(Duration::from_millis(5));
        }
        if !h.is_finished() {
            return Ok(None);
        }
        match h.join() {
            Ok(Ok(_)) => Ok(Some(t0.elapsed())),
            Ok(Err(pn)) => Err(format!("panic: {} at {}", pn.message, pn.location)),
            Err(_) => Err("resolver thread died".to_string()),
        }
    };
    // benign run first: does a resolver see our multicast at all?
    let run = |asynchronous: bool, hostile: Option<&[u8]>| -> Result<(Option<Option<IpAddr>>, Duration), String> {
        let (txr, rxr) = std::sync::mpsc::channel();
        let h = std::thread::spawn(move || {
            let r = guarded(|| -> Result<Option<IpAddr>, String> {
                if asynchronous {
                    let rt = tokio::runtime::Builder::new_current_thread().enable_all().build().map_err(|e| format!("{}", e))?;
                    rt.block_on(async {
                        let mut r = simple_mdns::async_discovery::OneShotMdnsResolver::new().map_err(|e| format!("{:?}", e))?;
                        r.set_query_timeout(Duration::from_millis(500));
                        let _ = txr.send(());
                        r.query_service_address("res._verif._udp.local").await.map_err(|e| format!("{:?}", e))
                    })
                } else {
                    let mut r = simple_mdns::sync_discovery::OneShotMdnsResolver::new().map_err(|e| format!("{:?}", e))?;
                    r.set_query_timeout(Duration::from_millis(500));
                    let _ = txr.send(());
                    r.query_service_address("res._verif._udp.local").map_err(|e| format!("{:?}", e))
                }
            });
            r
        });
        let t0 = Instant::now();
        let _ = rxr.recv_timeout(Duration::from_secs(2));
        std::thread::sleep(Duration::from_millis(40));
        if let Some(d) = hostile {
            let _ = net.send(d);
            std::thread::sleep(Duration::from_millis(15));
        }
        let _ = net.send(&genuine);
        // wait for the thread, but not forever
        let deadline = Instant::now() + Duration::from_secs(4);
        while !h.is_finished() && Instant::now() < deadline {
            std::thread::sleep(Duration::from_millis(5));
        }
        if !h.is_finished() {
            return Ok((None, t0.elapsed()));
        }
        match h.join() {
            Ok(Ok(Ok(a))) => Ok((Some(a), t0.elapsed())),
            Ok(Ok(Err(e))) => Ok((Some(None), t0.elapsed())).map(|x| {
                let _ = e;
                x
            }),
            Ok(Err(pn)) => Err(format!("panic: {} at {}", pn.message, pn.location)),
            Err(_) => Err("resolver thread died".to_string()),
        }
    };
    for asynchronous in [false, true] {
        match run(asynchronous, None) {
            Ok((Some(Some(a)), _)) if a == want => {}
            other => {
                ctx.set_extra(if asynchronous { "socket_stage_resolver_async" } else { "socket_stage_resolver_sync" }, json!({"ran": false, "reason": format!("a benign one-shot query is not answered in this environment: {:?}", other)}));
                return;
            }
        }
    }
    let mut t = Tally::default();
    let mut n = 0u64;
    for asynchronous in [false, true] {
        let which = if asynchronous { "tokio" } else { "sync" };
        for (shape, reply) in [("srv+a", Some(srv_reply(1))), ("srv-only", Some(srv_reply(0))), ("srv+aaaa", Some(srv_reply(2))), ("srv-other-target", Some(srv_reply(3))), ("a-only", Some(genuine.clone())), ("silence", None)] {
            let case = json!({"kind": "socket", "class": format!("port-lookup-{}", shape), "datagram": reply.as_ref().map(|r| hex(r)).unwrap_or_default()});
            n += 1;
            t.evals += 1;
            t.transitions += 2;
            t.nontrivial += 1;
            match run_port(asynchronous, reply) {
                Err(e) => {
                    ctx.violation(finding(format!("C14|socket-resolver|{}|panic", which), format!("{} query_service_address_and_port: {} (reply shape {})", which, e, shape), case));
                    t.outcome("resolver-panic");
                }
                Ok(None) => {
                    ctx.violation(finding(format!("C14|socket-resolver|{}|does-not-return", which), format!("{} query_service_address_and_port with a 400 ms timeout has not returned after 5 s (reply shape {})", which, shape), case));
                    t.outcome("resolver-stuck");
                }
                Ok(Some(_)) => t.outcome("resolver-returned"),
            }
        }
    }
    // the raw entry point: query_packet with and without the unicast-response flag; a hostile
    // datagram arrives first, then a genuine answer; the call returns (bytes, nothing or an
    // error) within its timeout
    let run_packet = |asynchronous: bool, unicast: bool, hostile: Option<Vec<u8>>| -> Result<Option<Duration>, String> {
        let (txr, rxr) = std::sync::mpsc::channel();
        let h = std::thread::spawn(move || {
            guarded(|| -> Result<(), String> {
                let mut q = Packet::new_query(0x51);
                q.questions.push(simple_dns::Question::new(Name::new_unchecked("res._verif._udp.local"), simple_dns::QTYPE::TYPE(simple_dns::TYPE::A), simple_dns::QCLASS::CLASS(CLASS::IN), unicast));
                if asynchronous {
                    let rt = tokio::runtime::Builder::new_current_thread().enable_all().build().map_err(|e| format!("{}", e))?;
                    rt.block_on(async {
                        let mut r = simple_mdns::async_discovery::OneShotMdnsResolver::new().map_err(|e| format!("{:?}", e))?;
                        r.set_query_timeout(Duration::from_millis(200));
                        r.set_unicast_response(unicast);
                        let _ = txr.send(());
                        if let Ok(Some(bytes)) = r.query_packet(q).await {
                            let _ = Packet::parse(&bytes);
                        }
                        Ok(())
                    })
                } else {
                    let mut r = simple_mdns::sync_discovery::OneShotMdnsResolver::new().map_err(|e| format!("{:?}", e))?;
                    r.set_query_timeout(Duration::from_millis(200));
                    r.set_unicast_response(unicast);
                    let _ = txr.send(());
                    if let Ok(Some(bytes)) = r.query_packet(q) {
                        let _ = Packet::parse(&bytes);
                    }
                    Ok(())
                }
            })
        });
        let t0 = Instant::now();
        let _ = rxr.recv_timeout(Duration::from_secs(2));
        std::thread::sleep(Duration::from_millis(40));
        if let Some(d) = &hostile {
            let _ = net.send(d);
            std::thread::sleep(Duration::from_millis(15));
        }
        let _ = net.send(&genuine);
        let deadline = Instant::now() + Duration::from_secs(4);
        while !h.is_finished() && Instant::now() < deadline {
            std::thread::sleep(Duration::from_millis(5));
        }
        if !h.is_finished() {
            return Ok(None);
        }
        match h.join() {
            Ok(Ok(_)) => Ok(Some(t0.elapsed())),
            Ok(Err(pn)) => Err(format!("panic: {} at {}", pn.message, pn.location)),
            Err(_) => Err("resolver thread died".to_string()),
        }
    };
    {
        let hostile_picks: Vec<Option<Vec<u8>>> = {
            let mut v: Vec<Option<Vec<u8>>> = vec![None, Some(vec![]), Some(vec![0x80; 12])];
            let stepq = (reps.len() / 2).max(1);
            v.extend(reps.iter().step_by(stepq).filter(|(_, d)| d.len() <= 9000).map(|(_, d)| Some(d.clone())));
            v
        };
        for asynchronous in [false, true] {
            let which = if asynchronous { "tokio" } else { "sync" };
            for unicast in [false, true] {
                for (hi, hz) in hostile_picks.iter().enumerate() {
                    // with the unicast-response flag nothing ever answers here: the call runs into its timeout, two cases are enough
                    if unicast && hi >= 2 {
                        continue;
                    }
                    let case = json!({"kind": "socket", "class": format!("query_packet-unicast-{}", unicast), "datagram": hz.as_ref().map(|d| hex(d)).unwrap_or_default()});
                    n += 1;
                    t.evals += 1;
                    t.transitions += 2;
                    t.nontrivial += 1;
                    match run_packet(asynchronous, unicast, hz.clone()) {
                        Err(e) => {
                            ctx.violation(finding(format!("C14|socket-resolver|{}|panic", which), format!("{} query_packet (unicast response {}): {}", which, unicast, e), case));
                            t.outcome("resolver-panic");
                        }
                        Ok(None) => {
                            ctx.violation(finding(format!("C14|socket-resolver|{}|does-not-return", which), format!("{} query_packet (unicast response {}) with a 200 ms timeout has not returned after 4 s", which, unicast), case));
                            t.outcome("resolver-stuck");
                        }
                        Ok(Some(_)) => t.outcome("resolver-returned"),
                    }
                }
            }
        }
    }
    let step = (reps.len() / max_reps.max(1)).max(1);
    for (i, (class, d)) in reps.iter().enumerate() {
        if i % step != 0 || d.len() > 9000 {
            continue;
        }
        for asynchronous in [false, true] {
            let case = json!({"kind": "socket", "class": class, "datagram": hex(d)});
            n += 1;
            t.evals += 1;
            t.transitions += 2;
            t.nontrivial += 1;
            let which = if asynchronous { "tokio" } else { "sync" };
            match run(asynchronous, Some(d)) {
                Err(e) => {
                    ctx.violation(finding(format!("C14|socket-resolver|{}|panic", which), format!("{} one-shot resolver: {} after datagram class {}: {}", which, e, class, crate::engine::truncate(&hex(d), 200)), case));
                    t.outcome("resolver-panic");
                }
                Ok((None, dt)) => {
                    ctx.violation(finding(format!("C14|socket-resolver|{}|does-not-return", which), format!("{} one-shot resolver with a 500 ms timeout has not returned after {:?} (datagram class {}): {}", which, dt, class, crate::engine::truncate(&hex(d), 200)), case));
                    t.outcome("resolver-stuck");
                }
                Ok((Some(_), _)) => t.outcome("resolver-returned"),
            }
        }
    }
    ctx.merge(t);
    ctx.space("socket-level replay (one-shot resolvers, sync and tokio): a query in flight (query_service_address, query_service_address_and_port with 6 reply shapes, query_packet with and without the unicast-response flag) receives a representative datagram and then a genuine answer; the call must return within its timeout and not panic", n, "complete for the representative subset");
    ctx.set_extra("socket_stage_resolvers", json!({"ran": true, "queries": n}));
}

pub fn replay(case: &Value) -> Vec<Finding> {
    let d = unhex(case["datagram"].as_str().unwrap_or(""));
    match case["kind"].as_str().unwrap_or("") {
        "socket" => {
            // replayed on the pure pipelines (the socket stage needs the running services)
            let mut out = Vec::new();
            for k in 0..3u8 {
                out.extend(check_datagram(&d, k, false));
            }
            out
        }
        _ => check_datagram(&d, case["store"].as_u64().unwrap_or(0) as u8, case["benign_first"].as_bool().unwrap_or(false)),
    }
}
