//! C06 — domain names are decoded exactly as RFC 1035 4.1.4 prescribes.
//! Prefix tree of all buffers up to length L over a reduced alphabet decoded at every start
//! offset; pointer graphs built from cells; 63/255 boundary family; the same shapes embedded as
//! question name, owner name and RDATA name of a message parsed with Packet::parse.

use super::finding;
use crate::bind::obs_name;
use crate::engine::{guarded, hex, par_shards, unhex, Ctx, Finding, Tally};
use crate::refmodel::wire::{decode_name, walk, NameErr};
use serde_json::{json, Value};
use simple_dns::{Name, Packet};

const SIGMA: [u8; 13] = [0x00, 0x01, 0x02, 0x03, 0x04, 0x05, 0x06, 0x07, 0x3f, 0x40, 0x80, 0xc0, b'a'];

fn err_tag(e: &NameErr) -> &'static str {
    match e {
        NameErr::Truncated => "truncated",
        NameErr::Cycle => "cycle",
        NameErr::PtrOutside => "pointer-outside",
        NameErr::ReservedLabelType => "reserved-label-type",
        NameErr::TooLong => "too-long",
    }
}

/// (findings, nontrivial, outcome tag)
pub fn check_at(buf: &[u8], off: usize) -> (Vec<Finding>, bool, &'static str) {
    let mk_case = || json!({"kind": "at", "buf": hex(buf), "off": off});
    let reference = decode_name(buf, off);
    crate::engine::watch_begin(buf);
    let lib = guarded(|| Name::verif_parse_at(buf, off).map(|(n, next)| (obs_name(&n), next)));
    crate::engine::watch_end();
    let mut out = Vec::new();
    let nontrivial;
    let tag;
    match (&lib, &reference) {
        (Err(p), _) => {
            nontrivial = true;
            tag = "panic";
            out.push(finding(format!("C06|{}", p.sig()), format!("decode at {} of {}: {:?}", off, hex(buf), p), mk_case()));
        }
        (Ok(Ok((name, next))), Ok(r)) => {
            nontrivial = !r.name.0.is_empty() || r.ptrs > 0;
            tag = if r.ptrs > 0 { "ok-pointer" } else { "ok-plain" };
            if *name != r.name {
                out.push(finding("C06|labels", format!("decode at {} of {}: labels {:?}, RFC decoder {:?}", off, hex(buf), name, r.name), mk_case()));
            }
            if *next != r.next {
                out.push(finding(
                    if r.ptrs > 0 { "C06|cursor-after-pointer" } else { "C06|cursor" },
                    format!("decode at {} of {}: cursor resumes at {}, in-place encoding ends at {}", off, hex(buf), next, r.next),
                    mk_case(),
                ));
            }
            if name.0.iter().any(|l| l.0.is_empty() || l.0.len() > 63) || name.wire_len() > 255 {
                out.push(finding("C06|limits", format!("label or name size out of range: {:?}", name), mk_case()));
            }
        }
        (Ok(Ok((name, _))), Err(e)) => {
            nontrivial = true;
            tag = "accepts-invalid";
            out.push(finding(
                format!("C06|accepts-{}", err_tag(e)),
                format!("decode at {} of {} accepted as {:?}; RFC decoder: {:?}", off, hex(buf), name, e),
                mk_case(),
            ));
        }
        (Ok(Err(e)), Ok(r)) => {
            nontrivial = true;
            if r.backward_only && r.prior_only && (r.ptrs <= 16 || !r.ptr_to_ptr) {
                tag = "rejects-valid";
                out.push(finding(
                    "C06|rejects-valid",
                    format!("decode at {} of {} rejected ({:?}); RFC decoder gives {:?} using only backward pointers", off, hex(buf), e, r.name),
                    mk_case(),
                ));
            } else if r.backward_only && r.prior_only {
                // chains of pointers to pointers: a decoder may cap the number of jumps
                tag = "reject-pointer-chain";
            } else if r.backward_only {
                // a pointer into the label run it ends is not a prior occurrence; a decoder may refuse it
                tag = "reject-pointer-into-own-run";
            } else {
                tag = "reject-forward-pointer";
            }
        }
        (Ok(Err(_)), Err(e)) => {
            nontrivial = *e != NameErr::Truncated;
            tag = match e {
                NameErr::Truncated => "reject-truncated",
                NameErr::Cycle => "reject-cycle",
                NameErr::PtrOutside => "reject-outside",
                NameErr::ReservedLabelType => "reject-reserved",
                NameErr::TooLong => "reject-too-long",
            };
        }
    }
    (out, nontrivial, tag)
}

/// A message whose region after the header is `body`, with the given counts; if the library
/// accepts it, every name it reports in the envelope must be the RFC decoding at the position the
/// independent walker finds, and fixed fields must be read from where the name's in-place bytes end.
pub fn check_embedded(msg: &[u8], rdata_name_at: Option<usize>) -> (Vec<Finding>, bool, &'static str) {
    // large messages are named, not quoted (their artefact is re-created from the generator)
    let big = msg.len() > 20_000;
    let hx = || if big { format!("{}... ({} bytes in all)", hex(&msg[..64.min(msg.len())]), msg.len()) } else { hex(msg) };
    let mk_case = || if big { json!({"kind": "embedded-large", "len": msg.len(), "header": hex(&msg[..12.min(msg.len())])}) } else { json!({"kind": "embedded", "msg": hex(msg), "rdata_name_at": rdata_name_at}) };
    crate::engine::watch_begin(msg);
    let lib = guarded(|| Packet::parse(msg).map(|p| crate::bind::observe(&p)));
    crate::engine::watch_end();
    let w = walk(msg);
    let mut out = Vec::new();
    match (lib, w) {
        (Err(p), _) => {
            out.push(finding(format!("C06|embedded|{}", p.sig()), format!("Packet::parse({}): {:?}", hx(), p), mk_case()));
            (out, true, "panic")
        }
        (Ok(Err(_)), _) => (out, false, "rejected"),
        (Ok(Ok(o)), Err(e)) => {
            out.push(finding(
                "C06|embedded|accepts-unwalkable",
                format!("Packet::parse accepted {}; the envelope walker fails with {:?}", hx(), e),
                mk_case(),
            ));
            let _ = o;
            (out, true, "accepts-unwalkable")
        }
        (Ok(Ok(o)), Ok(w)) => {
            for (i, q) in w.questions.iter().enumerate() {
                if out.len() >= 12 {
                    break; // enough evidence for one message
                }
                match o.questions.get(i) {
                    Some(lq) => {
                        if lq.name != q.name.name {
                            out.push(finding("C06|embedded|question-name", format!("question {}: {:?} vs RFC {:?} in {}", i, lq.name, q.name.name, hx()), mk_case()));
                        }
                        if lq.qtype != q.qtype {
                            out.push(finding("C06|embedded|question-cursor", format!("question {}: qtype {} read, {} follows the name's in-place bytes", i, lq.qtype, q.qtype), mk_case()));
                        }
                    }
                    None => out.push(finding("C06|embedded|question-missing", format!("question {} missing", i), mk_case())),
                }
            }
            let lib_rrs: Vec<&crate::refmodel::packet::RefRR> = o.answers.iter().chain(o.authority.iter()).chain(o.additional.iter()).collect();
            if o.opt.is_none() {
                for (i, r) in w.records.iter().enumerate() {
                    if out.len() >= 12 {
                        break; // enough evidence for one message
                    }
                    if let Some(lr) = lib_rrs.get(i) {
                        if lr.name != r.name.name {
                            out.push(finding("C06|embedded|owner-name", format!("record {}: owner {:?} vs RFC {:?} in {}", i, lr.name, r.name.name, hx()), mk_case()));
                        }
                        if lr.ttl != r.ttl || lr.rdata.code() != r.rtype {
                            out.push(finding("C06|embedded|owner-cursor", format!("record {}: type/ttl ({}, {}) read, ({}, {}) follow the owner name", i, lr.rdata.code(), lr.ttl, r.rtype, r.ttl), mk_case()));
                        } else if let (Some(sch), crate::refmodel::packet::RefRData::Typed { vals, .. }) = (crate::refmodel::schema::schema(r.rtype), &lr.rdata) {
                            // every name inside the RDATA is the RFC decoding at its position
                            if let Ok(d) = crate::refmodel::schema::decode_vals(sch, msg, r.rdata_start, r.rdata_end()) {
                                let mut after_name = false;
                                for (j, (a, b)) in vals.iter().zip(d.vals.iter()).enumerate() {
                                    let is_name = matches!(b, crate::refmodel::schema::Val::Name(_) | crate::refmodel::schema::Val::Gateway(crate::refmodel::schema::Gw::Domain(_)));
                                    if is_name && a != b {
                                        out.push(finding("C06|embedded|rdata-name", format!("record {} ({}) field {}: {:?} vs RFC {:?} in {}", i, sch.mnemonic, j, a, b, crate::engine::truncate(&hx(), 300)), mk_case()));
                                    } else if after_name && a != b {
                                        // parsing of the enclosing element resumes right after the name's in-place bytes
                                        out.push(finding("C06|embedded|rdata-after-name", format!("record {} ({}) field {} (after an embedded name): {:?} vs reference {:?} in {}", i, sch.mnemonic, j, a, b, crate::engine::truncate(&hx(), 300)), mk_case()));
                                    }
                                    after_name |= is_name;
                                }
                                if vals.len() != d.vals.len() {
                                    out.push(finding("C06|embedded|rdata-shape", format!("record {} ({}): {} fields vs {}", i, sch.mnemonic, vals.len(), d.vals.len()), mk_case()));
                                }
                            }
                        }
                    }
                }
            }
            if let Some(at) = rdata_name_at {
                // first record is an NS record whose RDATA starts at `at`
                if let (Some(r), Some(lr)) = (w.records.first(), lib_rrs.first()) {
                    if r.rtype == 2 && r.rdlen > 0 {
                        let d = decode_name(&msg[..r.rdata_end()], at);
                        match (&lr.rdata, d) {
                            (crate::refmodel::packet::RefRData::Typed { vals, .. }, Ok(d)) => {
                                if vals.first() != Some(&crate::refmodel::schema::Val::Name(d.name.clone())) {
                                    out.push(finding("C06|embedded|rdata-name", format!("NS target {:?} vs RFC {:?} in {}", vals.first(), d.name, hx()), mk_case()));
                                }
                            }
                            (crate::refmodel::packet::RefRData::Typed { vals, .. }, Err(e)) => {
                                out.push(finding(
                                    format!("C06|embedded|rdata-accepts-{}", err_tag(&e)),
                                    format!("NS target accepted as {:?}; RFC decoder inside the RDATA: {:?}; msg {}", vals.first(), e, hx()),
                                    mk_case(),
                                ));
                            }
                            _ => {}
                        }
                    }
                }
            }
            let nt = !w.questions.is_empty() || !w.records.is_empty();
            (out, nt, "accepted")
        }
    }
}

fn header(counts: [u16; 4]) -> Vec<u8> {
    let mut h = vec![0x12, 0x34, 0x00, 0x00];
    for c in counts {
        h.extend_from_slice(&c.to_be_bytes());
    }
    h
}

fn tree(ctx: &Ctx, alpha: &[u8], l: usize, name: &str, f: &(dyn Fn(&[u8], &mut Tally) + Sync)) {
    // shards: all prefixes of length 2 (and the shorter strings handled by shard 0)
    let mut shards: Vec<Vec<u8>> = Vec::new();
    for a in alpha {
        for b in alpha {
            shards.push(vec![*a, *b]);
        }
    }
    let total = std::sync::atomic::AtomicU64::new(0);
    {
        let mut t = Tally::default();
        f(&[], &mut t);
        for a in alpha {
            f(&[*a], &mut t);
        }
        total.fetch_add(1 + alpha.len() as u64, std::sync::atomic::Ordering::Relaxed);
        ctx.merge(t);
    }
    if l >= 2 {
        par_shards(ctx, &shards, |p, t: &mut Tally| {
            let mut buf = p.clone();
            let mut n = 0u64;
            crate::engine::for_each_string_upto(alpha, l - 2, &mut buf, &mut |b| {
                n += 1;
                f(b, t);
            });
            total.fetch_add(n, std::sync::atomic::Ordering::Relaxed);
        });
    }
    ctx.space(name, total.load(std::sync::atomic::Ordering::Relaxed), &format!("all strings of length <= {} over {} symbols, complete", l, alpha.len()));
}

pub fn boundary_buffers() -> Vec<(Vec<u8>, usize, usize)> {
    // (buffer, start offset, expanded wire length)
    let lens = [63usize, 62, 61, 1];
    let mut seqs: Vec<Vec<usize>> = vec![vec![]];
    let mut frontier: Vec<Vec<usize>> = vec![vec![]];
    for _ in 0..4 {
        let mut next = Vec::new();
        for f in &frontier {
            for l in lens {
                let mut x = f.clone();
                x.push(l);
                next.push(x);
            }
        }
        seqs.extend(next.iter().cloned());
        frontier = next;
    }
    let enc = |ls: &[usize], out: &mut Vec<u8>| {
        for (i, l) in ls.iter().enumerate() {
            out.push(*l as u8);
            out.extend(std::iter::repeat(b'a' + (i as u8 % 26)).take(*l));
        }
    };
    let wl = |ls: &[usize]| ls.iter().map(|l| l + 1).sum::<usize>();
    let mut out = Vec::new();
    for s in &seqs {
        // plain name
        let total = wl(s) + 1;
        if (248..=260).contains(&total) {
            let mut b = Vec::new();
            enc(s, &mut b);
            b.push(0);
            out.push((b, 0, total));
        }
        // suffix s at offset 0, then prefix p + pointer to 0 (or into the middle of s)
        if s.is_empty() || s.len() > 3 {
            continue;
        }
        for p in &seqs {
            if p.len() > 3 {
                continue;
            }
            for skip in 0..s.len() {
                let tail = &s[skip..];
                let total = wl(p) + wl(tail) + 1;
                if !(250..=258).contains(&total) {
                    continue;
                }
                let mut b = Vec::new();
                enc(s, &mut b);
                b.push(0);
                let start = b.len();
                enc(p, &mut b);
                let target = wl(&s[..skip]);
                b.push(0xc0 | (target >> 8) as u8);
                b.push(target as u8);
                out.push((b, start, total));
            }
        }
    }
    out
}

pub fn run(ctx: &Ctx) {
    let l = ctx.tier.pick(7usize, 8usize);
    let le = ctx.tier.pick(5usize, 6usize);
    ctx.set_rule("every buffer of the prefix tree decoded at every start offset 0..=len through the real Name decoder (hook) and compared with an RFC 1035 4.1.4 reference decoder; the same alphabet embedded as question / owner / RDATA name of a message given to Packet::parse and compared with an independent envelope walker. non-trivial = the reference decodes at least one label or pointer, or rejects for a reason other than truncation");
    ctx.assume("a pointer is 'backward' when its target lies strictly before the pointer's own position; forward pointers may be rejected; expanded length counts the terminating zero");
    {
        let root = ctx.verif_root.clone();
        crate::engine::start_watchdog(std::time::Duration::from_secs(20), move |what, dt| {
            let path = format!("{}/replays/C06-hang.json", root);
            let _ = std::fs::create_dir_all(format!("{}/replays", root));
            let body = json!({"property": "C06", "signature": "C06|decode-does-not-terminate", "detail": format!("decoding did not return after {:?} (pointer cycles must be errors)", dt), "case": {"kind": "hang", "buf": hex(what)}});
            let _ = std::fs::write(&path, serde_json::to_string(&body).unwrap());
            println!("VIOLATION property=C06 replay={}", path);
            println!("  signature: C06|decode-does-not-terminate");
            println!("  detail: a name in {} did not decode within {:?}", crate::engine::truncate(&hex(what), 120), dt);
            std::process::exit(1);
        });
    }
    // space 1: prefix tree at every offset
    tree(ctx, &SIGMA, l, &format!("prefix tree: buffers of length <= {} over 13 symbols, every start offset", l), &|b, t| {
        for off in 0..=b.len() {
            t.evals += 1;
            let (f, nt, tag) = check_at(b, off);
            if nt {
                t.nontrivial += 1;
            }
            t.outcome(tag);
            if !f.is_empty() {
                ctx.violations(f);
            }
        }
    });
    ctx.sample(json!({"kind": "at", "buf": "0161c000", "off": 2}));
    ctx.sample(json!({"kind": "at", "buf": "c002c000", "off": 0}));
    // space 2: pointer graphs made of cells
    let k = ctx.tier.pick(6usize, 7usize);
    let mut n_graph = 0u64;
    {
        // cell kinds: 0 label "01 61", 1 terminator, 2 reserved 0x40, 3 reserved 0x80, 4 overlapping label "02 62", 5.. pointer to cell j
        let kinds = 5 + k;
        let sizes = |c: usize| if c == 1 || c == 2 || c == 3 { 1 } else { 2 };
        let total = (kinds as u64).pow(k as u32);
        let codes: Vec<u64> = (0..total).collect();
        let chunks: Vec<&[u64]> = codes.chunks(4096).collect();
        par_shards(ctx, &chunks, |cs, t: &mut Tally| {
            for &code in cs.iter() {
                let mut cells = Vec::with_capacity(k);
                let mut c = code;
                for _ in 0..k {
                    cells.push((c % kinds as u64) as usize);
                    c /= kinds as u64;
                }
                let mut offs = Vec::with_capacity(k);
                let mut o = 0usize;
                for &cell in &cells {
                    offs.push(o);
                    o += sizes(cell);
                }
                let mut buf = Vec::with_capacity(o);
                for &cell in &cells {
                    match cell {
                        0 => buf.extend_from_slice(&[1, b'a']),
                        1 => buf.push(0),
                        2 => buf.push(0x40),
                        3 => buf.push(0x80),
                        4 => buf.extend_from_slice(&[2, b'b']),
                        j => buf.extend_from_slice(&[0xc0, offs[j - 5] as u8]),
                    }
                }
                for &start in &offs {
                    t.evals += 1;
                    let (f, nt, tag) = check_at(&buf, start);
                    if nt {
                        t.nontrivial += 1;
                    }
                    t.outcome(tag);
                    if !f.is_empty() {
                        ctx.violations(f);
                    }
                }
            }
        });
        n_graph += total * k as u64;
    }
    ctx.space(&format!("pointer graphs: {} cells, each label / terminator / reserved type / overlapping label / pointer to any cell; every start cell", k), n_graph, "complete");
    // space 3: 63/255 boundary family (hook and embedded as question name)
    let bb = boundary_buffers();
    let mut t = Tally::default();
    for (buf, start, total) in &bb {
        t.evals += 1;
        t.nontrivial += 1;
        let (f, _, tag) = check_at(buf, *start);
        t.outcome(tag);
        ctx.violations(f);
        // embedded: question whose name region is the buffer shifted by 12 (pointers rebased)
        let mut msg = header([1, 0, 0, 0]);
        // first the suffix region as an (unused by counts) prefix: place the whole buffer, then the question's fixed fields
        // pointers in `buf` are relative to buffer start; rebase to message coordinates
        let mut body = buf.clone();
        let mut i = *start;
        while i < body.len() {
            let b0 = body[i];
            if b0 & 0xc0 == 0xc0 {
                let tgt = (((b0 & 0x3f) as usize) << 8 | body[i + 1] as usize) + 12;
                body[i] = 0xc0 | (tgt >> 8) as u8;
                body[i + 1] = tgt as u8;
                break;
            } else if b0 == 0 {
                break;
            }
            i += 1 + b0 as usize;
        }
        if *start > 0 {
            // two questions: the suffix name first, then the boundary name pointing into it
            msg = header([2, 0, 0, 0]);
            msg.extend_from_slice(&body[..*start]);
            msg.extend_from_slice(&[0, 1, 0, 1]);
            msg.extend_from_slice(&body[*start..]);
            msg.extend_from_slice(&[0, 1, 0, 1]);
        } else {
            msg.extend_from_slice(&body);
            msg.extend_from_slice(&[0, 1, 0, 1]);
        }
        t.evals += 1;
        let (f, nt, tag) = check_embedded(&msg, None);
        if nt {
            t.nontrivial += 1;
        }
        t.outcome(tag);
        // completeness at message level: a name of <= 255 bytes must be accepted
        if *total <= 255 && tag == "rejected" {
            ctx.violation(finding("C06|embedded|rejects-valid", format!("question name of {} expanded bytes rejected: {}", total, hex(&msg)), json!({"kind": "embedded", "msg": hex(&msg), "rdata_name_at": null, "expect_accept": true})));
        }
        if *total > 255 && tag == "accepted" {
            ctx.violation(finding("C06|embedded|accepts-too-long", format!("question name of {} expanded bytes accepted", total), json!({"kind": "embedded", "msg": hex(&msg), "rdata_name_at": null, "expect_reject": true})));
        }
        ctx.violations(f);
    }
    ctx.merge(t);
    ctx.space("boundary family: label lengths {1,61,62,63} up to 4 labels, plain and via a pointer into an earlier name, expanded length 248..=260; decoded by hook and as question names", bb.len() as u64 * 2, "complete");
    // space 3b: a length byte of 0x40..=0xbf (reserved label type, or "label" of 64..191 bytes)
    // followed by that many bytes, reached in place and through a pointer
    {
        let mut t = Tally::default();
        let mut n = 0u64;
        for lb in [0x3fu8, 0x40, 0x41, 0x7f, 0x80, 0xa5, 0xbf] {
            let mut buf = vec![lb];
            buf.extend(std::iter::repeat(b'f').take((lb & 0x3f) as usize + if lb >= 0x40 { lb as usize - (lb & 0x3f) as usize } else { 0 }));
            buf.push(0);
            let tail_at = buf.len();
            // name: label "c" + pointer to offset 0; and a bare pointer to offset 0
            buf.extend_from_slice(&[1, b'c', 0xc0, 0x00]);
            let bare_at = buf.len();
            buf.extend_from_slice(&[0xc0, 0x00]);
            for start in [0usize, tail_at, bare_at] {
                t.evals += 1;
                t.nontrivial += 1;
                n += 1;
                let (f, _, tag) = check_at(&buf, start);
                t.outcome(tag);
                ctx.violations(f);
            }
            // embedded: first answer NULL with that RDATA, second answer's owner points into it
            let mut msg = header([0, 2, 0, 0]);
            msg.extend_from_slice(&[1, b'a', 0, 0, 10, 0, 1, 0, 0, 0, 0]);
            let rd = &buf[..tail_at];
            msg.extend_from_slice(&(rd.len() as u16).to_be_bytes());
            let rd_at = msg.len();
            msg.extend_from_slice(rd);
            msg.extend_from_slice(&[1, b'c', 0xc0 | (rd_at >> 8) as u8, rd_at as u8, 0, 1, 0, 1, 0, 0, 0, 1, 0, 4, 1, 2, 3, 4]);
            t.evals += 1;
            n += 1;
            let (f, nt, tag) = check_embedded(&msg, None);
            if nt {
                t.nontrivial += 1;
            }
            t.outcome(tag);
            ctx.violations(f);
        }
        ctx.merge(t);
        ctx.space("long length bytes: 0x3f/0x40/0x41/0x7f/0x80/0xa5/0xbf followed by that many bytes, decoded in place, via label+pointer and via a bare pointer, and as an owner name pointing into opaque RDATA", n, "complete");
    }
    // space 3c: names that need many decoding steps
    {
        let max_chain = ctx.tier.pick(2100usize, 8100usize);
        let mut cases: Vec<(Vec<u8>, usize)> = Vec::new();
        // chains of h label-less pointers ending at names of 1 / 126 / 127 labels
        for end_labels in [1usize, 126, 127] {
            let mut buf: Vec<u8> = Vec::new();
            for i in 0..end_labels {
                buf.extend_from_slice(&[1, b'f' + (i % 7) as u8]);
            }
            buf.push(0);
            let mut prev = 0usize;
            let lim = if end_labels == 1 { max_chain } else { 700 };
            for _ in 0..lim {
                let here = buf.len();
                if here > 0x3fff {
                    break;
                }
                buf.extend_from_slice(&[0xc0 | (prev >> 8) as u8, prev as u8]);
                prev = here;
                cases.push((buf.clone(), here));
            }
        }
        // chains in which every hop adds a one-byte label (expanded length grows by 2 per hop)
        {
            let mut buf: Vec<u8> = vec![1, b'r', 0];
            let mut prev = 0usize;
            for i in 0..200usize {
                let here = buf.len();
                buf.extend_from_slice(&[1, b'a' + (i % 26) as u8, 0xc0 | (prev >> 8) as u8, prev as u8]);
                prev = here;
                cases.push((buf.clone(), here));
            }
        }
        // k inline one-byte labels closed by a pointer to a one-label name / by the root
        for k in 0..=130usize {
            let mut buf: Vec<u8> = vec![1, b'r', 0];
            let at = buf.len();
            for i in 0..k {
                buf.extend_from_slice(&[1, b'a' + (i % 26) as u8]);
            }
            let mut closed = buf.clone();
            closed.extend_from_slice(&[0xc0, 0]);
            cases.push((closed, at));
            buf.push(0);
            cases.push((buf, at));
        }
        // every label length 1..=63 x every second label length, before a pointer
        for l1 in 1..=63usize {
            for l2 in 0..=63usize {
                let mut buf: Vec<u8> = vec![1, b'r', 0];
                let at = buf.len();
                buf.push(l1 as u8);
                buf.extend(std::iter::repeat(b'l').take(l1));
                if l2 > 0 {
                    buf.push(l2 as u8);
                    buf.extend(std::iter::repeat(b'm').take(l2));
                }
                buf.extend_from_slice(&[0xc0, 0]);
                cases.push((buf, at));
            }
        }
        // labels whose CONTENT has a meaning somewhere (presentation-format escapes, punycode,
        // underscores, wildcards, spaces): on the wire they are bytes, decoded as they are
        {
            let mut contents: Vec<Vec<u8>> = crate::gen::dictionary_labels().into_iter().map(|s| s.as_bytes().to_vec()).collect();
            let mut b3 = Vec::new();
            crate::engine::for_each_string_upto(b"\\0129.a", 4, &mut b3, &mut |x| {
                if !x.is_empty() {
                    contents.push(x.to_vec());
                }
            });
            for l in &contents {
                if l.is_empty() || l.len() > 63 {
                    continue;
                }
                let mut one = vec![l.len() as u8];
                one.extend_from_slice(l);
                let mut buf = one.clone();
                buf.push(0);
                cases.push((buf.clone(), 0));
                // the same label reached through a pointer, behind another label
                let at = buf.len();
                buf.extend_from_slice(&[1, b'p', 0xc0, 0]);
                cases.push((buf, at));
            }
        }
        // every amount 0..=257 of label bytes in place (long labels / one-byte labels), closed by
        // a pointer to a bare root byte, a pointer to a one-label name, or the root
        let mut sized_msgs: Vec<Vec<u8>> = Vec::new();
        for total in 0..=257usize {
            for style in 0..2 {
                let mut labels: Vec<usize> = Vec::new(); // label lengths
                let mut left = total;
                if style == 0 {
                    while left >= 64 + 2 || left == 64 {
                        labels.push(63);
                        left -= 64;
                    }
                    if left >= 2 {
                        labels.push(left - 1);
                        left = 0;
                    }
                } else {
                    if left % 2 == 1 && left >= 3 {
                        labels.push(2);
                        left -= 3;
                    }
                    while left >= 2 {
                        labels.push(1);
                        left -= 2;
                    }
                }
                if left != 0 {
                    continue;
                }
                let mut inplace: Vec<u8> = Vec::new();
                for (i, l) in labels.iter().enumerate() {
                    inplace.push(*l as u8);
                    inplace.extend(std::iter::repeat(b'a' + (i % 26) as u8).take(*l));
                }
                for closer in 0..3 {
                    let mut buf: Vec<u8> = vec![1, b'r', 0];
                    let at = buf.len();
                    buf.extend_from_slice(&inplace);
                    match closer {
                        0 => buf.extend_from_slice(&[0xc0, 2]),
                        1 => buf.extend_from_slice(&[0xc0, 0]),
                        _ => buf.push(0),
                    }
                    buf.extend_from_slice(&[0xde, 0xad]);
                    cases.push((buf, at));
                    // the same name as the second question of a message (first question: "r")
                    let mut m = header([2, 0, 0, 0]);
                    m.extend_from_slice(&[1, b'r', 0, 0, 1, 0, 1]);
                    m.extend_from_slice(&inplace);
                    match closer {
                        0 => m.extend_from_slice(&[0xc0, 14]),
                        1 => m.extend_from_slice(&[0xc0, 12]),
                        _ => m.push(0),
                    }
                    m.extend_from_slice(&[0, 16, 0, 1]);
                    sized_msgs.push(m);
                }
            }
        }
        let n_at = cases.len() as u64;
        let chunks: Vec<&[(Vec<u8>, usize)]> = cases.chunks(128).collect();
        par_shards(ctx, &chunks, |cs, t: &mut Tally| {
            for (buf, at) in cs.iter() {
                t.evals += 1;
                let (f, nt, tag) = check_at(buf, *at);
                if nt {
                    t.nontrivial += 1;
                }
                t.outcome(tag);
                if !f.is_empty() {
                    ctx.violations(f);
                }
            }
        });
        ctx.space(&format!("many-step names (decoded by hook): chains of every length 1..={} label-less backward pointers ending at a 1-label name and 1..=700 ending at 126- and 127-label names, 1..=200 hops each adding a label, 0..=130 inline labels closed by a pointer or the root, every pair of label lengths (1..=63, 0..=63) before a pointer, labels whose content is a dictionary word or any string of length <= 4 over backslash, 0, 1, 2, 9, '.' and a (in place and through a pointer), every amount 0..=257 of in-place label bytes (63-byte and one-byte labels) closed by a pointer to a bare root byte / a pointer to a one-label name / the root", max_chain), n_at, "complete");
        let mut msgs = crate::gen::name_shape_messages(ctx.tier.pick(700usize, 2100usize));
        msgs.extend(sized_msgs);
        // names whose compression pointers lie beyond offset 65536
        msgs.extend(crate::gen::large_messages());
        let mchunks: Vec<&[Vec<u8>]> = msgs.chunks(64).collect();
        par_shards(ctx, &mchunks, |ms, t: &mut Tally| {
            for m in ms.iter() {
                t.evals += 1;
                let (mut f, nt, tag) = check_embedded(m, None);
                if nt {
                    t.nontrivial += 1;
                }
                t.outcome(tag);
                if tag == "rejected" && crate::refmodel::wire::must_be_accepted(m) {
                    f.push(finding("C06|embedded|rejects-valid", format!("message whose names are all valid backward-pointer names rejected: {}", crate::engine::truncate(&hex(m), 300)), if m.len() > 20_000 { json!({"kind": "embedded-large", "len": m.len(), "header": hex(&m[..12])}) } else { json!({"kind": "embedded", "msg": hex(m), "rdata_name_at": null, "expect_accept": true}) }));
                }
                // MX exchange: third record, when present and accepted, must be the RFC decoding
                if !f.is_empty() {
                    ctx.violations(f);
                }
            }
        });
        ctx.space("many-step names (as owner, MX exchange and question names inside messages)", msgs.len() as u64, "complete");
    }
    // space 3d: every valid compression layout of every name-bearing record type
    {
        let (n, capped) = super::c11::for_each_layout(ctx, 4000, &|m, t| {
            t.evals += 1;
            let (mut f, nt, tag) = check_embedded(m, None);
            if nt {
                t.nontrivial += 1;
            }
            t.outcome(tag);
            if tag == "rejected" && crate::refmodel::wire::must_be_accepted(m) {
                f.push(finding("C06|embedded|rejects-valid", format!("message whose names are all valid backward-pointer names rejected: {}", crate::engine::truncate(&hex(m), 300)), if m.len() > 20_000 { json!({"kind": "embedded-large", "len": m.len(), "header": hex(&m[..12])}) } else { json!({"kind": "embedded", "msg": hex(m), "rdata_name_at": null, "expect_accept": true}) }));
            }
            if !f.is_empty() {
                ctx.violations(f);
            }
        });
        if capped {
            ctx.cap_hit("layout enumeration capped at 4000 layouts for some packet");
        }
        ctx.space("compression layouts of every name-bearing record type (names in place, label prefix + pointer, bare pointer, pointer to pointer): labels of every name and every field after it compared with the reference decoding", n, "complete");
    }
    // space 4: embedded sweeps
    let emb: [u8; 12] = [0x00, 0x01, 0x02, 0x3f, 0x40, 0x80, 0xc0, 0x0c, 0x0d, 0x0e, 0x17, b'a'];
    tree(ctx, &emb, le + 1, &format!("embedded as question: header(QD=1) + body of length <= {} over 12 symbols", le + 1), &|b, t| {
        let mut msg = header([1, 0, 0, 0]);
        msg.extend_from_slice(b);
        t.evals += 1;
        let (f, nt, tag) = check_embedded(&msg, None);
        if nt {
            t.nontrivial += 1;
        }
        t.outcome(tag);
        if !f.is_empty() {
            ctx.violations(f);
        }
    });
    tree(ctx, &emb, le, &format!("embedded as owner name: header(AN=1) + X + fixed A record tail, X of length <= {}", le), &|b, t| {
        let mut msg = header([0, 1, 0, 0]);
        msg.extend_from_slice(b);
        msg.extend_from_slice(&[0, 1, 0, 1, 1, 2, 3, 4, 0, 4, 9, 8, 7, 6]);
        t.evals += 1;
        let (f, nt, tag) = check_embedded(&msg, None);
        if nt {
            t.nontrivial += 1;
        }
        t.outcome(tag);
        if !f.is_empty() {
            ctx.violations(f);
        }
    });
    tree(ctx, &emb, le, &format!("embedded as NS RDATA: header(AN=1) + root owner + NS envelope with RDLENGTH=|X| + X, X of length <= {}", le), &|b, t| {
        if b.is_empty() {
            return;
        }
        let mut msg = header([0, 1, 0, 0]);
        msg.extend_from_slice(&[0, 0, 2, 0, 1, 0, 0, 0, 5]);
        msg.extend_from_slice(&(b.len() as u16).to_be_bytes());
        msg.extend_from_slice(b);
        t.evals += 1;
        let (f, nt, tag) = check_embedded(&msg, Some(23));
        if nt {
            t.nontrivial += 1;
        }
        t.outcome(tag);
        if !f.is_empty() {
            ctx.violations(f);
        }
    });
    ctx.sample(json!({"kind": "embedded", "msg": hex(&[&header([1, 0, 0, 0])[..], &[1, b'a', 0xc0, 0x0c, 0, 1, 0, 1]].concat()), "rdata_name_at": null}));
}

pub fn replay(case: &Value) -> Vec<Finding> {
    if case["kind"].as_str() == Some("embedded-large") {
        let len = case["len"].as_u64().unwrap_or(0) as usize;
        let head = case["header"].as_str().unwrap_or("").to_string();
        let mut out = Vec::new();
        for m in crate::gen::large_messages() {
            if m.len() == len && hex(&m[..12]) == head {
                let (mut f, _, tag) = check_embedded(&m, None);
                if tag == "rejected" && crate::refmodel::wire::must_be_accepted(&m) {
                    f.push(finding("C06|embedded|rejects-valid", format!("a {}-byte message whose names are all valid backward-pointer names is rejected", m.len()), case.clone()));
                }
                out.extend(f);
            }
        }
        return out;
    }
    match case["kind"].as_str().unwrap_or("") {
        "at" => check_at(&unhex(case["buf"].as_str().unwrap_or("")), case["off"].as_u64().unwrap_or(0) as usize).0,
        "embedded" => {
            let msg = unhex(case["msg"].as_str().unwrap_or(""));
            let (mut f, _, tag) = check_embedded(&msg, case["rdata_name_at"].as_u64().map(|x| x as usize));
            if case["expect_accept"].as_bool() == Some(true) && tag == "rejected" {
                f.push(finding("C06|embedded|rejects-valid", "valid boundary name rejected".to_string(), case.clone()));
            }
            if case["expect_reject"].as_bool() == Some(true) && tag == "accepted" {
                f.push(finding("C06|embedded|accepts-too-long", "over-long name accepted".to_string(), case.clone()));
            }
            f
        }
        _ => vec![],
    }
}
