//! C11 — received packets survive re-serialisation.
//! Every input the parser accepts among: reference messages in every valid compression layout,
//! all 65536 flag words with and without OPT, every type with empty RDATA / unknown types / OPT
//! at every index, and the accepted members of C01's malformed-input sweeps.

use super::finding;
use crate::bind::*;
use crate::engine::{guarded, hex, par_shards, unhex, Ctx, Finding, Tally};
use crate::gen;
use crate::refmodel::packet::*;
use crate::refmodel::schema::{self, SCHEMAS};
use crate::refmodel::{RefName, B};
use serde_json::{json, Value};
use simple_dns::Packet;

/// (findings, accepted)
pub fn check_bytes(b: &[u8]) -> (Vec<Finding>, bool) {
    let mk = || json!({"kind": "bytes", "msg": hex(b)});
    let r = guarded(|| -> Option<Vec<(String, String)>> {
        let p = Packet::parse(b).ok()?;
        let o = observe(&p);
        let mut bad = Vec::new();
        for compressed in [false, true] {
            let mode = if compressed { "compressed" } else { "plain" };
            let out = if compressed { p.build_bytes_vec_compressed() } else { p.build_bytes_vec() };
            match out {
                Err(e) => bad.push((format!("build-error|{}", mode), format!("parsed packet cannot be serialised ({}): {:?}", mode, e))),
                Ok(bytes) => {
                    // a proxy re-emits into its own buffers: a fixed datagram buffer and a recycled vector
                    let len = bytes.len();
                    let mut fixed = vec![0xaau8; len + 64];
                    let mut cur = std::io::Cursor::new(&mut fixed[..]);
                    let res = if compressed { p.write_compressed_to(&mut cur) } else { p.write_to(&mut cur) };
                    let pos = cur.position() as usize;
                    if res.is_err() || pos != len || fixed[..len] != bytes[..] {
                        bad.push((format!("writer-fixed-buffer|{}", mode), format!("re-emitting ({}) into a {}-byte datagram buffer: result {:?}, final position {}, expected the {} bytes of the vector-returning call", mode, len + 64, res.map_err(|e| format!("{:?}", e)), pos, len)));
                    }
                    let mut cur = std::io::Cursor::new(vec![0xaau8; len + 40]);
                    let res = if compressed { p.write_compressed_to(&mut cur) } else { p.write_to(&mut cur) };
                    let pos = cur.position() as usize;
                    let v = cur.into_inner();
                    if res.is_err() || pos != len || v.len() < len || v[..len] != bytes[..] {
                        bad.push((format!("writer-recycled-vec|{}", mode), format!("re-emitting ({}) into a recycled vector: result {:?}, final position {}, expected {} bytes equal to the vector-returning call", mode, res.map_err(|e| format!("{:?}", e)), pos, len)));
                    }
                    match Packet::parse(&bytes) {
                    Err(e) => bad.push((format!("reparse-error|{}", mode), format!("re-serialised ({}) output rejected: {:?}; output {}", mode, e, crate::engine::truncate(&hex(&bytes), 300)))),
                    Ok(q) => {
                        let o2 = observe(&q);
                        for (tag, d) in diff(&o, &o2) {
                            let tag = if tag == "header.rcode" {
                                let name = |r: u16| if r == RCODE_RESERVED { "reserved".to_string() } else { r.to_string() };
                                if o.rcode == RCODE_RESERVED {
                                    // the library showed "Reserved" and wrote some other code: which one is incidental
                                    format!("header.rcode|reserved-not-preserved|opt={}", o.opt.is_some())
                                } else {
                                    format!("header.rcode|{}->{}|opt={}", name(o.rcode), name(o2.rcode), o.opt.is_some())
                                }
                            } else {
                                tag
                            };
                            bad.push((format!("{}|{}", tag, mode), format!("after parse -> {} re-serialise -> parse: {}", mode, d)));
                        }
                    }
                }}
            }
        }
        Some(bad)
    });
    match r {
        Err(pn) => (vec![finding(format!("C11|{}", pn.sig()), format!("{:?} on {}", pn, crate::engine::truncate(&hex(b), 300)), mk())], true),
        Ok(None) => (vec![], false),
        Ok(Some(bad)) => {
            // the input is quoted once (it can be megabytes long), and a handful of findings per
            // message is evidence enough
            let quoted = hex(&b[..b.len().min(150)]);
            let case = if b.len() > 20_000 { json!({"kind": "large", "len": b.len(), "header": hex(&b[..12])}) } else { mk() };
            (bad.into_iter().take(24).map(|(t, d)| finding(format!("C11|{}", t), format!("{}; input ({} bytes) {}", crate::engine::truncate(&d, 1500), b.len(), quoted), case.clone())).collect(), true)
        }
    }
}

/// Enumerate every valid compression layout of a packet: each name occurrence is written with k
/// labels in place followed by the terminator (k = all) or by a pointer to any earlier offset at
/// which the remaining labels begin (label starts and earlier pointers alike).
pub fn layouts(p: &RefPacket, cap: usize) -> (Vec<Vec<u8>>, bool) {
    let mut out = Vec::new();
    let mut capped = false;
    let mut stack: Vec<Vec<usize>> = vec![vec![]];
    while let Some(prefix) = stack.pop() {
        if out.len() >= cap {
            capped = true;
            break;
        }
        let mut widths: Vec<usize> = Vec::new();
        let mut table: Vec<(Vec<B>, usize)> = Vec::new(); // (remaining labels, offset)
        let mut step = 0usize;
        let bytes = p.encode_with(0, &mut |n, o, _| {
            // options for this occurrence
            let mut opts: Vec<(usize, Option<usize>)> = vec![(n.0.len(), None)];
            for k in 0..n.0.len() {
                for (s, off) in table.iter() {
                    if s[..] == n.0[k..] && *off < 0x4000 {
                        opts.push((k, Some(*off)));
                    }
                }
            }
            let choice = prefix.get(step).copied().unwrap_or(0);
            widths.push(opts.len());
            step += 1;
            let (k, target) = opts[choice.min(opts.len() - 1)];
            for i in 0..k {
                table.push((n.0[i..].to_vec(), o.len()));
                o.push(n.0[i].0.len() as u8);
                o.extend_from_slice(&n.0[i].0);
            }
            match target {
                None => o.push(0),
                Some(t) => {
                    if k < n.0.len() {
                        table.push((n.0[k..].to_vec(), o.len())); // pointing at this pointer is valid too
                    }
                    o.extend_from_slice(&(0xc000u16 | t as u16).to_be_bytes());
                }
            }
        });
        out.push(bytes);
        // children: deviate at every position beyond the prefix
        for i in prefix.len()..widths.len() {
            for alt in 1..widths[i] {
                let mut c: Vec<usize> = prefix.clone();
                c.resize(i, 0);
                c.push(alt);
                stack.push(c);
            }
        }
    }
    (out, capped)
}

fn tiny_names() -> Vec<RefName> {
    vec![
        RefName::root(),
        RefName::txt("a"),
        RefName::txt("b"),
        RefName::txt("a.a"),
        RefName::txt("a.b"),
        RefName::txt("b.a"),
        RefName::txt("b.b"),
        // the same letters in another case: a foreign encoder may point at them, ours must not merge them
        RefName::txt("A"),
        RefName::txt("A.a"),
        RefName::txt("a.A"),
    ]
}

pub fn layout_packets() -> Vec<RefPacket> {
    let names = tiny_names();
    let mut out = Vec::new();
    for kind in [2u16, 15, 6, 33, 47] {
        for q in &names {
            for o in &names {
                for r in &names {
                    let mut p = RefPacket { id: 3, flags: F_QR, ..Default::default() };
                    p.questions.push(RefQ { name: q.clone(), qtype: 1, qclass: 1, unicast: false });
                    let rn: Vec<RefName> = if kind == 6 { vec![r.clone(), q.clone()] } else { vec![r.clone()] };
                    p.answers.push(RefRR { name: o.clone(), class: 1, cache_flush: false, ttl: 5, rdata: gen::rdata_with_names(kind, &rn) });
                    p.additional.push(RefRR { name: r.clone(), class: 1, cache_flush: false, ttl: 6, rdata: typed(1, vec![schema::Val::U32(1)]) });
                    out.push(p);
                }
            }
        }
    }
    out
}

/// Every record type that carries a name anywhere in its RDATA (compressible per RFC 1035, or
/// not: a foreign encoder may compress them anyway and the parser has to resume after the
/// name's in-place bytes), over a 4-name alphabet, for the layout enumeration.
pub fn layout_packets_all_kinds() -> Vec<RefPacket> {
    let names = vec![RefName::root(), RefName::txt("a"), RefName::txt("b.a"), RefName::txt("A.a")];
    let mut out = Vec::new();
    for sch in SCHEMAS {
        let has_name = sch.fields.iter().any(|(_, k)| matches!(k, schema::Kind::Name(_) | schema::Kind::Gateway));
        if !has_name || [2u16, 15, 6, 33, 47].contains(&sch.code) {
            continue;
        }
        for q in &names {
            for o in &names {
                for r in &names {
                    let mut p = RefPacket { id: 4, flags: F_QR, ..Default::default() };
                    p.questions.push(RefQ { name: q.clone(), qtype: 1, qclass: 1, unicast: false });
                    p.answers.push(RefRR { name: o.clone(), class: 1, cache_flush: false, ttl: 5, rdata: gen::rdata_with_names(sch.code, &[r.clone(), q.clone()]) });
                    p.additional.push(RefRR { name: r.clone(), class: 1, cache_flush: false, ttl: 6, rdata: typed(1, vec![schema::Val::U32(1)]) });
                    out.push(p);
                }
            }
        }
    }
    out
}

/// All layout byte strings of both packet families (shared with C05 and C06).
pub fn for_each_layout(ctx: &Ctx, cap: usize, f: &(dyn Fn(&[u8], &mut Tally) + Sync)) -> (u64, bool) {
    let mut lp = layout_packets();
    lp.extend(layout_packets_all_kinds());
    let capped = std::sync::atomic::AtomicBool::new(false);
    let total = std::sync::atomic::AtomicU64::new(0);
    let chunks: Vec<&[RefPacket]> = lp.chunks(16).collect();
    par_shards(ctx, &chunks, |ps, t: &mut Tally| {
        for p in ps.iter() {
            let (ls, c) = layouts(p, cap);
            if c {
                capped.store(true, std::sync::atomic::Ordering::Relaxed);
            }
            total.fetch_add(ls.len() as u64, std::sync::atomic::Ordering::Relaxed);
            for b in &ls {
                f(b, t);
            }
        }
    });
    (total.load(std::sync::atomic::Ordering::Relaxed), capped.load(std::sync::atomic::Ordering::Relaxed))
}

pub fn run(ctx: &Ctx) {
    ctx.set_rule("every enumerated byte string is parsed; when accepted, the parsed packet is serialised plain and compressed, each output parsed again and all observations compared field by field. Sources: (i) 5000 reference packets over 10 names (incl. case variants) x 5 record kinds in every valid compression layout (pointer-to-pointer included), (ii) all 65536 flag words with and without an OPT record, (iii) every type code with empty RDATA, unknown types and classes of content, OPT at every index, the packet spaces of C02, (iv) the malformed-input generators of C01 (prefix trees, cut/perturb, pointer graphs). non-trivial = the parser accepted the input");
    ctx.assume("observable equality is equality of every public field and accessor (flags, opcode, rcode, EDNS data, every record field); information the library does not expose (OPT flag bits, reserved opcode numbers) is not compared");
    // (i) compression layouts
    let lp = layout_packets();
    let (total, capped) = for_each_layout(ctx, 20000, &|b, t| {
        t.evals += 1;
        let (f, acc) = check_bytes(b);
        if acc {
            t.nontrivial += 1;
        }
        t.outcome(if !acc { "rejected" } else if f.is_empty() { "stable" } else { "altered" });
        if !f.is_empty() {
            ctx.violations(f);
        }
    });
    if capped {
        ctx.cap_hit("layout enumeration capped at 20000 layouts for some packet");
    }
    ctx.space("compression layouts: 5 record kinds x 10^3 name assignments and every other name-bearing record type x 4^3 name assignments, every valid layout of every name occurrence", total, "complete");
    if let Some(p) = lp.get(700) {
        let (ls, _) = layouts(p, 50);
        ctx.sample(json!({"kind": "bytes", "msg": hex(ls.last().unwrap()), "note": "one compression layout of a reference packet"}));
    }
    // (ii-b) every 12-bit response code: extended byte 0..=255 x header nibble 0..=15, under 3 flag settings
    {
        let mut t = Tally::default();
        let mut n = 0u64;
        for ext in 0..=255u8 {
            for nib in 0..16u8 {
                for hi in [0x80u8, 0x84, 0x01] {
                    let m = vec![0x12, 0x34, hi, nib, 0, 0, 0, 0, 0, 0, 0, 1, 0, 0, 41, 0x04, 0xd0, ext, 0, 0, 0, 0, 0];
                    t.evals += 1;
                    n += 1;
                    let (f, acc) = check_bytes(&m);
                    if acc {
                        t.nontrivial += 1;
                    }
                    t.outcome(if !acc { "rejected" } else if f.is_empty() { "stable" } else { "altered" });
                    if !f.is_empty() {
                        ctx.violations(f);
                    }
                }
            }
        }
        ctx.merge(t);
        ctx.space("every 12-bit response code: OPT extended byte 0..=255 x header RCODE nibble 0..=15 x 3 flag settings", n, "complete");
    }
    // (ii) all flag words, with and without OPT
    let words: Vec<u16> = (0..=65535u16).collect();
    let wchunks: Vec<&[u16]> = words.chunks(1024).collect();
    par_shards(ctx, &wchunks, |ws, t: &mut Tally| {
        for &w in ws.iter() {
            for with_opt in [0u8, 1, 2] {
                let mut m = vec![0x12, 0x34];
                m.extend_from_slice(&w.to_be_bytes());
                m.extend_from_slice(&[0, 0, 0, 0, 0, 0, 0, if with_opt > 0 { 1 } else { 0 }]);
                if with_opt > 0 {
                    // OPT, udp 1232, ext-rcode 0 or 0x12, version 0, no options
                    m.extend_from_slice(&[0, 0, 41, 0x04, 0xd0, if with_opt == 2 { 0x12 } else { 0 }, 0, 0, 0, 0, 0]);
                }
                t.evals += 1;
                let (f, acc) = check_bytes(&m);
                if acc {
                    t.nontrivial += 1;
                }
                t.outcome(if !acc { "rejected" } else if f.is_empty() { "stable" } else { "altered" });
                if !f.is_empty() {
                    ctx.violations(f);
                }
            }
        }
    });
    ctx.space("all 65536 flag words x {no OPT, OPT with ext-rcode 0, OPT with ext-rcode 0x12}", 65536 * 3, "complete");
    // (iii) reference-encoded packet spaces (incl. empty RDATA, unknown types), OPT at every index
    let mut space = gen::packet_space(1, false, 2);
    let mut extra: Vec<RefPacket> = Vec::new();
    for sch in SCHEMAS {
        for cls in CLASSES {
            let mut p = RefPacket { id: 1, flags: F_QR, ..Default::default() };
            p.answers.push(RefRR { name: RefName::txt("e.example"), class: cls, cache_flush: cls == 3, ttl: 7, rdata: RefRData::Empty { code: sch.code } });
            p.additional.push(gen::base_rr(sch));
            p.additional.push(rr("z.example", null_rdata(65280, &[9, 9])));
            p.opt = Some(gen::opt_family()[2].clone());
            extra.push(p);
        }
    }
    // two OPT records in the additional section (the second one is an ordinary record for the parser)
    for (i, a) in gen::opt_family().iter().enumerate() {
        for (j, b) in gen::opt_family().iter().enumerate() {
            for n_other in 0..3usize {
                let mut p = RefPacket { id: 2, flags: F_QR, rcode: if i % 2 == 0 { 16 } else { 3 }, opt: Some(a.clone()), ..Default::default() };
                for k in 0..n_other {
                    p.additional.push(rr(if k == 0 { "x.example" } else { "y.example" }, typed(1, vec![schema::Val::U32(k as u32)])));
                }
                let stray = RefRR { name: RefName::root(), class: 1, cache_flush: false, ttl: ((j as u32) << 24) | 0x0001_0000, rdata: RefRData::StrayOpt(b.clone()) };
                for pos in 0..=n_other {
                    let mut q = p.clone();
                    q.additional.insert(pos, stray.clone());
                    extra.push(q);
                }
            }
        }
    }
    // inputs larger than 16 KiB and names near the 255-byte limit (parsed from reference encodings)
    for o in 16360..=16400usize {
        for v in 0..4 {
            extra.push(gen::straddle_packet(o, v));
        }
    }
    extra.extend(gen::long_name_packets());
    extra.extend(gen::many_and_sized_packets());
    extra.extend(gen::size_sweep_packets());
    extra.push(gen::big_shared_packet(20, 1600));
    extra.push(gen::big_shared_packet(120, 500));
    space.extend(extra);
    let pchunks: Vec<&[RefPacket]> = space.chunks(64).collect();
    let n3 = std::sync::atomic::AtomicU64::new(0);
    par_shards(ctx, &pchunks, |ps, t: &mut Tally| {
        for p in ps.iter() {
            let mut encs = vec![p.encode(0), p.encode_compressed(0, true)];
            if p.opt.is_some() {
                for pos in 1..=p.additional.len() {
                    encs.push(p.encode(pos));
                }
            }
            n3.fetch_add(encs.len() as u64, std::sync::atomic::Ordering::Relaxed);
            for b in &encs {
                t.evals += 1;
                let (f, acc) = check_bytes(b);
                if acc {
                    t.nontrivial += 1;
                }
                t.outcome(if !acc { "rejected" } else if f.is_empty() { "stable" } else { "altered" });
                if !f.is_empty() {
                    ctx.violations(f);
                }
            }
        }
    });
    ctx.space("reference encodings (plain and fully compressed, OPT at every additional index) of the C02 packet space plus empty-RDATA x class packets", n3.load(std::sync::atomic::Ordering::Relaxed), "complete");
    {
        // messages beyond 64 KiB and sections filled to the last value their count can hold
        let large = gen::large_messages();
        par_shards(ctx, &large, |b, t: &mut Tally| {
            t.evals += 1;
            let (mut f, acc) = check_bytes(b);
            if !acc {
                f.push(finding("C11|large|rejected", format!("a well-formed message of {} bytes (counts {:?}) is rejected", b.len(), &b[4..12]), json!({"kind": "large", "len": b.len(), "header": hex(&b[..12])})));
            }
            if acc {
                t.nontrivial += 1;
            }
            t.outcome(if !acc { "rejected" } else if f.is_empty() { "stable" } else { "altered" });
            for x in f.iter_mut() {
                // the artefact names the message instead of carrying megabytes of hex
                x.case = json!({"kind": "large", "len": b.len(), "header": hex(&b[..12])});
            }
            if !f.is_empty() {
                ctx.violations(f);
            }
        });
        ctx.space("messages beyond 64 KiB: records with RDATA of 32766..65535 bytes followed by compressed names, sections that together hold 65536..196605 records, a full additional section (65535 entries) with the OPT record first / in the middle / last", large.len() as u64, "complete");
    }
    // (iv) malformed-input generators
    super::c01::enumerate_inputs(
        ctx,
        &|m, t| {
            t.evals += 1;
            let (f, acc) = check_bytes(m);
            if acc {
                t.nontrivial += 1;
            }
            t.outcome(if !acc { "rejected" } else if f.is_empty() { "stable" } else { "altered" });
            if !f.is_empty() {
                ctx.violations(f);
            }
        },
        1,
    );
}

pub fn replay(case: &Value) -> Vec<Finding> {
    if case["kind"].as_str() == Some("large") {
        let len = case["len"].as_u64().unwrap_or(0) as usize;
        let head = case["header"].as_str().unwrap_or("").to_string();
        let mut out = Vec::new();
        for b in gen::large_messages() {
            if b.len() == len && hex(&b[..12]) == head {
                let (f, acc) = check_bytes(&b);
                out.extend(f);
                if !acc {
                    out.push(finding("C11|large|rejected", format!("a well-formed message of {} bytes is rejected", b.len()), case.clone()));
                }
            }
        }
        return out;
    }
    check_bytes(&unhex(case["msg"].as_str().unwrap_or(""))).0
}
