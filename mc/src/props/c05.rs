//! C05 — parsing honours the record framing of the message.
//! Reference-encoded messages in which one record's RDLENGTH ranges over 0..=natural+16, the
//! surplus filled with zeros / phantom records / a pointer, followed by sentinel records;
//! section counts perturbed; judged against an independent envelope walker.

use super::finding;
use crate::bind::*;
use crate::engine::{guarded, hex, par_shards, unhex, Ctx, Finding, Tally};
use crate::gen;
use crate::refmodel::packet::*;
use crate::refmodel::schema::{self, decode_vals, DecErr, SCHEMAS};
use crate::refmodel::wire::{walk, WalkErr};
use crate::refmodel::RefName;
use serde_json::{json, Value};
use simple_dns::Packet;

/// (findings, outcome tag, accepted)
pub fn check_msg(msg: &[u8], expect_accept: bool) -> (Vec<Finding>, &'static str, bool) {
    // large messages are named, not quoted (their artefact is re-created from the generator)
    let big = msg.len() > 20_000;
    let hx = || if big { format!("{}... ({} bytes in all)", hex(&msg[..64.min(msg.len())]), msg.len()) } else { hex(msg) };
    let mk = || if big { json!({"kind": "large-msg", "len": msg.len(), "header": hex(&msg[..12.min(msg.len())]), "expect_accept": expect_accept}) } else { json!({"kind": "msg", "msg": hex(msg), "expect_accept": expect_accept}) };
    let lib = guarded(|| Packet::parse(msg).map(|p| observe(&p)));
    let w = walk(msg);
    let mut out = Vec::new();
    match (lib, w) {
        (Err(pn), _) => {
            out.push(finding(format!("C05|{}", pn.sig()), format!("{:?} on {}", pn, hx()), mk()));
            (out, "panic", false)
        }
        (Ok(Err(e)), Ok(_)) => {
            if expect_accept {
                out.push(finding("C05|rejects-well-formed", format!("well-framed message with natural RDLENGTHs rejected: {:?}: {}", e, hx()), mk()));
            }
            (out, "rejected-walkable", false)
        }
        (Ok(Err(_)), Err(_)) => (out, "rejected-unwalkable", false),
        (Ok(Ok(o)), Err(e)) => {
            let tag = match e {
                WalkErr::ShortHeader => "short-header",
                WalkErr::Name(_, _) => "bad-name",
                WalkErr::Truncated(_) => "overrun",
            };
            out.push(finding(
                format!("C05|accepts-{}", tag),
                format!("message whose counts/lengths do not fit ({:?}) was accepted with {} questions, {}+{}+{} records: {}", e, o.questions.len(), o.answers.len(), o.authority.len(), o.additional.len(), hx()),
                mk(),
            ));
            (out, "accepted-unwalkable", true)
        }
        (Ok(Ok(o)), Ok(w)) => {
            // questions
            if o.questions.len() != w.questions.len() {
                out.push(finding("C05|question-count", format!("{} questions parsed, header says {}", o.questions.len(), w.questions.len()), mk()));
            }
            for (i, (lq, wq)) in o.questions.iter().zip(w.questions.iter()).enumerate() {
                if lq.name != wq.name.name || lq.qtype != wq.qtype || lq.qclass != wq.qclass_raw & 0x7fff || lq.unicast != (wq.qclass_raw & 0x8000 != 0) {
                    out.push(finding("C05|question-fields", format!("question {} is {:?}, entry in the message is ({:?}, {}, {:#06x})", i, lq, wq.name.name, wq.qtype, wq.qclass_raw), mk()));
                }
            }
            // records: expected = walker entries with one OPT of the additional section lifted out.
            // Which one, when a message carries several, is not fixed by the property (RFC 6891
            // calls such a message a format error), so the one the library's result is consistent
            // with is taken: the k-th, where k makes the additional owners/TTLs line up.
            let opt_idx: Vec<usize> = w.records.iter().enumerate().filter(|(_, r)| r.section == 3 && r.rtype == 41).map(|(i, _)| i).collect();
            let mut chosen: Option<usize> = opt_idx.first().copied();
            if opt_idx.len() > 1 && o.opt.is_some() {
                for cand in &opt_idx {
                    let rest: Vec<&crate::refmodel::wire::WalkRR> = w.records.iter().enumerate().filter(|(i, r)| r.section == 3 && i != cand).map(|(_, r)| r).collect();
                    if rest.len() == o.additional.len() && rest.iter().zip(o.additional.iter()).all(|(a, b)| a.rtype == b.rdata.code() && a.ttl == b.ttl && a.name.name == b.name) {
                        chosen = Some(*cand);
                        break;
                    }
                }
            }
            let mut exp: Vec<&crate::refmodel::wire::WalkRR> = Vec::new();
            let mut lifted = false;
            for (i, r) in w.records.iter().enumerate() {
                if Some(i) == chosen {
                    lifted = true;
                    continue;
                }
                exp.push(r);
            }
            if lifted != o.opt.is_some() {
                out.push(finding("C05|opt-lift", format!("OPT in additional section: {}, packet.opt() present: {}", lifted, o.opt.is_some()), mk()));
            }
            let secs = [(1u8, &o.answers, "answers"), (2, &o.authority, "authority"), (3, &o.additional, "additional")];
            for (sid, lrs, sname) in secs {
                let wrs: Vec<&&crate::refmodel::wire::WalkRR> = exp.iter().filter(|r| r.section == sid).collect();
                if wrs.len() != lrs.len() {
                    out.push(finding(
                        format!("C05|record-count|{}", sname),
                        format!("{}: {} records parsed, {} entries delimited by counts and RDLENGTHs: {}", sname, lrs.len(), wrs.len(), hx()),
                        mk(),
                    ));
                }
                for (i, (lr, wr)) in lrs.iter().zip(wrs.iter()).enumerate() {
                    if out.len() >= 12 {
                        break; // enough evidence for one message
                    }
                    let mut bad = Vec::new();
                    if lr.name != wr.name.name {
                        bad.push(format!("owner {:?} vs {:?}", lr.name, wr.name.name));
                    }
                    if lr.rdata.code() != wr.rtype {
                        bad.push(format!("type {} vs {}", lr.rdata.code(), wr.rtype));
                    }
                    if lr.ttl != wr.ttl {
                        bad.push(format!("ttl {:#x} vs {:#x}", lr.ttl, wr.ttl));
                    }
                    if wr.rtype != 41 && (lr.class != wr.class_raw & 0x7fff || lr.cache_flush != (wr.class_raw & 0x8000 != 0)) {
                        bad.push(format!("class/cache-flush ({}, {}) vs raw {:#06x}", lr.class, lr.cache_flush, wr.class_raw));
                    }
                    if !bad.is_empty() {
                        out.push(finding(
                            format!("C05|entry-misread|{}", sname),
                            format!("{}[{}] does not correspond to the entry at offset {}: {}; message {}", sname, i, wr.start, bad.join(", "), hx()),
                            mk(),
                        ));
                        continue;
                    }
                    // RDATA must be decoded from exactly its RDLENGTH bytes
                    if wr.rdlen > 0 && wr.rtype != 41 {
                        if let Some(sch) = schema::schema(wr.rtype) {
                            match decode_vals(sch, msg, wr.rdata_start, wr.rdata_end()) {
                                Err(DecErr::Overrun(f)) => out.push(finding(
                                    format!("C05|rdata-beyond-rdlength|{}", sch.mnemonic),
                                    format!("{}[{}] ({}) accepted although field '{}' does not fit in its {} RDATA bytes: {}", sname, i, sch.mnemonic, f, wr.rdlen, hx()),
                                    mk(),
                                )),
                                Ok(d) => {
                                    if let RefRData::Typed { vals, .. } = &lr.rdata {
                                        if *vals != d.vals {
                                            out.push(finding(
                                                format!("C05|rdata-content|{}", sch.mnemonic),
                                                format!("{}[{}] ({}) decoded as {:?}; its RDLENGTH bytes hold {:?}", sname, i, sch.mnemonic, vals, d.vals),
                                                mk(),
                                            ));
                                        }
                                    }
                                }
                                Err(_) => {}
                            }
                        } else if let RefRData::Opaque { data, .. } = &lr.rdata {
                            if data.0[..] != msg[wr.rdata_start..wr.rdata_end()] {
                                out.push(finding("C05|rdata-content|opaque", format!("{}[{}] opaque data is not the RDLENGTH bytes", sname, i), mk()));
                            }
                        }
                    }
                }
            }
            (out, "accepted", true)
        }
    }
}

fn natural_rdata(code: u16) -> Vec<u8> {
    if code == 41 {
        let mut rd = Vec::new();
        encode_options(&[(10, gen::b(&[1, 2, 3, 4, 5, 6, 7, 8])), (3, gen::b(b""))], &mut rd);
        return rd;
    }
    match schema::schema(code) {
        Some(sch) => {
            let mut e = Vec::new();
            schema::encode_vals(sch, &gen::default_vals(sch), &mut e);
            e
        }
        None => vec![1, 2, 3],
    }
}

fn rec_header(owner: &str, code: u16, ttl: u32, rdlen: usize) -> Vec<u8> {
    let mut m = Vec::new();
    RefName::txt(owner).encode(&mut m);
    m.extend_from_slice(&code.to_be_bytes());
    m.extend_from_slice(&[0, 1]);
    m.extend_from_slice(&ttl.to_be_bytes());
    m.extend_from_slice(&(rdlen as u16).to_be_bytes());
    m
}

fn a_record(owner: &str, ttl: u32) -> Vec<u8> {
    let mut m = rec_header(owner, 1, ttl, 4);
    m.extend_from_slice(&[10, 0, 0, (ttl & 0xff) as u8]);
    m
}

/// Natural RDATA in which every embedded name is a pointer to offset 12 (the owner of the lead
/// record, "lead.example"): the RDATA is shorter on the wire than its expanded content.
fn natural_rdata_pointing(code: u16) -> Option<Vec<u8>> {
    let sch = schema::schema(code)?;
    if !sch.fields.iter().any(|(_, k)| matches!(k, schema::Kind::Name(_))) {
        return None;
    }
    let mut vals = gen::default_vals(sch);
    for v in vals.iter_mut() {
        if let schema::Val::Name(n) = v {
            *n = RefName::txt("lead.example");
        }
    }
    let mut e = Vec::new();
    schema::encode_vals_with(sch, &vals, &mut e, &mut |_, o, _| o.extend_from_slice(&[0xc0, 0x0c]));
    Some(e)
}

/// All messages for one middle-record type code.
pub fn family_groups(code: u16, extra: usize) -> Vec<(Vec<u8>, bool, u64, usize)> {
    let mut out = family_grouped(natural_rdata(code), code, extra, false);
    if let Some(nat) = natural_rdata_pointing(code) {
        let names = schema::schema(code).map(|s| s.fields.iter().filter(|(_, k)| matches!(k, schema::Kind::Name(_))).count()).unwrap_or(0);
        out.extend(family_grouped(nat, code, extra.max(12 * names + 4), true));
    }
    out
}

pub fn family(code: u16, extra: usize) -> Vec<(Vec<u8>, bool)> {
    let mut out = family_with(natural_rdata(code), code, extra, false);
    if let Some(nat) = natural_rdata_pointing(code) {
        // surplus sizes must reach the expanded size of the content (14 bytes per name instead of 2)
        let names = schema::schema(code).map(|s| s.fields.iter().filter(|(_, k)| matches!(k, schema::Kind::Name(_))).count()).unwrap_or(0);
        out.extend(family_with(nat, code, extra.max(12 * names + 4), true));
    }
    out
}

fn family_with(nat: Vec<u8>, code: u16, extra: usize, lead_only: bool) -> Vec<(Vec<u8>, bool)> {
    family_grouped(nat, code, extra, lead_only).into_iter().map(|(m, e, _, _)| (m, e)).collect()
}

/// As `family_with`, each message tagged with (group, sentinels): messages of one group differ
/// only in how many well-formed sentinel records follow the middle record (group 0 = not part
/// of a group: perturbed counts).
fn family_grouped(nat: Vec<u8>, code: u16, extra: usize, lead_only: bool) -> Vec<(Vec<u8>, bool, u64, usize)> {
    let mut fillers: Vec<Vec<u8>> = Vec::new();
    fillers.push(vec![0u8; extra + 4]);
    {
        // a complete phantom record of the same type
        let mut f = rec_header("p", code, 0x0b0b_0b0b, nat.len());
        f.extend_from_slice(&nat);
        fillers.push(f);
    }
    fillers.push(a_record("p", 0x0c0c_0c0c));
    fillers.push(vec![0xc0, 0x0c, 0xc0, 0x0c, 0xc0, 0x0c, 0xc0, 0x0c, 0xc0, 0x0c, 0xc0, 0x0c, 0xc0, 0x0c, 0xc0, 0x0c, 0xc0, 0x0c]);
    let mut out = Vec::new();
    for (fi, filler) in fillers.iter().enumerate() {
        let mut pool = nat.clone();
        pool.extend_from_slice(filler);
        pool.resize(nat.len() + extra + 4, 0);
        for r in 0..=nat.len() + extra {
            if fi > 0 && r <= nat.len() && r != nat.len() {
                continue; // shorter-than-natural regions do not depend on the filler
            }
            for nsent in 0..=2usize {
                for placement in 0..3u8 {
                    if lead_only && placement != 0 {
                        continue; // the pointers need the lead record's owner at offset 12
                    }
                    // 0: lead + middle + sentinels in answers; 1: middle in answers, sentinels in additional; 2: all in additional
                    let lead = placement == 0;
                    let mut body = Vec::new();
                    if lead {
                        body.extend_from_slice(&a_record("lead.example", 0x0d0d_0d0d));
                    }
                    body.extend_from_slice(&rec_header("m.example", code, 0x0101_0101, r));
                    body.extend_from_slice(&pool[..r]);
                    for s in 0..nsent {
                        body.extend_from_slice(&a_record(if s == 0 { "s1.example" } else { "s2.example" }, 0x0a0a_0a01 + s as u32));
                    }
                    let base_counts: [u16; 4] = match placement {
                        0 => [0, 2 + nsent as u16, 0, 0],
                        1 => [0, 1, 0, nsent as u16],
                        _ => [0, 0, 0, 1 + nsent as u16],
                    };
                    // an OPT record outside the additional section is a format error a parser may refuse
                    let mut variants: Vec<([u16; 4], bool)> = vec![(base_counts, r == nat.len() && (code != 41 || placement == 2) && (schema::schema(code).is_some() || code == 41 || code == 10 || library_has_no_variant_for(code)))];
                    if r == nat.len() || r == nat.len() + 1 || r == 0 {
                        for idx in [1usize, 3] {
                            for delta in [-1i32, 1, 0xffff] {
                                let mut c = base_counts;
                                let v = if delta == 0xffff { 0xffff } else { c[idx] as i32 + delta };
                                if v < 0 {
                                    continue;
                                }
                                c[idx] = v as u16;
                                if c != base_counts {
                                    variants.push((c, false));
                                }
                            }
                        }
                    }
                    let gid = 1 + ((fi as u64) << 40 | (r as u64) << 8 | placement as u64) + if lead_only { 1 << 60 } else { 0 };
                    for (vi, (c, expect)) in variants.into_iter().enumerate() {
                        // the header flags must not influence framing: cycle through response,
                        // truncated response, truncated query and an UPDATE opcode
                        let fl: [u8; 2] = [[0x84, 0x00], [0x86, 0x00], [0x02, 0x00], [0xa8, 0x03]][(r + nsent + vi + fi) % 4];
                        let mut m = vec![0x51, 0x52, fl[0], fl[1]];
                        for x in c {
                            m.extend_from_slice(&x.to_be_bytes());
                        }
                        m.extend_from_slice(&body);
                        out.push((m, expect, if vi == 0 { gid } else { 0 }, nsent));
                    }
                }
            }
        }
    }
    out
}

pub fn run(ctx: &Ctx) {
    let extra = ctx.tier.pick(16usize, 40usize);
    ctx.set_rule("for each of 42 type codes: a record whose RDLENGTH ranges over 0..=natural+extra, its region filled from natural RDATA + {zeros, a complete phantom record of the same type, a phantom A record, pointers}, preceded by 0/1 and followed by 0..=2 sentinel records, in three section placements, with section counts at -1/+1/0xffff; compared with an independent envelope walker (library Ok => same entries in the same order with the same owner/type/class/cache-flush/TTL, RDATA decoded from exactly RDLENGTH bytes; walker failure => library Err). non-trivial = the library accepted the message (so the entry-by-entry comparison ran)");
    ctx.assume("a library Err on a mis-sized RDLENGTH is accepted; messages with natural RDLENGTHs and consistent counts must be accepted");
    let mut codes: Vec<u16> = SCHEMAS.iter().map(|s| s.code).collect();
    codes.extend([41u16, 10, 99]);
    let total = std::sync::atomic::AtomicU64::new(0);
    par_shards(ctx, &codes, |code, t: &mut Tally| {
        let fam = family_groups(*code, extra);
        total.fetch_add(fam.len() as u64, std::sync::atomic::Ordering::Relaxed);
        // acceptance of the middle record when nothing follows it, per group
        let mut alone: std::collections::HashMap<u64, bool> = std::collections::HashMap::new();
        for (m, expect, gid, nsent) in &fam {
            t.evals += 1;
            let (f, tag, acc) = check_msg(m, *expect);
            if acc {
                t.nontrivial += 1;
            }
            t.outcome(tag);
            if !f.is_empty() {
                ctx.violations(f);
            }
            if *gid != 0 {
                if *nsent == 0 {
                    alone.insert(*gid, acc);
                } else if alone.get(gid) == Some(&true) && !acc {
                    // the same record was accepted as the last entry; what follows it is well formed
                    ctx.violation(finding(
                        format!("C05|framing-depends-on-what-follows|TYPE{}", code),
                        format!("a message ending in this record is accepted, the same message with {} well-formed A record(s) after it is rejected: the entry after the record is not read from where the record ends; {}", nsent, crate::engine::truncate(&hex(m), 300)),
                        json!({"kind": "follow", "msg": hex(m), "sentinels": nsent}),
                    ));
                }
            }
        }
    });
    ctx.space(&format!("RDLENGTH sweep: 42 type codes x RDLENGTH 0..=natural+{} x 4 fillers x 0..=2 sentinels x 3 placements x count perturbations", extra), total.load(std::sync::atomic::Ordering::Relaxed), "complete");
    // free-form sweep: per type code, every RDATA string X over a reduced alphabet with every
    // RDLENGTH 0..=|X|+1, followed by a sentinel record (what lies past RDLENGTH is the sentinel's
    // problem, never the record's)
    let sig: [u8; 9] = [0x00, 0x01, 0x02, 0x03, 0x1b, 0x40, 0xc0, 0xff, b'a'];
    let l = ctx.tier.pick(5usize, 6usize);
    let mut xs: Vec<Vec<u8>> = Vec::new();
    let mut b = Vec::new();
    crate::engine::for_each_string_upto(&sig, l, &mut b, &mut |x| xs.push(x.to_vec()));
    let chunks: Vec<&[Vec<u8>]> = xs.chunks(256).collect();
    let codes_ref = &codes;
    let total2 = std::sync::atomic::AtomicU64::new(0);
    par_shards(ctx, &chunks, |xs, t: &mut Tally| {
        let mut n = 0u64;
        for x in xs.iter() {
            for &code in codes_ref.iter() {
                for rdlen in 0..=x.len() + 1 {
                    let fl: [u8; 2] = [[0x84, 0x00], [0x86, 0x00], [0x02, 0x00]][(x.len() + rdlen) % 3];
                    let mut m = vec![0x51, 0x52, fl[0], fl[1], 0, 0, 0, 2, 0, 0, 0, 0];
                    m.extend_from_slice(&rec_header("m", code, 0x0101_0101, rdlen));
                    m.extend_from_slice(x);
                    if rdlen <= x.len() {
                        // sentinel starts exactly at the RDLENGTH boundary; bytes of X beyond it are overwritten by it
                        m.truncate(m.len() - (x.len() - rdlen));
                    }
                    m.extend_from_slice(&a_record("s1", 0x0a0a_0a01));
                    t.evals += 1;
                    n += 1;
                    let (f, tag, acc) = check_msg(&m, false);
                    if acc {
                        t.nontrivial += 1;
                    }
                    t.outcome(tag);
                    if !f.is_empty() {
                        ctx.violations(f);
                    }
                }
            }
        }
        total2.fetch_add(n, std::sync::atomic::Ordering::Relaxed);
    });
    ctx.space(&format!("free RDATA sweep: 42 type codes x every X of length <= {} over 9 symbols x RDLENGTH 0..=|X|+1, followed by a sentinel record", l), total2.load(std::sync::atomic::Ordering::Relaxed), "complete");
    // every proper prefix of well-framed messages, under each header flag variant (a truncated
    // message is not a shorter message: counts and lengths that run past the end mean rejection)
    let mut t = Tally::default();
    let mut np = 0u64;
    for code in [1u16, 16, 15, 6, 41] {
        for (m, expect) in family(code, 0).into_iter().filter(|(_, e)| *e) {
            for fl in [[0x84u8, 0x00], [0x86, 0x00], [0x02, 0x00], [0x87, 0x80]] {
                let mut m = m.clone();
                m[2] = fl[0];
                m[3] = fl[1];
                // the same message behind a question (the cut right after the question section is
                // where a "truncated reply" shortcut would stop)
                {
                    let mut mq = m[..12].to_vec();
                    mq[5] = 1;
                    mq.extend_from_slice(&[4, b'l', b'e', b'a', b'd', 7, b'e', b'x', b'a', b'm', b'p', b'l', b'e', 0, 0, 1, 0, 1]);
                    let qlen = mq.len() - 12;
                    mq.extend_from_slice(&m[12..]);
                    // pointers in the body refer to offset 12, which now holds the question name "lead.example": still valid
                    for cut in 12..mq.len() {
                        t.evals += 1;
                        np += 1;
                        let (f, tag, acc) = check_msg(&mq[..cut], false);
                        if acc {
                            t.nontrivial += 1;
                        }
                        t.outcome(tag);
                        if !f.is_empty() {
                            ctx.violations(f);
                        }
                    }
                    let _ = qlen;
                    t.evals += 1;
                    let (f, tag, _) = check_msg(&mq, walk(&mq).is_ok());
                    t.outcome(tag);
                    if !f.is_empty() {
                        ctx.violations(f);
                    }
                }
                for cut in 12..m.len() {
                    t.evals += 1;
                    np += 1;
                    let (f, tag, acc) = check_msg(&m[..cut], false);
                    if acc {
                        t.nontrivial += 1;
                    }
                    t.outcome(tag);
                    if !f.is_empty() {
                        ctx.violations(f);
                    }
                }
                let _ = expect;
            }
        }
    }
    ctx.merge(t);
    ctx.space("proper prefixes: every cut of every well-framed message of 5 type families, alone and behind a question, under 4 header flag variants (TC set and clear)", np, "complete");
    {
        // two OPT records among A records, at every pair of positions
        let mut t = Tally::default();
        let mut n2 = 0u64;
        for total in 2..=4usize {
            for i in 0..total {
                for j in 0..total {
                    if i == j {
                        continue;
                    }
                    let mut body = Vec::new();
                    for k in 0..total {
                        if k == i || k == j {
                            let mut h = rec_header("", 41, if k == i { 0x0100_0000 } else { 0x0003_0000 }, 4);
                            h[3] = if k == i { 0x04 } else { 0x10 }; // udp size high byte differs
                            body.extend_from_slice(&h);
                            body.extend_from_slice(&[0, if k == i { 3 } else { 9 }, 0, 0]);
                        } else {
                            body.extend_from_slice(&a_record(if k % 2 == 0 { "s1.example" } else { "s2.example" }, 0x0a0a_0a00 + k as u32));
                        }
                    }
                    let mut m = vec![0x51, 0x52, 0x84, 0x00, 0, 0, 0, 0, 0, 0, 0, total as u8];
                    m.extend_from_slice(&body);
                    t.evals += 1;
                    n2 += 1;
                    let (f, tag, acc) = check_msg(&m, false);
                    if acc {
                        t.nontrivial += 1;
                    }
                    t.outcome(tag);
                    ctx.violations(f);
                }
            }
        }
        ctx.merge(t);
        ctx.space("two OPT records at every pair of positions among 2..=4 additional records (either may be the one lifted; the rest must stay in wire order)", n2, "complete");
    }
    {
        // names that take many decoding steps in owner / question / RDATA position, and the
        // reference encodings (plain and compressed) of the full size sweep
        let mut msgs = gen::name_shape_messages(ctx.tier.pick(700usize, 2100usize));
        let n_shapes = msgs.len();
        for p in gen::size_sweep_packets() {
            msgs.push(p.encode(0));
            msgs.push(p.encode_compressed(0, true));
        }
        // pointers into the bytes just in front of themselves: a question / owner name that is a
        // pointer to 1..=24 bytes before its own position, where the fixed fields of the previous
        // entry (or its name) are read as labels that run across the pointer; with and without
        // bytes behind the message that a mis-placed cursor would pick up
        let n_near = {
            let mut near: Vec<Vec<u8>> = Vec::new();
            for k in 1..=24usize {
                for (qt, qc) in [(1u16, 1u16), (16, 1), (1, 255), (255, 3), (12, 4), (2, 1)] {
                    for as_owner in [false, true] {
                        for tail in [0usize, 40] {
                            let mut m: Vec<u8> = vec![0x05, 0x0a, 0x84, 0x00, 0, if as_owner { 1 } else { 2 }, 0, if as_owner { 2 } else { 1 }, 0, 0, 0, 0];
                            m.extend_from_slice(&[3, b'a', b'b', b'c', 1, b'd', 0]);
                            m.extend_from_slice(&qt.to_be_bytes());
                            m.extend_from_slice(&qc.to_be_bytes());
                            if as_owner {
                                // a first record whose RDATA ends in a small number, then the near pointer as owner of the second
                                m.extend_from_slice(&[0xc0, 12, 0, 1, 0, 1, 0, 0, 0, 1, 0, 4, 10, 0, 0, 1]);
                            }
                            let p = m.len();
                            if k > p {
                                continue;
                            }
                            let target = p - k;
                            m.extend_from_slice(&[0xc0 | (target >> 8) as u8, target as u8]);
                            if as_owner {
                                m.extend_from_slice(&[0, 1, 0, 1, 0, 0, 0, 2, 0, 4, 10, 0, 0, 2]);
                            } else {
                                m.extend_from_slice(&[0, 1, 0, 1]);
                                m.extend_from_slice(&[0xc0, 12, 0, 1, 0, 1, 0, 0, 0, 3, 0, 4, 10, 0, 0, 3]);
                            }
                            for j in 0..tail {
                                // plausible record bytes behind the message
                                m.push([0u8, 0, 16, 0, 1, 0, 0, 0, 9, 0, 2, 1, b'x', 0xc0, 12, 0, 1, 0, 1, 0][j % 20]);
                            }
                            near.push(m);
                        }
                    }
                }
            }
            let n = near.len();
            msgs.extend(near);
            n
        };
        let n_large = {
            let large = gen::large_messages();
            let n = large.len();
            msgs.extend(large);
            n
        };
        let chunks: Vec<&[Vec<u8>]> = msgs.chunks(if msgs.len() > 64 { 16 } else { 64 }).collect();
        par_shards(ctx, &chunks, |ms, t: &mut Tally| {
            for m in ms.iter() {
                t.evals += 1;
                let expect = crate::refmodel::wire::must_be_accepted(m);
                let (f, tag, acc) = check_msg(m, expect);
                if acc {
                    t.nontrivial += 1;
                }
                t.outcome(tag);
                if !f.is_empty() {
                    ctx.violations(f);
                }
            }
        });
        ctx.space("name shapes: owner names of 0..=130 inline labels with and without a closing pointer, a label of every length 1..=63 before a pointer, chains of every length up to 700 (2100 thorough) and 2000/4000/8000 label-less backward pointers reached from an owner, an MX exchange and a following record; all natural RDLENGTHs, acceptance required exactly when the envelope walker succeeds", n_shapes as u64, "complete");
        ctx.space("size sweep: reference encodings (plain and compressed) of every string length 0..=255, tail length 0..=600, label count 1..=127, label length 1..=63, name length 3..=255, list sizes and 2..400 distinct repeated names", (msgs.len() - n_shapes - n_large - n_near) as u64, "complete");
        ctx.space("near pointers: a question or owner name that is a pointer to 1..=24 bytes before itself (into the previous entry's fixed fields, RDATA or name), 6 preceding type / class values, with and without 40 plausible bytes behind the message", n_near as u64, "complete");
        ctx.space("messages beyond 64 KiB: records with RDATA of 32766..65535 bytes followed by records whose names are compression pointers located beyond offset 65536 (and 131072, 196608), and messages whose sections together hold 65536..196605 records", n_large as u64, "complete");
    }
    {
        // every valid compression layout of records of every name-bearing type
        let (n, capped) = super::c11::for_each_layout(ctx, 4000, &|m, t| {
            t.evals += 1;
            let expect = crate::refmodel::wire::must_be_accepted(m);
            let (f, tag, acc) = check_msg(m, expect);
            if acc {
                t.nontrivial += 1;
            }
            t.outcome(tag);
            if !f.is_empty() {
                ctx.violations(f);
            }
        });
        if capped {
            ctx.cap_hit("layout enumeration capped at 4000 layouts for some packet");
        }
        ctx.space("compression layouts: every valid layout (in place / label prefix + pointer / bare pointer, for every name occurrence) of a question + a record of every name-bearing type (compressible or not, incl. IPSECKEY gateways, SVCB targets, RRSIG signers) + an A record, over small name alphabets", n, "complete");
    }
    let fam = family(1, extra);
    ctx.sample(json!({"kind": "msg", "msg": hex(&fam[fam.len() / 2].0), "expect_accept": fam[fam.len() / 2].1}));
    ctx.sample(json!({"kind": "msg", "msg": hex(&fam[fam.len() - 1].0), "expect_accept": fam[fam.len() - 1].1}));
}

/// Replay of a "follow" case: strip the sentinel records (and lower the counts), see whether the
/// shorter message is accepted, then whether the full one is.
fn replay_follow(msg: &[u8], nsent: usize) -> Vec<Finding> {
    let case = json!({"kind": "follow", "msg": hex(msg), "sentinels": nsent});
    // a sentinel A record with owner "sN.example" is 2+1+7+1 + 10 + 4 = 26 bytes... recompute from the tail
    let sentinel_len = a_record("s1.example", 1).len();
    if msg.len() < 12 + nsent * sentinel_len {
        return vec![];
    }
    let mut alone = msg[..msg.len() - nsent * sentinel_len].to_vec();
    // the sentinels are counted in the last non-zero count of the header
    for idx in [3usize, 1] {
        let c = u16::from_be_bytes([alone[4 + idx * 2], alone[5 + idx * 2]]);
        if c as usize >= nsent && c > 0 {
            alone[4 + idx * 2..6 + idx * 2].copy_from_slice(&(c - nsent as u16).to_be_bytes());
            break;
        }
    }
    let a = check_msg(&alone, false).2;
    let b = check_msg(msg, false).2;
    if a && !b {
        vec![finding("C05|framing-depends-on-what-follows|replayed", "accepted alone, rejected when well-formed records follow".to_string(), case)]
    } else {
        vec![]
    }
}

pub fn replay(case: &Value) -> Vec<Finding> {
    if case["kind"].as_str() == Some("follow") {
        return replay_follow(&unhex(case["msg"].as_str().unwrap_or("")), case["sentinels"].as_u64().unwrap_or(1) as usize);
    }
    if case["kind"].as_str() == Some("large-msg") {
        let len = case["len"].as_u64().unwrap_or(0) as usize;
        let head = case["header"].as_str().unwrap_or("").to_string();
        let mut out = Vec::new();
        for m in gen::large_messages() {
            if m.len() == len && hex(&m[..12]) == head {
                out.extend(check_msg(&m, case["expect_accept"].as_bool().unwrap_or(false)).0);
            }
        }
        return out;
    }
    check_msg(&unhex(case["msg"].as_str().unwrap_or("")), case["expect_accept"].as_bool().unwrap_or(false)).0
}
