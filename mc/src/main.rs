//! mc — bounded-exhaustive exploration of simple-dns / simple-mdns against reference models.
//!
//! usage: mc <Cxx> <quick|thorough>      run a property check, write evidence, exit 0/1/2
//!        mc --replay <file>             re-run one recorded case through the same oracle

mod bind;
mod engine;
mod gen;
mod props;
mod refmodel;

use engine::{Ctx, Tier};

#[global_allocator]
static ALLOC: engine::Meter = engine::Meter;

fn usage() -> ! {
    eprintln!("usage: mc <C01..C20> <quick|thorough> | mc --replay <file>");
    std::process::exit(2)
}

fn main() {
    let args: Vec<String> = std::env::args().collect();
    if args.len() < 3 {
        usage();
    }
    engine::install_panic_hook();
    if args[1] == "--replay" {
        let body = match std::fs::read_to_string(&args[2]) {
            Ok(b) => b,
            Err(e) => {
                eprintln!("MACHINERY: cannot read {}: {}", args[2], e);
                std::process::exit(2);
            }
        };
        let v: serde_json::Value = match serde_json::from_str(&body) {
            Ok(v) => v,
            Err(e) => {
                eprintln!("MACHINERY: replay file does not parse: {}", e);
                std::process::exit(2);
            }
        };
        let prop = v["property"].as_str().unwrap_or("").to_string();
        if v["build_profile"].as_str() == Some("release-defaults") && !engine::secondary_profile() && std::env::var("MC_CHILD").is_err() {
            // found by the second pass: the first binary is not expected to reproduce it
            println!("replay: property={} artefact of the release-defaults pass, not judged by this build", prop);
            std::process::exit(0);
        }
        if v["case"]["kind"].as_str() == Some("abort") {
            eprintln!("MACHINERY: this artefact records a process abort without a case; rerun `./check {} quick` to reproduce", prop);
            std::process::exit(2);
        }
        if matches!(v["case"]["kind"].as_str(), Some("discovery-stage") | Some("socket-race")) {
            eprintln!("MACHINERY: this artefact records an observation made on running services over real sockets (a sequence of datagrams and API calls, not a single case); rerun `./check {} quick` to reproduce", prop);
            std::process::exit(2);
        }
        if std::env::var("MC_CHILD").is_err() {
            engine::install_abort_handler(&prop, &std::env::var("VERIF_ROOT").unwrap_or_else(|_| "/verif".into()));
        }
        let findings = match props::replay(&prop, &v["case"]) {
            Some(f) => f,
            None => {
                eprintln!("MACHINERY: no replay handler for property {:?}", prop);
                std::process::exit(2);
            }
        };
        // determinism: the same case must give the same observation twice
        let again = props::replay(&prop, &v["case"]).unwrap();
        let a: Vec<_> = findings.iter().map(|f| (&f.sig, &f.detail)).collect();
        let b: Vec<_> = again.iter().map(|f| (&f.sig, &f.detail)).collect();
        if a != b {
            eprintln!("MACHINERY: replay is not deterministic: {:?} vs {:?}", a, b);
            std::process::exit(2);
        }
        if findings.is_empty() {
            println!("replay: property={} holds on this case", prop);
            std::process::exit(0);
        }
        for f in &findings {
            println!("VIOLATION property={} replay={}", prop, args[2]);
            println!("  signature: {}", f.sig);
            println!("  detail: {}", engine::truncate(&f.detail, 2000));
        }
        std::process::exit(1);
    }
    let tier = match args[2].as_str() {
        "quick" => Tier::Quick,
        "thorough" => Tier::Thorough,
        _ => usage(),
    };
    let prop = args[1].to_uppercase();
    let ctx = Ctx::new(&prop, tier);
    engine::start_hang_monitor(prop.clone(), std::time::Duration::from_secs(90));
    engine::install_abort_handler(&prop, &ctx.verif_root);
    if !props::run(&ctx) {
        eprintln!("MACHINERY: unknown property {}", prop);
        std::process::exit(2);
    }
    std::process::exit(ctx.finish());
}
