//! Shared generators: boundary domains per field kind, byte-asymmetric defaults,
//! deviation-bounded products over the RDATA schemas, and packet families.

use crate::refmodel::packet::*;
use crate::refmodel::schema::{self, Comp, Gw, Kind, TypeSchema, Val, SCHEMAS};
use crate::refmodel::{RefName, B};

pub fn b(s: &[u8]) -> B {
    B(s.to_vec())
}

pub fn bytes_n(n: usize, seed: u8) -> B {
    B((0..n).map(|i| seed.wrapping_add((i as u8).wrapping_mul(37)) | if i % 3 == 0 { 0x80 } else { 0 }).collect())
}

pub fn label_n(n: usize, c: u8) -> B {
    B(vec![c; n])
}

/// 255-byte (maximal) name: 63+63+63+61 byte labels
pub fn max_name() -> RefName {
    RefName(vec![label_n(63, b'x'), label_n(63, b'y'), label_n(63, b'z'), label_n(61, b'w')])
}

pub fn name_domain() -> Vec<RefName> {
    vec![
        RefName::root(),
        RefName::txt("a"),
        RefName::txt("a.b"),
        RefName(vec![label_n(63, b'l')]),
        max_name(),
        RefName(vec![b(&[0x00]), b(b"a.b"), b(&[0x5c, 0xc0, 0xff])]),
    ]
}

pub fn default_val(k: Kind, i: usize) -> Option<Val> {
    let i8 = i as u8;
    Some(match k {
        Kind::U8 => Val::U8(0x11 + i8),
        Kind::U16 => Val::U16(0x0102 + 0x0101 * i as u16),
        Kind::U24 => Val::U24(0x010203 + i as u32),
        Kind::U32 => Val::U32(0x0102_0304 + 0x1010_1010 * i as u32),
        Kind::I32 => Val::I32(-0x0102_0304 - i as i32),
        Kind::U48 => Val::U48(0x0102_0304_0506 + i as u64),
        Kind::Fixed(n) => Val::Fixed(B((0..n).map(|j| 0xa0u8.wrapping_add(i8).wrapping_add(j as u8 * 7)).collect())),
        Kind::Name(_) => Val::Name(RefName(vec![b(format!("f{}", i).as_bytes()), b(b"example"), b(b"com")])),
        Kind::Str => Val::Str(b(format!("s{}", i).as_bytes())),
        Kind::Tail => Val::Tail(B(vec![0xde, 0xad, i8])),
        Kind::Strs => Val::Strs(vec![b(format!("txt{}", i).as_bytes())]),
        Kind::Params => Val::Params(vec![(1, b(b"\x02h2")), (3, b(&[0x01, 0xbb]))]),
        Kind::Windows => Val::Windows(vec![(0, b(&[0x40, 0x01])), (1, b(&[0x00, 0x80, 0x01]))]),
        Kind::GwType => return None,
        Kind::Gateway => Val::Gateway(Gw::V4([192, 0, 2, 38])),
    })
}

pub fn default_vals(sch: &TypeSchema) -> Vec<Val> {
    let mut v: Vec<Val> = sch.fields.iter().enumerate().filter_map(|(i, (_, k))| default_val(*k, i)).collect();
    if sch.code == 29 {
        v[0] = Val::U8(0); // LOC version must be 0 to be encodable
    }
    v
}

/// Boundary domain of a field kind. `wide` adds a few more values (thorough tier).
pub fn domain(k: Kind, wide: bool) -> Vec<Val> {
    let mut d = match k {
        Kind::U8 => vec![0u8, 1, 0x7f, 0x80, 0xff].into_iter().map(Val::U8).collect::<Vec<_>>(),
        Kind::U16 => vec![0u16, 1, 0x00ff, 0x0100, 0x7fff, 0x8000, 0xffff, 0x1234].into_iter().map(Val::U16).collect(),
        Kind::U24 => vec![0u32, 1, 0x010203, 0x800000, 0xffffff].into_iter().map(Val::U24).collect(),
        Kind::U32 => {
            vec![0u32, 1, 0x7fff_ffff, 0x8000_0000, 0xffff_ffff, 0x0a0b_0c0d].into_iter().map(Val::U32).collect()
        }
        Kind::I32 => vec![0i32, 1, -1, i32::MIN, i32::MAX, 0x0a0b_0c0d].into_iter().map(Val::I32).collect(),
        Kind::U48 => vec![0u64, 1, 0x0a0b_0c0d_0e0f, 0x8000_0000_0000, 0xffff_ffff_ffff].into_iter().map(Val::U48).collect(),
        Kind::Fixed(n) => vec![
            Val::Fixed(B(vec![0; n])),
            Val::Fixed(B(vec![0xff; n])),
            Val::Fixed(B((1..=n as u8).collect())),
            Val::Fixed(B((0..n).map(|i| if i == 0 { 0x80 } else { 0 }).collect())),
        ],
        Kind::Name(_) => name_domain().into_iter().map(Val::Name).collect(),
        Kind::Str => vec![Val::Str(b(b"")), Val::Str(b(b"x")), Val::Str(b(&[0xff, 0x00])), Val::Str(bytes_n(255, 3))],
        Kind::Tail => vec![Val::Tail(b(b"")), Val::Tail(b(&[0x80])), Val::Tail(b(&[1, 2])), Val::Tail(bytes_n(300, 9))],
        Kind::Strs => vec![
            Val::Strs(vec![b(b"")]),
            Val::Strs(vec![b(b"a")]),
            Val::Strs(vec![b(b"a"), b(b"bc")]),
            Val::Strs(vec![bytes_n(255, 1)]),
            Val::Strs(vec![b(b""), b(b"")]),
            Val::Strs(vec![b(b"k=v"), b(&[0xff, 0xfe]), bytes_n(255, 7)]),
        ],
        Kind::Params => vec![
            Val::Params(vec![]),
            Val::Params(vec![(0, b(b""))]),
            Val::Params(vec![(1, b(b"x")), (2, b(b""))]),
            Val::Params(vec![(65535, bytes_n(300, 5))]),
            Val::Params(vec![(0, b(&[0, 1])), (1, b(b"\x02h3")), (3, b(&[0x1f, 0x90])), (4, b(&[192, 0, 2, 1]))]),
        ],
        Kind::Windows => vec![
            Val::Windows(vec![]),
            Val::Windows(vec![(0, b(&[0x01]))]),
            Val::Windows(vec![(0, b(&[0x62, 0x01])), (1, b(&[0x80]))]),
            Val::Windows(vec![(0, b(&[0x40])), (255, B(vec![0xff; 32]))]),
            Val::Windows(vec![(2, b(&[0, 0, 0x08])), (3, b(&[0x10])), (200, b(&[0x01]))]),
        ],
        Kind::GwType => vec![],
        Kind::Gateway => vec![
            Val::Gateway(Gw::None),
            Val::Gateway(Gw::V4([0xff, 0, 0x80, 1])),
            Val::Gateway(Gw::V6(B((1..=16).collect()))),
            Val::Gateway(Gw::Domain(RefName::root())),
            Val::Gateway(Gw::Domain(RefName::txt("gw.example"))),
        ],
    };
    if wide {
        match k {
            Kind::U16 => d.extend([0x0201u16, 0xfffe].into_iter().map(Val::U16)),
            Kind::U32 => d.extend([0x0100_0000u32, 0x00ff_ff00].into_iter().map(Val::U32)),
            Kind::Str => d.push(Val::Str(bytes_n(254, 8))),
            Kind::Tail => d.push(Val::Tail(bytes_n(65, 2))),
            Kind::Name(_) => d.push(Val::Name(RefName::txt("x.y.z.w.v"))),
            _ => {}
        }
    }
    d
}

/// Kinds of the value-carrying fields of a schema, in value order.
pub fn val_kinds(sch: &TypeSchema) -> Vec<Kind> {
    sch.fields.iter().map(|(_, k)| *k).filter(|k| *k != Kind::GwType).collect()
}

/// All value tuples of a schema that differ from the defaults in at most `k` fields
/// (k = 0, 1, 2), drawing deviating values from the boundary domains.
pub fn deviations(sch: &TypeSchema, k: usize, wide: bool) -> Vec<Vec<Val>> {
    let base = default_vals(sch);
    let kinds = val_kinds(sch);
    let mut out = vec![base.clone()];
    if k >= 1 {
        for (i, kind) in kinds.iter().enumerate() {
            for v in domain(*kind, wide) {
                if v != base[i] {
                    let mut x = base.clone();
                    x[i] = v;
                    out.push(x);
                }
            }
        }
    }
    if k >= 2 {
        for i in 0..kinds.len() {
            for j in i + 1..kinds.len() {
                for vi in domain(kinds[i], wide) {
                    if vi == base[i] {
                        continue;
                    }
                    for vj in domain(kinds[j], wide) {
                        if vj == base[j] {
                            continue;
                        }
                        let mut x = base.clone();
                        x[i] = vi.clone();
                        x[j] = vj;
                        out.push(x);
                    }
                }
            }
        }
    }
    out
}

/// Full product over the domains (used for schemas with few fields).
pub fn full_product(sch: &TypeSchema, wide: bool) -> Vec<Vec<Val>> {
    let kinds = val_kinds(sch);
    let doms: Vec<Vec<Val>> = kinds.iter().map(|k| domain(*k, wide)).collect();
    let mut out: Vec<Vec<Val>> = vec![vec![]];
    for d in &doms {
        let mut next = Vec::with_capacity(out.len() * d.len());
        for p in &out {
            for v in d {
                let mut x = p.clone();
                x.push(v.clone());
                next.push(x);
            }
        }
        out = next;
    }
    out
}

/// Is this value tuple something the wire format (and the library's writer) can carry?
pub fn vals_wire_representable(sch: &TypeSchema, vals: &[Val]) -> bool {
    for v in vals {
        match v {
            Val::Name(n) | Val::Gateway(Gw::Domain(n)) => {
                if !n.is_wire_valid() {
                    return false;
                }
            }
            Val::Str(s) => {
                if s.0.len() > 255 {
                    return false;
                }
            }
            Val::Strs(ss) => {
                if ss.is_empty() || ss.iter().any(|s| s.0.len() > 255) {
                    return false;
                }
            }
            Val::Params(ps) => {
                if !ps.windows(2).all(|w| w[0].0 < w[1].0) || ps.iter().any(|p| p.1 .0.len() > 65535) {
                    return false;
                }
            }
            Val::Windows(ws) => {
                if !ws.windows(2).all(|w| w[0].0 < w[1].0) || ws.iter().any(|w| w.1 .0.len() > 255) {
                    return false;
                }
            }
            _ => {}
        }
    }
    if sch.code == 29 {
        if let Some(Val::U8(v)) = vals.first() {
            if *v != 0 {
                return false;
            }
        }
    }
    let mut enc = Vec::new();
    schema::encode_vals(sch, vals, &mut enc);
    !enc.is_empty() && enc.len() <= 65535
}

pub const TTLS: [u32; 5] = [0, 1, 0x7fff_ffff, 0x8000_0000, 0xffff_ffff];

pub fn base_rr(sch: &TypeSchema) -> RefRR {
    RefRR {
        name: RefName::txt("owner.example.com"),
        class: 1,
        cache_flush: false,
        ttl: 0x0102_0304,
        rdata: RefRData::Typed { code: sch.code, vals: default_vals(sch) },
    }
}

/// Record family: every type with ≤k deviations in RDATA, plus envelope deviations
/// (owner name, class, cache-flush, TTL), plus unknown-type / NULL / empty-RDATA records.
pub fn record_family(k: usize, wide: bool) -> Vec<RefRR> {
    let mut out = Vec::new();
    for sch in SCHEMAS {
        let base = base_rr(sch);
        for vals in deviations(sch, k, wide) {
            if !vals_wire_representable(sch, &vals) {
                continue;
            }
            let mut r = base.clone();
            r.rdata = RefRData::Typed { code: sch.code, vals };
            out.push(r);
        }
        for c in CLASSES {
            for cf in [false, true] {
                if c == 1 && !cf {
                    continue;
                }
                let mut r = base.clone();
                r.class = c;
                r.cache_flush = cf;
                out.push(r);
            }
        }
        for t in TTLS {
            let mut r = base.clone();
            r.ttl = t;
            out.push(r);
        }
        for n in name_domain() {
            let mut r = base.clone();
            r.name = n;
            out.push(r);
        }
        // empty RDATA under this type code
        let mut r = base.clone();
        r.rdata = RefRData::Empty { code: sch.code };
        out.push(r);
    }
    for code in [10u16, 19, 99, 255, 65280, 65535] {
        for data in [&[0x80u8][..], &[1, 2, 3], &bytes_n(300, 4).0[..]] {
            out.push(rr("n.example", null_rdata(code, data)));
        }
        out.push(rr("n.example", RefRData::Empty { code }));
    }
    out
}

pub fn question_family() -> Vec<RefQ> {
    let mut out = Vec::new();
    let mut qtypes: Vec<u16> = schema::supported_codes();
    qtypes.extend([10, 251, 252, 253, 254, 255]);
    for qt in &qtypes {
        out.push(RefQ { name: RefName::txt("q.example.com"), qtype: *qt, qclass: 1, unicast: false });
    }
    for qc in [1u16, 2, 3, 4, 254, 255] {
        for u in [false, true] {
            out.push(RefQ { name: RefName::txt("q.example.com"), qtype: 1, qclass: qc, unicast: u });
        }
    }
    for n in name_domain() {
        out.push(RefQ { name: n, qtype: 255, qclass: 255, unicast: true });
    }
    out
}

pub fn opt_family() -> Vec<RefOpt> {
    vec![
        RefOpt { udp: 1232, version: 0, options: vec![] },
        RefOpt { udp: 0, version: 0, options: vec![(10, b(&[1, 2, 3, 4, 5, 6, 7, 8]))] },
        RefOpt { udp: 0xffff, version: 0xff, options: vec![(0, b(b"")), (0xffff, bytes_n(300, 6)), (1, b(&[0x80]))] },
        RefOpt { udp: 0x0102, version: 0x80, options: vec![(3, b(b"ns1"))] },
    ]
}

/// Header family: every flag subset, named opcodes and rcodes, with and without OPT.
pub fn header_family() -> Vec<RefPacket> {
    let mut out = Vec::new();
    let mut subsets = Vec::new();
    for m in 0..128u16 {
        let mut f = 0;
        for (i, bit) in ALL_FLAGS.iter().enumerate() {
            if m & (1 << i) != 0 {
                f |= bit;
            }
        }
        subsets.push(f);
    }
    for (i, f) in subsets.iter().enumerate() {
        out.push(RefPacket { id: [0, 1, 0x1234, 0xffff][i % 4], flags: *f, ..Default::default() });
    }
    for op in NAMED_OPCODES {
        for rc in NAMED_RCODES {
            for (oi, opt) in [None, Some(0usize), Some(2)].iter().enumerate() {
                if rc > 15 && opt.is_none() {
                    continue; // a 12-bit rcode needs EDNS to be representable
                }
                out.push(RefPacket {
                    id: 0xbeef,
                    flags: subsets[(op as usize * 13 + rc as usize * 7 + oi) % 128],
                    opcode: op,
                    rcode: rc,
                    opt: opt.map(|i| opt_family()[i].clone()),
                    ..Default::default()
                });
            }
        }
    }
    for o in opt_family() {
        out.push(RefPacket { id: 7, opt: Some(o), ..Default::default() });
    }
    out
}

/// Packet space: single-record packets per section over the record family, question packets,
/// header family, and multi-entry packets (0..=n entries per section, types cycling).
pub fn packet_space(k: usize, wide: bool, max_per_section: usize) -> Vec<RefPacket> {
    let recs = record_family(k, wide);
    let qs = question_family();
    let mut out = header_family();
    for (i, r) in recs.iter().enumerate() {
        let mut p = RefPacket { id: i as u16, flags: F_QR, ..Default::default() };
        match i % 3 {
            0 => p.answers.push(r.clone()),
            1 => p.authority.push(r.clone()),
            _ => p.additional.push(r.clone()),
        }
        if i % 5 == 0 {
            p.opt = Some(opt_family()[i % 4].clone());
        }
        out.push(p);
    }
    for (i, q) in qs.iter().enumerate() {
        let mut p = RefPacket { id: i as u16, ..Default::default() };
        p.questions.push(q.clone());
        out.push(p);
    }
    // multi-entry: every shape (nq, na, nn, nr) in 0..=max, records drawn cyclically
    let base: Vec<RefRR> = SCHEMAS.iter().map(base_rr).collect();
    let mut ri = 0usize;
    let mut qi = 0usize;
    let m = max_per_section;
    for nq in 0..=m {
        for na in 0..=m {
            for nn in 0..=m {
                for nr in 0..=m {
                    for with_opt in [false, true] {
                        let mut p = RefPacket { id: 0x4242, flags: F_QR | F_AA, ..Default::default() };
                        for _ in 0..nq {
                            p.questions.push(qs[qi % qs.len()].clone());
                            qi += 1;
                        }
                        for (n, sec) in [(na, 0), (nn, 1), (nr, 2)] {
                            for _ in 0..n {
                                let r = base[ri % base.len()].clone();
                                ri += 1;
                                match sec {
                                    0 => p.answers.push(r),
                                    1 => p.authority.push(r),
                                    _ => p.additional.push(r),
                                }
                            }
                        }
                        if with_opt {
                            p.opt = Some(opt_family()[(nq + na + nn + nr) % 4].clone());
                        }
                        out.push(p);
                    }
                }
            }
        }
    }
    out
}

/// Does a name class demand / allow / forbid compression?
pub fn comp_of(k: Kind) -> Option<Comp> {
    match k {
        Kind::Name(c) => Some(c),
        Kind::Gateway => Some(Comp::Never),
        _ => None,
    }
}

/// Cross family: every typed record with <= k RDATA deviations under every combination of
/// class x cache-flush x TTL (owner name cycling through the name domain), one record per packet,
/// section cycling; plus every ordered pair of base records inside one section and across sections.
pub fn cross_family(k: usize, wide: bool) -> Vec<RefPacket> {
    let mut out = Vec::new();
    let names = name_domain();
    let mut i = 0usize;
    for sch in SCHEMAS {
        for vals in deviations(sch, k, wide) {
            if !vals_wire_representable(sch, &vals) {
                continue;
            }
            for c in CLASSES {
                for cf in [false, true] {
                    for t in TTLS {
                        let r = RefRR {
                            name: names[i % names.len()].clone(),
                            class: c,
                            cache_flush: cf,
                            ttl: t,
                            rdata: RefRData::Typed { code: sch.code, vals: vals.clone() },
                        };
                        let mut p = RefPacket { id: i as u16, flags: F_QR, ..Default::default() };
                        match i % 3 {
                            0 => p.answers.push(r),
                            1 => p.authority.push(r),
                            _ => p.additional.push(r),
                        }
                        if i % 7 == 0 {
                            p.opt = Some(opt_family()[i % 4].clone());
                        }
                        i += 1;
                        out.push(p);
                    }
                }
            }
        }
    }
    let base: Vec<RefRR> = SCHEMAS.iter().map(base_rr).collect();
    for a in &base {
        for b in &base {
            for shape in 0..3 {
                let mut p = RefPacket { id: 0x5150, flags: F_QR | F_RA, ..Default::default() };
                match shape {
                    0 => {
                        p.answers.push(a.clone());
                        p.answers.push(b.clone());
                    }
                    1 => {
                        p.answers.push(a.clone());
                        p.additional.push(b.clone());
                    }
                    _ => {
                        p.authority.push(a.clone());
                        p.additional.push(b.clone());
                        p.opt = Some(opt_family()[1].clone());
                    }
                }
                out.push(p);
            }
        }
    }
    out
}
